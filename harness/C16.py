"""C16 — libcnb-test removes every Docker resource and temp dir however the test ends (and the build half of C17).

Executed from MIR: TestRunner::{build, build_internal}, TestContext::{start_container, run_shell_command,
download_sbom_files, rebuild, determine_container_platform}, ContainerContext::{logs_now, logs_wait, address_for_port,
shell_exec}, Drop for ContainerContext / TemporaryDockerResources, util::run_command, app::copy_app, every
From<..Command> for Command.  The test closures are harness programs (scenario trees chosen branch by branch) that do
what compiled closures do, including dropping the context they own at their end and while unwinding.  The outcome of
every external command is a symbolic exit code (at most K non-zero), a panic can be injected at every step; the
recorder's command list and the file-system model are inspected when the scenario ends by return, by panic, or by abort.
"""
import json
import re
from mirsym import smt as z3
from mirsym.core import *
from mirsym import summ_core, summ_coll, summ_proc, summ_fs
from mirsym.summ_core import Ok, Err, Some, NONE, VecV, sval, S
from mirsym.summ_coll import AssocV
from mirsym.summ_fs import World, ABSENT, FILE, DIR
from mirsym.summ_proc import OutputV
from mirsym.run import Inconclusive

RUST_STR = z3.Star(z3.Union(z3.Range("\x01", "\ud7ff"), z3.Range("\ue000", "\U0002ffff")))       # Unicode scalar values without NUL
SHARDS = {"quick": 12, "thorough": 14}
CRATES = ["libcnb-test"]
MANIFEST_DIR = "/crate"
FIXTURE = "/crate/fixture"
MAXCMD = 24


def prepare(run):
    run.program(CRATES)


class TempDirV:
    type_tag = "TempDir"

    def __init__(self, path):
        self.path = path
        self._dropped = False

    def on_drop(self, ctx):
        if not self._dropped:
            self._dropped = True
            ctx.world.remove_tree(self.path)

    def __repr__(self):
        return f"TempDir({self.path})"


class TWorld(World):
    def __init__(self, ctx, max_faults):
        super().__init__(ctx)
        self.commands = []
        self.tempdirs = []
        self.idn = 0
        self.codes = [z3.Int(f"exit{i}") for i in range(MAXCMD)]
        ctx.assume(z3.And([z3.And(c >= 0, c <= 1) for c in self.codes]))
        ctx.assume(z3.Sum([c for c in self.codes]) <= max_faults)
        self.env["CARGO_MANIFEST_DIR"] = MANIFEST_DIR
        self.add("/crate", DIR)
        self.add(FIXTURE, DIR)
        self.add(FIXTURE + "/app.txt", FILE, content="fixture")
        self.add("/tmp", DIR)
        self.events = []

    def remove_tree(self, path):
        for p in list(self.fs):
            if p == path or p.startswith(path + "/"):
                self.fs[p].kind = ABSENT

    def run_command(self, ctx, rec):
        i = len(self.commands) - 1
        if i >= MAXCMD:
            raise BoundExceeded("more external commands than modelled")
        rec["code"] = self.codes[i]
        args = rec["args"]
        out = ""
        if rec["program"] == "docker" and args and args[0] == "port":
            out = "127.0.0.1:32768\n"
        return OutputV(self.codes[i], out, "")


def build_scenarios(P, run, quick, BUDGET, build_ops=("start_container", "run_shell_command", "download_sbom", "rebuild"), container_config=None):
    """installs the libcnb-test environment stubs into P and returns entry(ctx): one TestRunner::build with a closure program"""

    fn = lambda suffix: _find(P, suffix)
    f_build = fn("TestRunner::build")
    f_start, f_shell, f_sbom, f_rebuild = fn("TestContext::<'_>::start_container"), fn("TestContext::<'_>::run_shell_command"), \
        fn("TestContext::<'_>::download_sbom_files"), fn("TestContext::<'_>::rebuild")
    f_logs_now, f_logs_wait, f_port, f_exec = fn("ContainerContext::logs_now"), fn("ContainerContext::logs_wait"), fn("ContainerContext::address_for_port"), \
        fn("ContainerContext::shell_exec")
    run.encoded(P, [f_build, fn("TestRunner::build_internal"), f_start, f_shell, f_sbom, f_rebuild, f_logs_now, f_logs_wait, f_port, f_exec, fn("util::run_command"),
                    fn("app::copy_app")])

    @P.summary("util::random_docker_identifier", "random_docker_identifier")
    def _ident(ctx, c):
        ctx.world.idn += 1
        return f"libcnbtest_id{ctx.world.idn}"

    @P.summary("tempfile::tempdir", "tempdir")
    def _tempdir(ctx, c):
        w = ctx.world
        p = f"/tmp/td{len(w.tempdirs)}"
        w.tempdirs.append(p)
        w.add(p, DIR)
        return Ok(TempDirV(p))

    @P.summary("TempDir::path")
    def _td_path(ctx, c):
        return deref(c.args[0]).path

    @P.summary("fs_extra::dir::copy", "dir::copy")
    def _copy(ctx, c):
        w = ctx.world
        src, dst = sval(c.args[0]), sval(c.args[1])
        for p in list(w.fs):
            if p.startswith(src + "/") and w.fs[p].kind != ABSENT:
                n = w.fs[p]
                w.add(dst + p[len(src):], n.kind, content=n.content)
        return Ok(0)

    @P.summary("default:CopyOptions", "default:fs_extra::dir::CopyOptions")
    def _copyopts(ctx, c):
        return Adt("CopyOptions", None, [False, False, 64000, False, False, 0])

    @P.summary("<impl str>::parse")
    def _parse(ctx, c):
        s = sval(c.args[0])
        if isinstance(s, str) and re.fullmatch(r"\d+\.\d+\.\d+\.\d+:\d+", s):
            return Ok(Opaque("SocketAddr", s))
        return Err(Opaque("AddrParseError", s))

    def drop_owned(ctx, val, unwinding):
        """what drop glue does with an owned value at the end of a closure / while it unwinds"""
        if unwinding:
            ctx.py_unwinding = getattr(ctx, "py_unwinding", 0) + 1
        try:
            P.drop_value(ctx, Ref(Box(val)))
        except Panic as e:
            if unwinding:
                raise Abort("panic in a destructor while unwinding: " + e.msg)
            raise
        finally:
            if unwinding:
                ctx.py_unwinding -= 1

    def step_choice(ctx, names, label):
        return names[ctx.choose([True] * len(names), label)]

    def mk_build_config(ctx, tag, preproc_log):
        if quick or tag != "b0":
            pre, failure, ne = [(False, False, 1), (True, False, 0), (False, True, 0)][ctx.choose([True] * 3, f"{tag}:config")]
        else:
            pre = ctx.choose([True, True], f"{tag}:preprocessor?") == 1
            failure = ctx.choose([True, True], f"{tag}:expect-failure?") == 1
            ne = ctx.choose([True, True], f"{tag}:n-env")
        env = AssocV(False)
        pairs = []
        for i in range(ne):
            k, v = z3.String(f"{tag}_ek{i}"), z3.String(f"{tag}_ev{i}")
            ctx.assume(z3.And(z3.Length(k) > 0, z3.Not(z3.Contains(k, z3.StringVal("="))), z3.InRe(k, RUST_STR), z3.InRe(v, RUST_STR)))
            summ_coll.insert(ctx, env, k, v)
            pairs.append((k, v))
        bids = [z3.String(f"{tag}_bp{i}") for i in range(2)]
        for b in bids:
            ctx.assume(z3.InRe(b, RUST_STR))
        builder = z3.String(f"{tag}_builder")
        ctx.assume(z3.InRe(builder, RUST_STR))

        def preprocessor(ctx2, path):
            p = sval(path)
            preproc_log.append(p)
            ctx2.world.add(p + "/added-by-preprocessor", FILE, content="x")
            return UNIT
        cfg = P.mk_struct("BuildConfig", app_dir="fixture", cargo_profile=Adt("CargoProfile", "Dev", []), target_triple="x86_64-unknown-linux-musl",
                          builder_name=builder, buildpacks=VecV([Adt("BuildpackReference", "Other", [b]) for b in bids]), env=env,
                          app_dir_preprocessor=Some(PyFn(preprocessor)) if pre else NONE,
                          expected_pack_result=Adt("PackResult", "Failure" if failure else "Success", []))
        return cfg, dict(tag=tag, pre=pre, failure=failure, env=pairs, bids=bids, builder=builder)

    def container_program(ctx, st, cc):
        """a closure FnOnce(ContainerContext)"""
        unw = False
        try:
            while True:
                ops = ["return", "panic"] + (["logs_now", "logs_wait", "port", "port-unexposed", "shell_exec"] if st["budget"] > 0 else [])
                op = step_choice(ctx, ops, "container-step")
                st["trace"].append("c:" + op)
                if op == "return":
                    break
                if op == "panic":
                    raise Panic("injected panic in the container closure")
                st["budget"] -= 1
                r = Ref(Box(cc))
                if op == "logs_now":
                    P.call(ctx, f_logs_now, [r], tyenv={})
                elif op == "logs_wait":
                    P.call(ctx, f_logs_wait, [r], tyenv={})
                elif op == "port":
                    P.call(ctx, f_port, [r, 8080], tyenv={})
                elif op == "port-unexposed":
                    P.call(ctx, f_port, [r, 9999], tyenv={})
                else:
                    P.call(ctx, f_exec, [r, "true"], tyenv={"impl AsRef<str>": "&str"})
        except Panic:
            unw = True
            drop_owned(ctx, cc, True)
            raise
        if not unw:
            drop_owned(ctx, cc, False)
        return UNIT

    def build_program(ctx, st, tc):
        """a closure FnOnce(TestContext)"""
        moved = False
        try:
            while True:
                ops = ["return", "panic"] + (list(build_ops) if st["budget"] > 0 else [])
                op = step_choice(ctx, ops, "build-step")
                st["trace"].append("b:" + op)
                if op == "return":
                    break
                if op == "panic":
                    raise Panic("injected panic in the build closure")
                st["budget"] -= 1
                r = Ref(Box(tc))
                if op == "start_container":
                    if container_config is not None:
                        ccfg = container_config(ctx)
                    else:
                        ports = AssocV(False, True)
                        summ_coll.insert(ctx, ports, 8080, UNIT)
                        ccfg = P.mk_struct("ContainerConfig", entrypoint=NONE, command=NONE, env=AssocV(False), exposed_ports=ports, bind_mounts=AssocV(False))
                    P.call(ctx, f_start, [r, ccfg, PyFn(lambda c2, cc: container_program(c2, st, cc))], tyenv={"C": "ContainerConfig", "F": "{pyfn}"})
                elif op == "run_shell_command":
                    P.call(ctx, f_shell, [r, "true"], tyenv={"impl Into<String>": "&str"})
                elif op == "download_sbom":
                    inner = step_choice(ctx, ["return", "panic"], "sbom-closure")
                    st["trace"].append("s:" + inner)

                    def sbom_cb(c2, files, inner=inner):
                        if inner == "panic":
                            raise Panic("injected panic in the sbom closure")
                        return UNIT
                    P.call(ctx, f_sbom, [r, PyFn(sbom_cb)], tyenv={"R": "()", "F": "{pyfn}"})
                else:
                    cfg2, info2 = mk_build_config(ctx, f"rb{len(st['builds'])}", st["preproc"])
                    st["builds"].append(info2)
                    moved = True
                    P.call(ctx, f_rebuild, [tc, cfg2, PyFn(lambda c2, tc2: build_program(c2, st, tc2))], tyenv={"C": "BuildConfig", "F": "{pyfn}"})
                    break
        except Panic:
            if not moved:
                drop_owned(ctx, tc, True)
            raise
        if not moved:
            drop_owned(ctx, tc, False)
        return UNIT

    def entry(ctx):
        st = dict(budget=BUDGET, trace=[], builds=[], preproc=[])
        ctx.st = st
        cfg, info = mk_build_config(ctx, "b0", st["preproc"])
        st["builds"].append(info)
        runner = Adt("TestRunner", None, [])
        P.call(ctx, f_build, [Ref(Box(runner)), cfg, PyFn(lambda c2, tc: build_program(c2, st, tc))], tyenv={"C": "BuildConfig", "F": "{pyfn}"})
        return UNIT

    return entry


def main(run):
    quick = run.tier == "quick"
    BUDGET = 3
    FAULTS = 1 if quick else 2
    run.bounds = {"scenario": f"one TestRunner::build whose closure is any program of <= {BUDGET} steps from {{start_container(nested program), run_shell_command, "
                              "download_sbom_files(closure returns | panics), rebuild(nested program), panic, return}}, container programs from {logs_now, logs_wait, "
                              "address_for_port(exposed | not exposed), shell_exec, panic, return}",
                  "faults": f"every external command's exit code symbolic, at most {FAULTS} non-zero per scenario; a panic injectable at every step",
                  "configs": ("three build configurations (plain + 1 env pair | with app preprocessor | expected pack failure)" if quick else "expected pack result Success | Failure x with / without app preprocessor x 0..1 env pair") + "; buildpacks: 2 references `Other(id)` with symbolic ids; "
                             "rebuild with the same kind of configuration"}
    run.assumptions = ["a closure drops the context it owns when it ends and while it unwinds (what rustc's drop glue does)",
                       "tempfile::tempdir creates a fresh directory removed when the TempDir is dropped; fs_extra::dir::copy(content_only) copies the tree",
                       "random_docker_identifier returns pairwise distinct names", "commands that cannot be spawned at all (docker/pack missing) are outside",
                       "buildpack packaging (CurrentCrate / WorkspaceBuildpack: cargo cross-compilation) is outside: references are `Other(id)`"]
    run.outside = ["process::abort/exit or SIGKILL inside the closure", "real docker/pack behaviour", "more steps/faults than bounded"]
    P = run.program(CRATES)
    summ_core.install(P)
    summ_coll.install(P)
    summ_fs.install(P)
    summ_proc.install(P)
    entry = build_scenarios(P, run, quick, BUDGET)
    res = run.explore(P, entry, lambda ctx: [], world_factory=lambda ctx: TWorld(ctx, FAULTS), max_paths=3000000, max_depth=80)
    run.log(f"{len(res)} paths")
    pending = []
    ends = {}
    n = 0
    for ctx, (kind, out) in res:
        if kind == "bound" or kind == "exit":
            run.inconclusive.append(f"path ends with {kind}: {str(out)[:200]}")
            continue
        n += 1
        ends[kind] = ends.get(kind, 0) + 1
        w, st = ctx.world, ctx.st
        viol = analyse(ctx, w, st, kind)
        run.obligation(len(viol) + 1)
        symbolic = [(sig, what, cond) for sig, what, cond in viol if cond is not True]
        concrete = [(sig, what) for sig, what, cond in viol if cond is True]
        want = list(w.codes[:len(w.commands)])
        for info in st["builds"]:
            want += [info["builder"]] + info["bids"] + [x for kv in info["env"] for x in kv]
        found = None
        if concrete:
            ans, m = run.check(ctx.pc, "scenario-feasible", want=want, timeout_ms=20000)
            if ans == "sat":
                found = (concrete[0][0], concrete[0][1], m)
        if found is None and symbolic:
            ans, m = run.check(ctx.pc + [z3.Or([c for _, _, c in symbolic])], "argv-carries-config", want=want, timeout_ms=20000)
            if ans == "sat":
                found = (symbolic[0][0], symbolic[0][1], m)
        if found is None and n % (25 if quick else 10) == 0:
            ans, m = run.check(ctx.pc, "witness", want=want, timeout_ms=20000)
            if ans == "sat":
                found = (None, None, m)
        if found:
            pending.append((ctx, kind, found))
    run.extra["ends"] = ends
    cands = [p for p in pending if p[2][0] is not None]
    wit = [p for p in pending if p[2][0] is None]
    # one candidate per role signature and a sample of witnesses are replayed
    seen, keep = {}, []
    for p in cands:
        seen.setdefault(p[2][0], []).append(p)
    for sig, ps in seen.items():
        keep += ps[:3]
    pending = keep + wit[:60 if quick else 200]
    reqs = [scenario_request(ctx, m) for ctx, kind, (sig, what, m) in pending]
    reals = run.replay.run(reqs, timeout=1200)
    for (ctx, kind, (sig, what, m)), req, real in zip(pending, reqs, reals):
        if "error" in real or "panic" in real:
            run.mismatch(f"replay driver failed: {real} on {req}")
            continue
        pred = predicted_log(ctx, m)
        real["commands"] = normalise(real["commands"])
        if real["commands"] != pred or real["end"] != kind:
            run.mismatch(f"scenario {req['trace']} codes {req['codes']}: predicted end={kind} commands={pred}; real end={real['end']} commands={real['commands']}")
            continue
        run.stats["validated"] += 1
        rv = real_violations(real, req)
        if sig is None:
            if rv:
                run.mismatch(f"real run violates ({rv}) where the model saw none: {req['trace']} {req['codes']}")
            else:
                run.sample({"trace": req["trace"], "codes": req["codes"], "end": kind, "commands": len(pred)}, limit=6)
        else:
            run.candidate(sig, f"{what}; scenario {req['trace']} exit codes {req['codes']} ends by {kind}; real: {rv}", req, bool(rv))


def _find(P, suffix):
    parts = suffix.replace("::<'_>", "").split("::")
    k = P.impl_index.get((parts[0], None, parts[1])) if len(parts) == 2 else None
    if k:
        return k
    ks = [k for k, f in P.funcs.items() if f is not None and (f.name == parts[-1] or f.name.endswith("::" + suffix))]
    if len(ks) != 1:
        raise Inconclusive(f"function {suffix}: {len(ks)} candidates")
    return ks[0]


def argv_of(rec):
    a = [rec["program"]] + list(rec["args"])
    for x in a:
        if not isinstance(x, str) and not z3.is_expr(x):
            raise Unsupported(f"non-string command argument {x!r} in {a!r}")
    return a


def lit(x):
    return x if isinstance(x, str) else None


def analyse(ctx, w, st, end, mode="cleanup"):
    """-> [(signature, description, condition)]: condition True (violated on every model of the path) or a z3 term (violated when it holds)"""
    out = []
    cmds = [argv_of(r) for r in w.commands]
    created_containers, created_images, created_volumes = [], [], []
    for i, a in enumerate(cmds):
        if a[:2] == ["docker", "run"] and "--detach" in a:
            created_containers.append((i, a[a.index("--name") + 1]))
        if a[:2] == ["pack", "build"]:
            img = a[2]
            if img not in created_images:
                created_images.append(img)
            for x in a:
                m = re.fullmatch(r"type=(build|launch);format=volume;name=(.*)", x) if isinstance(x, str) else None
                if m and m.group(2) not in created_volumes:
                    created_volumes.append(m.group(2))
    # every detached container force-removed after its start
    for i, name in created_containers:
        rms = [j for j, a in enumerate(cmds) if a[:2] == ["docker", "rm"] and name in a[2:] and "--force" in a]
        if not [j for j in rms if j > i]:
            out.append(("container-not-removed", f"container {name} started detached (command {i}) is never force-removed", True))
    # image and volumes removed exactly once after their last use
    for img in created_images:
        uses = [j for j, a in enumerate(cmds) if img in a and not a[:2] == ["docker", "rmi"]]
        rmis = [j for j, a in enumerate(cmds) if a[:2] == ["docker", "rmi"] and img in a[2:] and "--force" in a]
        if len(rmis) != 1:
            out.append(("image-removed-%d-times" % len(rmis), f"image {img} force-removed {len(rmis)} times", True))
        elif rmis[0] < max(uses):
            out.append(("image-removed-before-last-use", f"image {img} removed at {rmis[0]} but used at {max(uses)}", True))
    for vol in created_volumes:
        rmv = [j for j, a in enumerate(cmds) if a[:3] == ["docker", "volume", "remove"] and vol in a[3:] and "--force" in a]
        uses = [j for j, a in enumerate(cmds) if a[:2] == ["pack", "build"] and any(isinstance(x, str) and x.endswith("name=" + vol) for x in a)]
        if len(rmv) != 1:
            out.append(("volume-removed-%d-times" % len(rmv), f"cache volume {vol} force-removed {len(rmv)} times", True))
        elif rmv[0] < max(uses):
            out.append(("volume-removed-before-last-use", f"cache volume {vol} removed before its last use", True))
    # nothing removed that the run did not create
    made = set(n for _, n in created_containers) | set(created_images) | set(created_volumes)
    for a in cmds:
        if a[:2] in (["docker", "rm"], ["docker", "rmi"]) or a[:3] == ["docker", "volume", "remove"]:
            for x in a[3 if a[1] == "volume" else 2:]:
                if x != "--force" and x not in made:
                    out.append(("foreign-resource-removed", f"{a} removes {x}, which this run did not create", True))
    # no temp dir left behind; fixture untouched
    for p in w.tempdirs:
        if w.fs[p].kind != ABSENT:
            out.append(("tempdir-left-behind", f"temporary directory {p} still exists when the scenario ends ({end})", True))
    fx = [p for p in w.fs if p.startswith(FIXTURE + "/") and w.fs[p].kind != ABSENT]
    fixture_bad = fx != [FIXTURE + "/app.txt"] or w.fs[FIXTURE + "/app.txt"].content != "fixture"
    if mode == "cleanup":
        return out
    out = []
    # C17 (build half): one pack build per build configuration, carrying builder, path, buildpacks in order, env pairs once
    if fixture_bad:
        out.append(("fixture-modified", f"the app fixture was modified: {fx}", True))
    packs = [a for a in cmds if a[:2] == ["pack", "build"]]
    if len(packs) != len([b for b in st["builds"]]) and end == "return":
        out.append(("pack-build-count", f"{len(packs)} pack build invocations for {len(st['builds'])} build configurations", True))
    from spec import cli
    for a, info in zip(packs, st["builds"]):
        try:
            p = cli.parse_pack_build(_NoBranch(ctx), a[1:])
        except Ambiguous as e:
            out.append(("pack-argv-ambiguous", f"pack build argv {a}: the parse depends on the text of a user-supplied value ({e})", True))
            continue
        if isinstance(p, tuple):
            out.append(("pack-argv-unparseable", f"pack build argv {a}: {p[1]}", True))
            continue
        conds = []
        if len(p["buildpacks"]) != len(info["bids"]):
            out.append(("pack-buildpack-count", f"{len(p['buildpacks'])} --buildpack options for {len(info['bids'])} configured references", True))
        else:
            conds += [S(g) != w_ for g, w_ in zip(p["buildpacks"], info["bids"])]
        conds.append(S(p["builder"]) != info["builder"] if p["builder"] is not None else z3.BoolVal(True))
        if len(p["env"]) != len(info["env"]):
            out.append(("pack-env-count", f"{len(p['env'])} --env options for {len(info['env'])} configured pairs", True))
        else:
            for (k, v) in info["env"]:
                conds.append(z3.Not(z3.Or([z3.And(S(gk) == k, S(gv) == v) for gk, gv in p["env"] if gv is not None] or [z3.BoolVal(False)])))
        path = lit(p["path"])
        if info["pre"]:
            if path is None or not path.startswith("/tmp/td") or path not in st["preproc"]:
                out.append(("pack-path-not-private-copy", f"--path {p['path']} with a preprocessor (preprocessor saw {st['preproc']})", True))
        elif path != FIXTURE:
            out.append(("pack-path-not-fixture", f"--path {p['path']} without a preprocessor", True))
        cs = [c for c in conds if not z3.is_false(z3.simplify(c))]
        if cs:
            out.append(("pack-argv-differs-from-config", f"pack build argv does not carry the configuration {info['tag']}", z3.Or(cs)))
    return out


class Ambiguous(Exception):
    pass


class _NoBranch:
    """parsing after the path has ended: a decision on a symbolic argument must already be settled by the path condition
    (e.g. an env name contains no '='); otherwise a user value reached a position where its text steers the parse"""
    def __init__(self, ctx):
        self.ctx = ctx

    def branch(self, c, label=""):
        if self.ctx.entails(c):
            return True
        if self.ctx.entails(z3.Not(c)):
            return False
        raise Ambiguous(label)

    def fresh(self, *a):
        raise Unsupported("fresh")


def scenario_request(ctx, m):
    st, w = ctx.st, ctx.world
    builds = []
    for info in st["builds"]:
        builds.append({"preprocessor": info["pre"], "expect_failure": info["failure"], "builder": m.str(info["builder"]),
                       "buildpacks": [m.str(b) for b in info["bids"]], "env": [[m.str(k), m.str(v)] for k, v in info["env"]]})
    return {"op": "runner-scenario", "trace": list(st["trace"]), "builds": builds, "codes": [m.int(c) for c in w.codes[:len(w.commands)]]}


def predicted_log(ctx, m):
    out = []
    for r in ctx.world.commands:
        out.append([summ_core.eval_str(ctx, m, a) for a in argv_of(r)])
    return normalise(out)


def normalise(cmds):
    """rename generated identifiers and temp dirs by order of first appearance"""
    names, tds = {}, {}

    def ren(s):
        def idr(mo):
            return names.setdefault(mo.group(0), f"ID{len(names) + 1}")
        s = re.sub(r"libcnbtest_[a-z0-9]+", idr, s)

        def tdr(mo):
            return tds.setdefault(mo.group(0), f"TD{len(tds) + 1}")
        return re.sub(r"/tmp/(td\d+|\.tmp[A-Za-z0-9_-]+)", tdr, s)
    return [[ren(x) for x in c] for c in cmds]


def real_violations(real, req):
    """the same cleanup obligations evaluated on the real run's command log and leftover temp entries"""
    class W:
        pass
    out = []
    cmds = real["commands"]
    for i, a in enumerate(cmds):
        if a[:2] == ["docker", "run"] and "--detach" in a:
            name = a[a.index("--name") + 1]
            if not [j for j, b in enumerate(cmds) if j > i and b[:2] == ["docker", "rm"] and name in b and "--force" in b]:
                out.append(f"container {name} never removed")
    imgs, vols = [], []
    for a in cmds:
        if a[:2] == ["pack", "build"]:
            if a[2] not in imgs:
                imgs.append(a[2])
            for x in a:
                mo = re.fullmatch(r"type=(build|launch);format=volume;name=(.*)", x)
                if mo and mo.group(2) not in vols:
                    vols.append(mo.group(2))
    for img in imgs:
        rm = [j for j, a in enumerate(cmds) if a[:2] == ["docker", "rmi"] and img in a and "--force" in a]
        uses = [j for j, a in enumerate(cmds) if img in a and a[:2] != ["docker", "rmi"]]
        if len(rm) != 1 or rm[0] < max(uses):
            out.append(f"image {img} removed {len(rm)} times / before last use")
    for v in vols:
        rm = [j for j, a in enumerate(cmds) if a[:3] == ["docker", "volume", "remove"] and v in a and "--force" in a]
        if len(rm) != 1:
            out.append(f"volume {v} removed {len(rm)} times")
    if real.get("leftover"):
        out.append(f"temp entries left behind: {real['leftover']}")
    if real.get("fixture_changed"):
        out.append("fixture modified")
    packs = [a for a in cmds if a[:2] == ["pack", "build"]]
    for a, b in zip(packs, req["builds"]):
        bps = [a[i + 1] for i, x in enumerate(a) if x == "--buildpack"]
        if bps != b["buildpacks"]:
            out.append(f"pack build carries buildpacks {bps}, configured {b['buildpacks']}")
        envs = [a[i + 1] for i, x in enumerate(a) if x == "--env"]
        if sorted(envs) != sorted(f"{k}={v}" for k, v in dict((k, v) for k, v in b["env"]).items()):
            out.append(f"pack build carries env {envs}, configured {b['env']}")
        if a[a.index("--builder") + 1] != b["builder"]:
            out.append("builder differs")
    return out


def finalize(run):
    e = run.extra.get("ends", {})
    for need in ("return", "panic"):
        if not e.get(need):
            run.inconclusive.append(f"vacuity: no scenario ends by {need}")


def replay(run, scen):
    real = run.replay.run([scen["scenario"]])[0]
    print(json.dumps({"real": real, "violations": real_violations(real, scen["scenario"]) if "commands" in real else None}))
    return 0
