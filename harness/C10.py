"""C10 — implicit layer paths: from directories, build/launch only, never persisted.

Executed from MIR: `LayerEnv::{new, insert, write_to_layer_dir, read_from_layer_dir, apply}`, `LayerEnvDelta::*`,
`Env::*`.  bin/lib/include/pkgconfig take every one of the six kinds (absent, directory, file, symlink to a directory,
symlink to a file, dangling symlink) symbolically.
"""
import json
from mirsym import smt as z3
from mirsym.core import *
from mirsym import summ_core, summ_coll, summ_fs
from mirsym.summ_core import Ok, Err, Some, NONE, VecV, sval, S
from mirsym.summ_fs import World, ABSENT, FILE, DIR, LINK
from mirsym.run import Inconclusive
from spec import env_rules

SHARDS = {"quick": 14, "thorough": 15}
CRATES = ["libcnb"]
LD = "/L/n"
SUBS = ["bin", "lib", "include", "pkgconfig"]
TARGETS = ["/T/dir", "/T/file", "/nowhere"]
# the statement's table: which variable gets which directory in which scope
TABLE = {"Build": [("PATH", "bin"), ("LIBRARY_PATH", "lib"), ("LD_LIBRARY_PATH", "lib"), ("CPATH", "include"), ("PKG_CONFIG_PATH", "pkgconfig")],
         "Launch": [("PATH", "bin"), ("LD_LIBRARY_PATH", "lib")]}
VARS = ["PATH", "LIBRARY_PATH", "LD_LIBRARY_PATH", "CPATH", "PKG_CONFIG_PATH"]
QUERY = ["All", "Build", "Launch", ("Process", "web")]
EX_SCOPES = ["All", "Build", "Launch"]
EX_BEH = ["Prepend", "Override", "Append", "Default"]
EX_NAMES = ["PATH", "LD_LIBRARY_PATH", "CPATH"]


def prepare(run):
    run.program(CRATES)


def scope_adt(sc):
    return Adt("Scope", sc, []) if isinstance(sc, str) else Adt("Scope", "Process", [sc[1]])


def make_world(ctx):
    w = World(ctx)
    w.add("/L", DIR)
    w.add(LD, DIR)
    w.add("/T", DIR)
    w.add("/T/dir", DIR)
    w.add("/T/file", FILE, content="t")
    ctx.kinds = {}
    for s_ in SUBS:
        k = z3.Int(f"k_{s_}")
        ctx.assume(z3.Or([k == x for x in (ABSENT, FILE, DIR, LINK)]))
        t = z3.Int(f"t_{s_}")
        ctx.assume(z3.And(t >= 0, t < len(TARGETS)))
        w.add(f"{LD}/{s_}", k, content="f", targets=list(TARGETS), sel=t)
        ctx.kinds[s_] = (k, t)
    if not ctx.thorough:
        # quick tier: bin and lib take all six kinds independently; include and pkgconfig (build-only, same rule) are both
        # absent or both directories
        ctx.assume(z3.And(z3.Int("k_include") == z3.Int("k_pkgconfig"), z3.Or(z3.Int("k_include") == ABSENT, z3.Int("k_include") == DIR)))
    return w


def is_dir_term(ctx, s_):
    k, t = ctx.kinds[s_]
    return z3.Or(k == DIR, z3.And(k == LINK, t == 0))


def main(run):
    run.bounds = {"bin/lib/include/pkgconfig": "each absent | dir | file | symlink->dir | symlink->file | dangling symlink (all 6^4, symbolic)",
                  "explicit entries": "none or one entry: scope {all, build, launch} x {prepend, override, append, default} x {PATH, LD_LIBRARY_PATH, CPATH}, arbitrary non-empty value",
                  "query": "all, build, launch, process -- all evaluated on every path", "start env": "all variables unset | all set to arbitrary non-empty strings | all set to the empty string -- all three on every path", "cycles": "read->write twice (fixpoint)"}
    run.assumptions = ["Path::is_dir follows symlinks (std); path-list separator ':' (unix)", "explicit-entry semantics = CNB rules (C04), implicit prepend applied on top"]
    run.outside = ["more than one explicit entry", "windows separator"]
    P = run.program(CRATES)
    summ_core.install(P)
    summ_coll.install(P)
    summ_fs.install(P)
    g = lambda t, n: P.impl_index.get((t, None, n))
    le_new, le_insert, le_write, le_read, le_apply = (g("LayerEnv", n) for n in ("new", "insert", "write_to_layer_dir", "read_from_layer_dir", "apply"))
    env_new, env_insert, env_get = (g("Env", n) for n in ("new", "insert", "get"))
    if not all([le_new, le_insert, le_write, le_read, le_apply, env_new, env_insert, env_get]):
        raise Inconclusive("LayerEnv/Env functions not found in MIR")
    run.encoded(P, [le_new, le_insert, le_write, le_read, le_apply])

    def env_files(ctx):
        w = ctx.world
        out = {}
        for d in ("env", "env.build", "env.launch"):
            base = f"{LD}/{d}"
            for p, n in w.fs.items():
                if p == base or p.startswith(base + "/"):
                    if not (isinstance(n.kind, int) and n.kind == ABSENT):
                        out[p] = (n.kind, n.content)
        return out

    def entry(ctx):
        has = ctx.choose([True, True], "explicit?") == 1
        ents = []
        le = P.call(ctx, le_new, [], tyenv={})
        leb = Box(le)
        if has:
            names = EX_NAMES if ctx.thorough else EX_NAMES[:1]
            sc = EX_SCOPES[ctx.choose([True] * len(EX_SCOPES), "ex-scope")]
            beh = EX_BEH[ctx.choose([True] * len(EX_BEH), "ex-beh")]
            nm = names[ctx.choose([True] * len(names), "ex-name")]
            val = z3.String("ex_val")
            ctx.assume(z3.Length(val) > 0)
            ents.append((sc, beh, nm, val))
            P.call(ctx, le_insert, [Ref(leb), scope_adt(sc), Adt("ModificationBehavior", beh, []), nm, val], tyenv={})
        ctx.ents = ents
        r = deref(P.call(ctx, le_write, [Ref(leb), LD], tyenv={}))
        if r.variant != "Ok":
            return {"stage": "write0-failed"}
        files0 = env_files(ctx)
        rr = deref(P.call(ctx, le_read, [LD], tyenv={}))
        if rr.variant != "Ok":
            return {"stage": "read-failed"}
        rb = Box(rr.fields[0])
        # every query scope x {all variables unset, all set to arbitrary strings}: apply is pure, so all of them are
        # evaluated on this one path
        results = []
        for q in QUERY:
            for mode in ("unset", "nonempty", "empty"):
                start = {}
                env = P.call(ctx, env_new, [], tyenv={})
                eb = Box(env)
                for v in VARS:
                    if mode == "unset":
                        start[v] = None
                        continue
                    if mode == "nonempty":
                        start[v] = z3.String(f"s_{v}")
                        ctx.assume(z3.Length(start[v]) > 0)      # emptiness is decided up front: no forking inside apply
                    else:
                        start[v] = ""
                    P.call(ctx, env_insert, [Ref(eb), v, start[v]], tyenv={})
                res = P.call(ctx, le_apply, [Ref(rb), scope_adt(q), Ref(eb)], tyenv={})
                resb = Box(res)
                got = {}
                for v in VARS:
                    x = deref(P.call(ctx, env_get, [Ref(resb), v], tyenv={}))
                    got[v] = None if x.variant == "None" else sval(x.fields[0])
                results.append((q, start, got))
        # read -> write cycles
        cycles = []
        cur = rb
        for _ in range(2):
            wr = deref(P.call(ctx, le_write, [Ref(cur), LD], tyenv={}))
            if wr.variant != "Ok":
                return {"stage": "rewrite-failed"}
            cycles.append(env_files(ctx))
            r2 = deref(P.call(ctx, le_read, [LD], tyenv={}))
            if r2.variant != "Ok":
                return {"stage": "reread-failed"}
            cur = Box(r2.fields[0])
        return {"stage": "ok", "results": results, "files0": files0, "cycles": cycles}

    def world(ctx):
        ctx.thorough = run.tier == "thorough"
        return make_world(ctx)
    res = run.explore(P, entry, lambda ctx: [], world, max_paths=3000000, max_depth=50)
    run.log(f"{len(res)} paths")
    pending = []
    stages = {}
    n_ok = 0
    for ctx, (kind, out) in res:
        if kind != "return":
            run.inconclusive.append(f"path ends with {kind}: {str(out)[:200]}")
            continue
        stages[out["stage"]] = stages.get(out["stage"], 0) + 1
        want = [z3.Int(f"k_{s_}") for s_ in SUBS] + [z3.Int(f"t_{s_}") for s_ in SUBS] + [z3.String("ex_val")] + [z3.String(f"s_{v}") for v in VARS]
        run.obligation()
        if out["stage"] != "ok":
            ans, m = run.check(ctx.pc, "operation-succeeds", want=want)
            if ans == "sat":
                pending.append((ctx, m, out, "operation-failed:" + out["stage"]))
            continue
        n_ok += 1
        clauses = []
        for q, start, got in out["results"]:
            base = env_rules.apply_rules(ctx.ents, q, start)        # explicit entries only (CNB rules)
            implicit = dict()
            if isinstance(q, str) and q in TABLE:
                for var, sub in TABLE[q]:
                    implicit[var] = sub
            for v in VARS:
                is_set, val = base.get(v, (start[v] is not None, S(start[v]) if start[v] is not None else z3.StringVal("")))
                g_ = got[v]
                set_t = z3.BoolVal(is_set) if isinstance(is_set, bool) else is_set
                if v in implicit:
                    d = is_dir_term(ctx, implicit[v])
                    p = z3.StringVal(f"{LD}/{implicit[v]}")
                    nonempty = z3.And(set_t, z3.Length(val) > 0)
                    exp_val = z3.If(d, z3.If(nonempty, z3.Concat(p, z3.StringVal(":"), val), p), val)
                    exp_set = z3.Or(d, set_t)
                else:
                    exp_val, exp_set = val, set_t
                if g_ is None:
                    clauses.append(z3.Not(exp_set))
                else:
                    clauses.append(z3.And(exp_set, S(g_) == exp_val))
        ans, m = run.check(ctx.pc + [z3.Not(z3.And(clauses))], "implicit-paths-table", want=want)
        if ans == "sat":
            pending.append((ctx, m, out, "implicit-paths-differ-from-table"))
            continue
        # persisted files unchanged by read->write cycles
        same = []
        f0 = out["files0"]
        for cyc in out["cycles"]:
            if set(cyc) != set(f0):
                same.append(z3.BoolVal(False))
                continue
            for p_, (k, c) in cyc.items():
                k0, c0 = f0[p_]
                same.append(z3.BoolVal(k == k0) if isinstance(k, int) and isinstance(k0, int) else (k == k0))
                if c is not None or c0 is not None:
                    same.append(S(c if c is not None else "") == S(c0 if c0 is not None else ""))
        run.obligation()
        ans, m = run.check(ctx.pc + [z3.Not(z3.And(same) if same else z3.BoolVal(True))], "cycle-leaves-env-dirs-unchanged", want=want)
        if ans == "sat":
            pending.append((ctx, m, out, "read-write-cycle-changes-env-dirs"))
            continue
        if n_ok % (9 if run.tier == "quick" else 1) == 0:
            ans, m = run.check(ctx.pc, "witness", want=want)
            if ans == "sat":
                pending.append((ctx, m, out, None))
    run.extra["stages"] = stages
    if run.tier == "quick":
        cands = [p for p in pending if p[3] is not None]
        wit = [p for p in pending if p[3] is None]
        pending = cands[:40] + wit[::max(1, len(wit) // 60)]
    KN = {ABSENT: "absent", FILE: "file", DIR: "dir"}
    reqs = []
    for ctx, m, out, sig in pending:
        subs = {}
        for s_ in SUBS:
            k, t = m.int(z3.Int(f"k_{s_}")), m.int(z3.Int(f"t_{s_}"))
            subs[s_] = KN[k] if k != LINK else ["link-dir", "link-file", "link-dangling"][t]
        reqs.append({"op": "env-paths", "subs": subs,
                     "entries": [{"scope": sc.lower(), "behavior": beh.lower(), "name": nm, "value": m.str(v)} for sc, beh, nm, v in ctx.ents],
                     "queries": [{"query": q.lower() if isinstance(q, str) else q[1], "start": {v: (None if s_ is None else (s_ if isinstance(s_, str) else m.str(s_))) for v, s_ in st.items()}}
                                 for q, st, _ in out.get("results", [])]})
    reals = run.replay.run(reqs)
    for (ctx, m, out, sig), req, real in zip(pending, reqs, reals):
        if "panic" in real or "error" in real:
            run.mismatch(f"replay driver failed: {real} on {req}")
            continue
        viol = real_violation(req, real)
        if sig is None:
            if viol:
                run.mismatch(f"real code violates the property where the symbolic path does not: {viol}; {req}")
                continue
            run.stats["validated"] += 1
            run.sample({"subs": req["subs"], "entries": req["entries"], "results": real.get("envs", [])[:2]}, limit=6)
        else:
            run.stats["validated"] += 1
            run.candidate(sig, f"subs={req['subs']} entries={req['entries']} -> {viol}", req, bool(viol))


def real_violation(req, real):
    if real.get("stage") != "ok":
        return f"operation failed: {real.get('stage')}"
    from harness.C04 import concrete_rules
    isdir = lambda s_: req["subs"][s_] in ("dir", "link-dir")
    for qd, env in zip(req["queries"], real["envs"]):
        base = concrete_rules({"entries": req["entries"], "query": qd["query"], "start": qd["start"]})
        exp = dict(base)
        table = {"build": TABLE["Build"], "launch": TABLE["Launch"]}.get(qd["query"], [])
        for var, sub in table:
            if isdir(sub):
                prev = base.get(var)
                exp[var] = f"<layer>/{sub}" + (":" + prev if prev else "")
        got = {k: v for k, v in env.items() if k in VARS}
        if got != exp:
            return f"apply({qd['query']}, start={'set' if any(v is not None for v in qd['start'].values()) else 'unset'}) gives {got}, table says {exp}"
    if real.get("files_after") != real.get("files_before"):
        return f"env directories changed by read->write: {real.get('files_before')} -> {real.get('files_after')}"
    return None


def finalize(run):
    if not run.extra.get("stages", {}).get("ok"):
        run.inconclusive.append("vacuity: no successful path")


def replay(run, scen):
    real = run.replay.run([scen["scenario"]])[0]
    print(json.dumps({"real": real, "violation": real_violation(scen["scenario"], real)}))
    return 0
