"""C05 — detect and build phases exit and write outputs as the buildpack API requires.

Executed from MIR: libcnb_runtime (the whole entry point incl. the API gate and argv handling), libcnb_runtime_detect,
libcnb_runtime_build, DetectArgs::parse, BuildArgs::parse, read_buildpack_dir, read_buildpack_descriptor,
context_target, GenericPlatform::from_path, read_toml_file/write_toml_file, the derived Deserialize of
BuildpackDescriptorApiOnly, BuildpackApi::try_from/Deserialize, BuildpackPlan, Store, and the derived Serialize of what
is written.  The process environment (argv, CNB_* variables, cwd), the file system and `process::exit` are models; the
buildpack is a harness object whose detect/build/on_error record their calls and answer as chosen on the path.
The `api` string in buildpack.toml and the presence of every file/variable are solver variables.
"""
import json
import re
from mirsym import smt as z3
from mirsym.core import *
from mirsym import summ_core, summ_coll, summ_fs, summ_serde
from mirsym.summ_core import Ok, Err, Some, NONE, VecV, sval, S, ListIt
from mirsym.summ_fs import World, ABSENT, FILE, DIR
from mirsym.summ_serde import TVal, TomlText, SerdeErr
from mirsym.run import Inconclusive
from harness import C09

SHARDS = {"quick": 12, "thorough": 14}
CRATES = ["libcnb", "libcnb-data", "libcnb-common"]
BP, PLAT, LAYERS, PLAN, BPLAN = "/bp", "/platform", "/L", "/out/plan.toml", "/in/buildpack-plan.toml"
TARGET_VARS = ["CNB_TARGET_OS", "CNB_TARGET_ARCH", "CNB_TARGET_ARCH_VARIANT", "CNB_TARGET_DISTRO_NAME", "CNB_TARGET_DISTRO_VERSION"]
MANDATORY = ["CNB_BUILDPACK_DIR", "CNB_TARGET_OS", "CNB_TARGET_ARCH", "CNB_TARGET_DISTRO_NAME", "CNB_TARGET_DISTRO_VERSION"]
SBOM_EXT = {"CycloneDxJson": "cdx", "SpdxJson": "spdx", "SyftJson": "syft"}
SUPPORTED = z3.Concat(z3.Plus(z3.Re("0")), z3.Re("."), z3.Star(z3.Re("0")), z3.Re("10"))      # every spelling that denotes 0.10
API_FORMS = ["major.minor", "major", "", "abc", "0.10.1", "+0.10", "0.+10", "1.", ".10", "0,10", " 0.10", "00.010", "0.10 "]
EXES = ["detect", "build", "/cnb/buildpacks/x/bin/detect", "bin/build", "launcher", "",
        # near misses of the two names (round 3): same stem with an extension, a longer name ending in the phase name, the name as a directory component
        "bin/detect.exe", "build.bak", "xdetect", "build/launcher"]


def prepare(run):
    run.program(CRATES)


class DescHook:
    """the full ComponentBuildpackDescriptor<Metadata> (second read of buildpack.toml): accepted or rejected as a whole
    (its strictness is C08's subject, its content C06's)"""
    def deserialize(self, ctx, ty, tv):
        if ctx.branch(ctx.desc_ok, "descriptor-deserialises"):
            return Ok(Opaque("descriptor", "bp"))
        return Err(SerdeErr("custom", "descriptor rejected"))

    def missing(self, ctx, md):
        return Err(SerdeErr("missing_field", md.field))


def main(run):
    quick = run.tier == "quick"
    run.bounds = {"argv": f"argv[0] in {EXES}, 0..4 further arguments (so every wrong count next to the right one)",
                  "buildpack.toml": f"missing | syntactically invalid | `api` key missing | `api` = `<major>.<minor>` or `<major>` with both numbers solver variables over u64, or one of {API_FORMS[2:]} | rest of the descriptor accepted or rejected",
                  "environment": "presence of CNB_BUILDPACK_DIR and of each CNB_TARGET_* variable is a solver variable",
                  "buildpack": "detect: fail | pass | pass+plan | error; build: launch none|some x store none|empty|non-empty x build SBOMs {} | {cdx} | {cdx, spdx} x launch SBOMs {} | {syft}, or error",
                  "pre-existing outputs": "build plan, launch.toml, store.toml and every SBOM file independently absent or present with old content; buildpack plan valid/invalid; platform env dir present/absent"}
    run.assumptions = ["no I/O faults while writing (C12's subject)", "toml text layer abstracted to trees (C07/C08)", "Buildpack::Platform = GenericPlatform, Metadata accepted/rejected as a whole"]
    run.outside = ["the `trace` feature", "panics inside detect/build/on_error", "exec.d and launcher processes"]
    P = run.program(CRATES)
    summ_core.install(P)
    summ_coll.install(P)
    summ_fs.install(P)
    summ_serde.install(P)
    C09.install_regex(P, [])
    for (st, prm), d in getattr(P, "type_defaults_src", {}).items():
        P.type_defaults[(st, prm)] = P.type_aliases.get(d, d)
    P.type_hooks["ComponentBuildpackDescriptor"] = DescHook()
    f_rt = [k for k, f in P.funcs.items() if f is not None and f.name == "libcnb_runtime"]
    if len(f_rt) != 1:
        raise Inconclusive("libcnb_runtime not found")
    f_rt = f_rt[0]
    names = ("libcnb_runtime_detect", "libcnb_runtime_build", "read_buildpack_dir", "read_buildpack_descriptor", "context_target")
    run.encoded(P, [f_rt] + [k for k, f in P.funcs.items() if f is not None and f.name in names])
    plat_from = P.impl_index.get(("GenericPlatform", "Platform", "from_path"))
    if not plat_from:
        raise Inconclusive("GenericPlatform::from_path not found")

    @P.summary("env::args", "args")
    def _args(ctx, c):
        return ListIt(list(ctx.argv))

    @P.summary("Platform::from_path")
    def _from_path(ctx, c):
        return P.call(ctx, plat_from, list(c.args), tyenv={})

    @P.summary("Buildpack::detect")
    def _detect(ctx, c):
        ctx.calls.append("detect")
        b = ctx.behaviour
        if b == "error":
            return Err(Adt("Error", "BuildpackError", [Opaque("UserError", "detect")]))
        if b == "fail":
            return Ok(Adt("DetectResult", None, [Adt("InnerDetectResult", "Fail", [])]))
        plan = NONE
        if b == "pass+plan":
            plan = Some(P.mk_struct("BuildPlan", provides=VecV([P.mk_struct("Provide", name="thing")]), requires=VecV([]), **{"or": VecV([])}))
        return Ok(Adt("DetectResult", None, [Adt("InnerDetectResult", "Pass", [plan])]))

    @P.summary("Buildpack::build")
    def _build(ctx, c):
        ctx.calls.append("build")
        b = ctx.behaviour
        if b == "error":
            return Err(Adt("Error", "BuildpackError", [Opaque("UserError", "build")]))
        launch, store, bs, ls = b
        lv = Some(P.mk_struct("Launch", labels=VecV([]), processes=VecV([]), slices=VecV([]))) if launch else NONE
        if store == "none":
            sv = NONE
        else:
            ents = [] if store == "empty" else [["k", True, TVal("store.k", kind="str", scalar="v")]]
            sv = Some(P.mk_struct("Store", metadata=Opaque("toml", TVal("store.metadata", kind="table", entries=ents, ident=z3.IntVal(7)))))
        mk = lambda fmt, tag: P.mk_struct("Sbom", format=Adt("SbomFormat", fmt, []), data=VecV([tag]))
        bsv = VecV([mk(f, "b-" + f) for f in bs])
        lsv = VecV([mk(f, "l-" + f) for f in ls])
        fields = P.struct_fields_of("InnerBuildResult::Pass") if hasattr(P, "struct_fields_of") else None
        return Ok(Adt("BuildResult", None, [Adt("InnerBuildResult", "Pass", order_pass(P, lv, sv, bsv, lsv))]))

    @P.summary("Buildpack::on_error")
    def _on_error(ctx, c):
        ctx.calls.append("on_error")
        ctx.err = repr(deref(c.args[1]))[:300]
        return UNIT

    DETECT_B = ["fail", "pass", "pass+plan", "error"]
    BUILD_B = ["error"] + [(l, s, bs, ls) for l in (False, True) for s in ("none", "empty", "nonempty")
                           for bs in ((), ("CycloneDxJson",), ("CycloneDxJson", "SpdxJson")) for ls in ((), ("SyftJson",))]
    if quick:
        BUILD_B = ["error", (False, "none", (), ()), (True, "empty", ("CycloneDxJson",), ()), (True, "nonempty", ("CycloneDxJson", "SpdxJson"), ("SyftJson",)),
                   (False, "nonempty", (), ("SyftJson",)), (False, "empty", ("CycloneDxJson",), ())]

    def old(ctx, w, path, tag):
        k = z3.Int("old_" + tag)
        ctx.assume(z3.Or(k == ABSENT, k == FILE))
        w.add(path, k, content="OLD:" + tag)
        ctx.olds[path] = k

    def entry(ctx):
        w = ctx.world
        ctx.calls, ctx.olds = [], {}
        exe = EXES[ctx.choose([True] * len(EXES), "argv0")]
        base = exe.rsplit("/", 1)[-1]          # the statement: the phase is chosen by the executable's file name, exactly `detect` or `build`
        phase = base if base in ("detect", "build") else None
        right = {"detect": 2, "build": 3}.get(phase)
        counts = [0, 1, 2, 3, 4] if phase else [2, 3]
        nargs = counts[ctx.choose([True] * len(counts), "argc")]
        ctx.phase, ctx.nargs, ctx.exe = phase, nargs, exe
        if phase == "detect":
            ctx.argv = [exe] + [PLAT, PLAN, "x", "y"][:nargs]
            ctx.behaviour = DETECT_B[ctx.choose([True] * len(DETECT_B), "detect-behaviour")] if nargs == right else "pass"
        elif phase == "build":
            ctx.argv = [exe] + [LAYERS, PLAT, BPLAN, "y"][:nargs]
            ctx.behaviour = BUILD_B[ctx.choose([True] * len(BUILD_B), "build-behaviour")] if nargs == right else "error"
        else:
            ctx.argv = ([exe] if exe else []) + [LAYERS, PLAT, BPLAN][:nargs]
            ctx.behaviour = "pass"
        # environment
        ctx.env_present = {}
        for v in ["CNB_BUILDPACK_DIR"] + TARGET_VARS:
            p = z3.Bool("has_" + v)
            ctx.env_present[v] = p
            w.env[v] = (p, BP if v == "CNB_BUILDPACK_DIR" else "val-" + v)
        w.cwd = "/app"
        # buildpack.toml
        form = API_FORMS[ctx.choose([True] * len(API_FORMS), "api-form")]
        ctx.api_form = form
        ctx.major, ctx.minor = z3.Int("api_major"), z3.Int("api_minor")
        ctx.assume(z3.And(ctx.major >= 0, ctx.major < 2 ** 64, ctx.minor >= 0, ctx.minor < 2 ** 64))
        if form == "major.minor":
            ctx.api = summ_core.concat([summ_core.display(ctx, ctx.major), ".", summ_core.display(ctx, ctx.minor)])
            ctx.api_supported = z3.And(ctx.major == 0, ctx.minor == 10)
        elif form == "major":
            ctx.api = summ_core.display(ctx, ctx.major)
            ctx.api_supported = z3.BoolVal(False)            # `N` means N.0
        else:
            ctx.api = form
            ctx.api_supported = z3.BoolVal(bool(re.fullmatch(r"0+\.0*10", form)))
        ctx.has_api, ctx.syntax_ok, ctx.desc_ok = z3.Bool("has_api_key"), z3.Bool("toml_syntax_ok"), z3.Bool("descriptor_ok")
        kd = z3.Int("descriptor_file")
        ctx.assume(z3.Or(kd == ABSENT, kd == FILE))
        ctx.desc_kind = kd
        w.add(BP, DIR)
        tree = TVal("bp", kind="table", entries=[["api", ctx.has_api, TVal("bp.api", kind="str", scalar=ctx.api)],
                                                ["buildpack", True, TVal("bp.buildpack", kind="table", entries=[])]])
        w.add(BP + "/buildpack.toml", kd, content=TomlText(ctx.syntax_ok, tree))
        # platform
        w.add(PLAT, DIR)
        if ctx.choose([True, True], "platform-env-dir") == 1:
            w.add(PLAT + "/env", DIR)
            w.add(PLAT + "/env/FOO", FILE, content="bar")
        w.add("/out", DIR)
        w.add("/in", DIR)
        w.add(LAYERS, DIR)
        old(ctx, w, PLAN, "plan")
        if phase == "build":
            ctx.bplan_ok = z3.Bool("buildpack_plan_ok")
            w.add(BPLAN, FILE, content=TomlText(ctx.bplan_ok, TVal("plan", kind="table", entries=[["entries", True, TVal("plan.entries", kind="array", elems=[])]])))
            ctx.store_ok = z3.Bool("old_store_ok")
            ks = z3.Int("old_store")
            ctx.assume(z3.Or(ks == ABSENT, ks == FILE))
            ctx.olds[LAYERS + "/store.toml"] = ks
            w.add(LAYERS + "/store.toml", ks, content=TomlText(ctx.store_ok, TVal("oldstore", kind="table", entries=[["metadata", True, TVal("oldstore.metadata", kind="table", entries=[], ident=z3.IntVal(3))]])))
            old(ctx, w, LAYERS + "/launch.toml", "launch")
            for ph in ("build", "launch"):
                for ext in SBOM_EXT.values():
                    old(ctx, w, f"{LAYERS}/{ph}.sbom.{ext}.json", f"{ph}_{ext}")
        try:
            P.call(ctx, f_rt, [Ref(Box(Adt("TestBuildpack", None, [])))], tyenv={"B": "TestBuildpack"})
        except Exit as e:
            return e.code
        return "returned"

    res = run.explore(P, entry, lambda ctx: [], world_factory=lambda ctx: World(ctx), max_paths=3000000, max_depth=80)
    run.log(f"{len(res)} paths")
    pending, classes = [], {}
    n = 0
    for ctx, (kind, code) in res:
        if kind != "return":
            run.inconclusive.append(f"path ends with {kind}: {str(code)[:200]}")
            continue
        n += 1
        viol = oracle(ctx, code)
        cls = f"{ctx.phase}:{code}"
        classes[cls] = classes.get(cls, 0) + 1
        want = [ctx.major, ctx.minor, ctx.has_api, ctx.syntax_ok, ctx.desc_ok, ctx.desc_kind] + list(ctx.env_present.values()) + list(ctx.olds.values())
        if ctx.phase == "build":
            want += [ctx.bplan_ok, ctx.store_ok]
        run.obligation(len(viol) + 1)
        found = None
        for sig, what, cond in viol:
            ans, m = run.check(ctx.pc + ([] if cond is True else [cond]), "oracle:" + sig, want=want, timeout_ms=30000)
            if ans == "sat":
                found = (sig, what, m)
                break
        if found is None and n % (9 if quick else 4) == 0:
            ans, m = run.check(ctx.pc, "witness", want=want, timeout_ms=30000)
            if ans == "sat":
                found = (None, None, m)
        if found:
            pending.append((ctx, code, found))
    run.extra["classes"] = classes
    cands = [p for p in pending if p[2][0]]
    wit = [p for p in pending if not p[2][0]]
    seen, keep = {}, []
    for p in cands:
        if seen.setdefault(p[2][0], 0) < 4:
            seen[p[2][0]] += 1
            keep.append(p)
    pending = keep + wit[:120 if quick else 500]
    reqs = [request(ctx, m) for ctx, code, (sig, what, m) in pending]
    reals = run.replay.run(reqs, timeout=900)
    for (ctx, code, (sig, what, m)), req, real in zip(pending, reqs, reals):
        if "error" in real or "panic" in real:
            run.mismatch(f"replay driver failed: {real} on {req}")
            continue
        pred = predicted(ctx, code)
        got = {"exit": real["exit"], "calls": real["calls"], "files": real["files"]}
        if got != pred:
            run.mismatch(f"model error {getattr(ctx, 'err', None)}; predicted {pred['exit']} {pred['calls']} real {got['exit']} {got['calls']} files {[(p_, pred['files'][p_], got['files'].get(p_)) for p_ in pred['files'] if pred['files'][p_] != got['files'].get(p_)]} for {req}")
            continue
        run.stats["validated"] += 1
        if sig is None:
            run.sample({"request": req, "exit": real["exit"], "calls": real["calls"]}, limit=8)
        else:
            run.candidate(sig, f"{what}; {req} -> exit {real['exit']} calls {real['calls']} files {real['files']}", req, True)


def order_pass(P, launch, store, build_sboms, launch_sboms):
    """field order of InnerBuildResult::Pass { .. } as declared in the source"""
    src = open("/repo/libcnb/src/build.rs").read()
    m = re.search(r"enum InnerBuildResult\s*\{\s*Pass\s*\{(.*?)\}", src, re.S)
    names = re.findall(r"(\w+)\s*:", m.group(1))
    vals = dict(launch=launch, store=store, build_sboms=build_sboms, launch_sboms=launch_sboms)
    if sorted(names) != sorted(vals):
        raise Inconclusive(f"InnerBuildResult::Pass fields changed: {names}")
    return [vals[n_] for n_ in names]


def file_state(ctx, path):
    n = ctx.world.fs.get(path)
    return n


def oracle(ctx, code):
    """-> [(signature, description, condition)]: the path violates the statement when `condition` (True | z3 term) is satisfiable with its pc"""
    out = []
    w, calls, phase = ctx.world, ctx.calls, ctx.phase
    reached = [c for c in calls if c in ("detect", "build")]
    right_argc = {"detect": 2, "build": 3}.get(phase)
    # never exits 0 / reaches buildpack code with an unsupported API, wrong name, wrong argc, missing mandatory env
    gate_bad = z3.Or(ctx.desc_kind == ABSENT, z3.Not(ctx.syntax_ok), z3.Not(ctx.has_api), z3.Not(ctx.api_supported),
                     z3.Or([z3.Not(ctx.env_present[v]) for v in MANDATORY]))
    if reached or code == 0:
        if phase is None or ctx.nargs != right_argc:
            out.append(("reached-with-wrong-invocation", f"exit {code}, calls {calls} for argv {ctx.argv}", True))
        out.append(("reached-despite-bad-api-or-env", f"exit {code}, calls {calls}: buildpack code reached / success although the API gate or mandatory environment should stop it", gate_bad))
    if code == "returned":
        out.append(("runtime-returned", "libcnb_runtime returned instead of exiting", True))
        return out
    if reached and phase is None:
        return out          # buildpack code ran under a name that selects no phase: reported above; there is no expected output set to compare
    if len([c for c in calls if c == "on_error"]) > 1 or len(reached) > 1:
        out.append(("called-twice", f"calls {calls}", True))
    # supported api spelled canonically + everything present => the gate lets the phase run
    if phase and ctx.nargs == right_argc and not reached:
        all_ok = z3.And(ctx.desc_kind == FILE, ctx.syntax_ok, ctx.has_api, ctx.api_supported, ctx.desc_ok,
                        z3.And([ctx.env_present[v] for v in MANDATORY]))
        if phase == "build":
            all_ok = z3.And(all_ok, ctx.bplan_ok, z3.Or(ctx.olds[LAYERS + "/store.toml"] == ABSENT, ctx.store_ok))
        out.append(("phase-not-run-with-valid-inputs", f"exit {code}, calls {calls}: {phase} was never called although every input is valid", all_ok))
    untouched = lambda p: w.fs[p].content == "OLD:" + tag_of(p) and kind_same(ctx, p)
    if reached:
        b = ctx.behaviour
        if b == "error":
            if calls.count("on_error") != 1 or code in (0, 100):
                out.append(("error-not-reported", f"buildpack error: exit {code}, calls {calls}", True))
        elif phase == "detect":
            exp_code = 100 if b == "fail" else 0
            if code != exp_code or "on_error" in calls:
                out.append(("detect-exit-code", f"detect {b}: exit {code}, calls {calls}", True))
            n_ = w.fs[PLAN]
            if b == "pass+plan":
                if concrete_kind(n_) != FILE or not isinstance(n_.content, TomlText):
                    out.append(("plan-not-written", f"detect passed with a plan but {PLAN} holds {n_.content!r}", True))
            elif not untouched(PLAN):
                out.append(("plan-written-without-plan", f"detect {b}: {PLAN} was written/changed ({n_.content!r})", True))
        else:
            launch, store, bs, ls = b
            if code != 0 or "on_error" in calls:
                out.append(("build-exit-code", f"build ok: exit {code}, calls {calls}", True))
            exp = {LAYERS + "/launch.toml": launch, LAYERS + "/store.toml": store != "none"}
            for ph, fmts in (("build", bs), ("launch", ls)):
                for fmt, ext in SBOM_EXT.items():
                    exp[f"{LAYERS}/{ph}.sbom.{ext}.json"] = fmt in fmts
            for p, should in exp.items():
                n_ = w.fs[p]
                if should:
                    fresh = concrete_kind(n_) == FILE and not (isinstance(n_.content, str) and n_.content.startswith("OLD:")) and not (p.endswith("store.toml") and getattr(n_.content, "tree", None) is not None and n_.content.tree.name == "oldstore")
                    if not fresh:
                        out.append(("output-not-written", f"build result provides {p} but it holds {n_.content!r}", True))
                elif p.endswith("store.toml"):
                    if not (isinstance(n_.content, TomlText) and n_.content.tree.name == "oldstore" and kind_same(ctx, p)):
                        out.append(("output-written-without-part", f"no store in the build result but {p} changed: {n_.content!r}", True))
                elif not untouched(p):
                    out.append(("output-written-without-part", f"build result does not provide {p} but it was written/changed: {n_.content!r}", True))
    else:
        # nothing may be written when the phase's buildpack code never ran
        for p in ctx.olds:
            if p.endswith("store.toml"):
                ok = isinstance(w.fs[p].content, TomlText) and w.fs[p].content.tree.name == "oldstore" and kind_same(ctx, p)
            else:
                ok = untouched(p)
            if not ok:
                out.append(("output-written-without-run", f"{p} changed although {phase} never ran", True))
        if phase and ctx.nargs == right_argc and code in (0, 100):
            out.append(("success-without-run", f"exit {code} without running {phase}", True))
        if code not in (0, 100) and phase and ctx.nargs == right_argc:
            # an error after the gate (missing env, unreadable inputs) must reach the error handler exactly once; gate failures (254) need not
            if code != 254 and calls.count("on_error") != 1:
                out.append(("error-not-reported", f"exit {code} with calls {calls}", True))
    return out


def tag_of(p):
    if p == PLAN:
        return "plan"
    base = p.rsplit("/", 1)[-1]
    if base == "launch.toml":
        return "launch"
    m = re.fullmatch(r"(build|launch)\.sbom\.(\w+)\.json", base)
    return f"{m.group(1)}_{m.group(2)}" if m else base


def concrete_kind(n):
    return n.kind if isinstance(n.kind, int) else None


def kind_same(ctx, p):
    k = ctx.world.fs[p].kind
    return k is ctx.olds[p] or (not isinstance(k, int) and str(k) == str(ctx.olds[p]))


def request(ctx, m):
    olds = {p: m.int(k) == FILE for p, k in ctx.olds.items()}
    b = ctx.behaviour
    return {"op": "runtime", "argv": ctx.argv, "behaviour": b if isinstance(b, str) else {"launch": b[0], "store": b[1], "build_sboms": list(b[2]), "launch_sboms": list(b[3])},
            "env": {v: m.bool(p) for v, p in ctx.env_present.items()},
            "descriptor": {"present": m.int(ctx.desc_kind) == FILE, "syntax_ok": m.bool(ctx.syntax_ok), "has_api": m.bool(ctx.has_api), "api": api_text(ctx, m), "rest_ok": m.bool(ctx.desc_ok)},
            "platform_env": ctx.world.fs.get(PLAT + "/env") is not None and ctx.world.fs[PLAT + "/env"].kind == DIR,
            "olds": olds, "buildpack_plan_ok": m.bool(ctx.bplan_ok) if ctx.phase == "build" else True,
            "old_store_ok": m.bool(ctx.store_ok) if ctx.phase == "build" else True}


def api_text(ctx, m):
    if ctx.api_form == "major.minor":
        return f"{m.int(ctx.major)}.{m.int(ctx.minor)}"
    if ctx.api_form == "major":
        return str(m.int(ctx.major))
    return ctx.api_form


def predicted(ctx, code):
    """exit code, calls and which of the output files were (re)written"""
    w = ctx.world
    files = {}
    for p in ctx.olds:
        n = w.fs[p]
        if p.endswith("store.toml"):
            changed = not (isinstance(n.content, TomlText) and n.content.tree.name == "oldstore")
        else:
            changed = not (isinstance(n.content, str) and n.content.startswith("OLD:"))
        files[p] = "written" if changed else "untouched"
    return {"exit": code, "calls": list(ctx.calls), "files": files}


def finalize(run):
    c = run.extra.get("classes", {})
    for need in ("detect:0", "detect:100", "detect:1", "detect:254", "build:0", "build:1", "None:255"):
        if not c.get(need):
            run.inconclusive.append(f"vacuity: no path in class {need} (have {sorted(c)})")


def replay(run, scen):
    real = run.replay.run([scen["scenario"]])[0]
    print(json.dumps(real))
    return 0
