"""C01 — struct-API layer state machine.

One inductive step from an arbitrary layers directory satisfying the layer invariant: `BuildContext::cached_layer` /
`uncached_layer` (MIR, down to `handle_layer`, `create_layer`, `read_layer`, `write_layer`, `delete_layer`,
`replace_layer_*`, `remove_dir_recursively`, `read/write_toml_file`, the derived (de)serializers of
`LayerContentMetadata`/`LayerTypes`, the four `IntoAction` impls), followed by one `LayerRef` writer.  Then the simulated
lifecycle restore re-establishes the invariant, which is checked to be closed under all transitions, so the step covers
build histories of any length.
"""
import json
from mirsym import smt as z3
from mirsym.core import *
from mirsym.summ_core import Ok, Err, Some, NONE, VecV, sval, S
from mirsym.summ_fs import World, ABSENT, FILE, DIR
from mirsym.summ_serde import TVal, TomlText
from mirsym.run import Inconclusive
from harness.layers import *

GENERIC_M = "std::option::Option<toml::map::Map<std::string::String, Value>>"
FORMS = ["T", "R", "P", "RP"]       # plain action | Result<action> | (action, cause) | Result<(action, cause)>


def b2(x):
    return x if not isinstance(x, bool) else z3.BoolVal(x)


def doc_view(ctx, node):
    """(exists, syntax_ok, has_types, (l,b,c), has_meta, mid, has_unknown) of a <layer>.toml node as z3 terms"""
    ex = b2(node.kind == FILE)
    t = node.content
    if isinstance(t, str):
        if t.strip() == "":
            return ex, b2(True), b2(False), (b2(False),) * 3, b2(False), z3.IntVal(-1), b2(False)
        raise Unsupported("concrete toml content in view")
    if not isinstance(t, TomlText):
        return ex, b2(False), b2(False), (b2(False),) * 3, b2(False), z3.IntVal(-1), b2(False)
    ent = {k: (p, v) for k, p, v in t.tree.entries}
    ht, types = ent.get("types", (False, None))
    flags = [b2(False)] * 3
    if types is not None:
        te = {k: v for k, p, v in types.entries}
        flags = [b2(te[k].scalar) if k in te else b2(False) for k in ("launch", "build", "cache")]
    hm, meta = ent.get("metadata", (False, None))
    mid = meta.ident if meta is not None and meta.ident is not None else z3.IntVal(-1)
    hu = ent.get("zz", (False, None))[0]
    return ex, b2(t.valid), b2(ht), tuple(flags), b2(hm), mid if is_sym(mid) else z3.IntVal(mid), b2(hu)


def make_world(ctx, rich):
    w = World(ctx)
    w.add(L, DIR)
    ctx.n1 = LayerUniverse(ctx, w, "n1", rich=rich)
    ctx.n2 = LayerUniverse(ctx, w, "n2", rich=False)
    w.add("/src", DIR)
    w.add("/src/prog", FILE, content="prog-bytes", mode=0o755)
    ctx.log = []
    return w


def callbacks(ctx, P, inst):
    """harness-provided validation callbacks; every call is logged; answers are solver-independent `choose` points"""
    form = FORMS[ctx.choose([True] * 4, "cb-form")] if inst == "M" else "RP"
    ctx.form = form

    def wrap(action, cause, is_err):
        if form == "T":
            return action
        if form == "R":
            return Err(Opaque("BuildpackErr")) if is_err else Ok(action)
        if form == "P":
            return Adt("tuple", None, [action, cause])
        r = Err(Opaque("BuildpackErr")) if is_err else Ok(Adt("tuple", None, [action, cause]))
        r._tuple_err = True
        return r
    can_err = form in ("R", "RP")

    def invalid_cb(ctx, meta):
        m = deref(meta)
        opts = ["Delete", "Replace"] + (["Err"] if can_err else [])
        a = opts[ctx.choose([True] * len(opts), "invalid-cb")]
        ctx.log.append(("invalid", m, a))
        if a == "Delete":
            act = Adt("InvalidMetadataAction", "DeleteLayer", [])
        else:
            act = Adt("InvalidMetadataAction", "ReplaceMetadata", [MetaVal(z3.IntVal(77)) if inst == "M" else NONE])
        return wrap(act, "MAC", a == "Err")

    def restored_cb(ctx, meta, path):
        m = deref(meta)
        opts = ["Keep", "Delete"] + (["Err"] if can_err else [])
        a = opts[ctx.choose([True] * len(opts), "restored-cb")]
        ctx.log.append(("restored", m, a, sval(path)))
        act = Adt("RestoredLayerAction", "KeepLayer" if a == "Keep" else "DeleteLayer", [])
        return wrap(act, "RAC", a == "Err")
    return PyFn(invalid_cb), PyFn(restored_cb)


def request(ctx, P, fns):
    """issue one layer request chosen by the path; returns (kind, result)"""
    kind = ["uncached", "cached_generic", "cached_m"][ctx.choose([True] * 3, "request")]
    ctx.req_kind = kind
    launch, build = z3.Bool("req_launch"), z3.Bool("req_build")
    ctx.req = (launch, build, kind != "uncached")
    bc = P.mk_struct("BuildContext", layers_dir=L)
    name = Adt("LayerName", None, ["n1"])
    if kind == "uncached":
        d = P.mk_struct("UncachedLayerDefinition", build=build, launch=launch)
        ctx.mhook_none_ok = True
        return P.call(ctx, fns["uncached_layer"], [Ref(Box(bc)), name, d], tyenv={})
    inst = "M" if kind == "cached_m" else "G"
    inv, res = callbacks(ctx, P, inst)
    d = P.mk_struct("CachedLayerDefinition", build=build, launch=launch, invalid_metadata_action=Ref(Box(inv)), restored_layer_action=Ref(Box(res)))
    ctx.mhook_none_ok = inst == "G"
    tyenv = {"M": "UserM" if inst == "M" else GENERIC_M}
    return P.call(ctx, fns["cached_layer"], [Ref(Box(bc)), name, d], tyenv=tyenv)


def classify(P, r):
    """-> 'Ok:Restored:<cause>' | 'Ok:Empty:<cause kind>:<cause>' | 'Err:Buildpack' | 'Err:Layer:<variant>'"""
    r = deref(r)
    if r.variant == "Err":
        e = deref(r.fields[0])
        if e.variant == "BuildpackError":
            return "Err:Buildpack", None
        inner = deref(e.fields[0]) if e.fields else None
        return f"Err:Layer:{getattr(inner, 'variant', '?')}", None
    lr = deref(r.fields[0])
    st = deref(lr.fields[P.field_index("LayerRef", "state")])

    def cs(c):
        c = deref(c)
        return "()" if isinstance(c, Adt) and c.ty in ("()", "tuple") and not c.fields else json.dumps(c) if isinstance(c, str) else repr(c)
    if st.variant == "Restored":
        return f"Ok:Restored:{cs(st.fields[0])}", lr
    cause = deref(st.fields[0])
    if cause.variant == "NewlyCreated":
        return "Ok:Empty:NewlyCreated", lr
    return f"Ok:Empty:{cause.variant}:{cs(cause.fields[0])}", lr


def expected_cases(ctx, pre, inst_generic):
    """the decision table of the statement as (condition over the initial state, predicate on the observed run)"""
    ex_dir = b2(pre["dir_kind"] == DIR)
    ex, syn, ht, flags, hm, mid, hu = pre["doc"]
    generic_ok = z3.Or(z3.Not(ex), z3.And(syn, z3.Not(hu)))
    okM = pre["okM"]
    if inst_generic:
        m_ok = generic_ok
    else:
        m_ok = z3.And(generic_ok, ex, hm, okM)        # a struct M needs a metadata table that deserialises as M
    return ex_dir, generic_ok, m_ok


def cause_of(form, which):
    return "()" if form in ("T", "R") else json.dumps(which)


def check_request_path(run, ctx, P, out, pre):
    cls, lr = out["class"]
    kind = ctx.req_kind
    w = ctx.world
    n1, n2 = ctx.n1, ctx.n2
    ex_dir, generic_ok, m_ok = expected_cases(ctx, pre, kind != "cached_m")
    log = ctx.log
    form = getattr(ctx, "form", "RP")
    clauses = {}

    # ---- reported state == what the callbacks decided (decision table)
    def run_matches(case):
        names = [l[0] for l in log]
        if case == "new":
            return cls == "Ok:Empty:NewlyCreated" and not log
        if case == "unparsable":
            return cls.startswith("Err:Layer") and not log
        if kind == "uncached":
            # built-in callbacks always delete; M = GenericMetadata so only the restored branch can be taken
            return case == "restored" and cls == "Ok:Empty:RestoredLayerAction:()"
        if case == "restored":
            if names != ["restored"]:
                return False
            a = log[0][2]
            return cls == {"Keep": f"Ok:Restored:{cause_of(form, 'RAC')}", "Delete": f"Ok:Empty:RestoredLayerAction:{cause_of(form, 'RAC')}",
                           "Err": "Err:Buildpack"}[a]
        if case == "invalid":
            if not names or names[0] != "invalid":
                return False
            a = log[0][2]
            if a == "Delete":
                return names == ["invalid"] and cls == f"Ok:Empty:InvalidMetadataAction:{cause_of(form, 'MAC')}"
            if a == "Err":
                return names == ["invalid"] and cls == "Err:Buildpack"
            # Replace: metadata replaced by m', which deserialises as M (law) -> restored callback decides
            if kind == "cached_generic":
                return False        # unreachable: generic metadata never fails to parse as generic
            if names != ["invalid", "restored"]:
                return False
            a2 = log[1][2]
            return cls == {"Keep": f"Ok:Restored:{cause_of(form, 'RAC')}", "Delete": f"Ok:Empty:RestoredLayerAction:{cause_of(form, 'RAC')}",
                           "Err": "Err:Buildpack"}[a2]
        return False
    table = [("new", z3.Not(ex_dir)), ("restored", z3.And(ex_dir, m_ok)),
             ("invalid", z3.And(ex_dir, z3.Not(m_ok), generic_ok)), ("unparsable", z3.And(ex_dir, z3.Not(generic_ok)))]
    clauses["state-is-callback-decision"] = z3.And([z3.Implies(cond, b2(run_matches(case))) for case, cond in table])

    # ---- callbacks see the stored metadata and the layer path
    args_ok = []
    ex, syn, ht, flags, hm, mid, hu = pre["doc"]
    for i, l in enumerate(log):
        if l[0] == "restored":
            m = l[1]
            if l[3] != n1.dir:
                args_ok.append(b2(False))
            replaced = i > 0
            if kind == "cached_m":
                seen = z3.If(z3.Bool("n1_doc_lossyM"), mid + LOSSY_SHIFT, mid) if LOSSY["on"] else mid      # what M sees of the stored table
                args_ok.append(b2(isinstance(m, MetaVal)) if not isinstance(m, MetaVal) else (m.ident == (z3.IntVal(77) if replaced else seen)))
            else:
                if isinstance(m, Adt) and m.variant == "Some":
                    tv = deref(m.fields[0]).data
                    args_ok.append(z3.And(ex, hm, tv.ident == mid))
                else:
                    args_ok.append(z3.Not(z3.And(ex, hm)))
        else:
            m = l[1]
            if isinstance(m, Adt) and m.variant == "Some":
                tv = deref(m.fields[0]).data
                args_ok.append(z3.And(ex, hm, tv.ident == mid))
            else:
                args_ok.append(z3.Not(z3.And(ex, hm)))
    clauses["callback-arguments"] = z3.And(args_ok) if args_ok else b2(True)

    # ---- disk
    post_doc = doc_view(ctx, w.fs[n1.toml])
    pex, psyn, pht, pflags, phm, pmid, phu = post_doc
    if cls.startswith("Ok"):
        rl, rb, rc = ctx.req
        clauses["dir-present"] = b2(w.fs[n1.dir].kind == DIR)
        clauses["toml-declares-requested-flags"] = z3.And(pex, psyn, pht, z3.Not(phu), pflags[0] == b2(rl), pflags[1] == b2(rb), pflags[2] == b2(rc))
        inner = n1.inner + n1.sboms
        if cls.startswith("Ok:Restored"):
            same = []
            for p in inner:
                a, bnode = pre["nodes"][p], w.fs[p]
                same.append(b2(bnode.kind == a[0]))
                if a[2] is not None and bnode.content is not None and not isinstance(a[2], TomlText):
                    same.append(z3.Implies(b2(a[0] != ABSENT), S(bnode.content) == S(a[2])))
            clauses["restored-keeps-contents"] = z3.And(same)
            replaced = any(l[0] == "invalid" and l[2] == "Replace" for l in log)
            if replaced:
                clauses["restored-keeps-metadata"] = z3.And(phm, pmid == z3.IntVal(77))
            else:
                clauses["restored-keeps-metadata"] = z3.And(phm == z3.And(ex, hm), z3.Implies(phm, pmid == mid))
        else:
            leftovers = {p: b2(w.fs[p].kind == ABSENT) for p in inner}
            clauses["empty-has-no-files"] = z3.And([leftovers[p] for p in n1.inner])
            clauses["empty-has-no-sboms"] = z3.And([leftovers[p] for p in n1.sboms])
            clauses["empty-has-no-metadata"] = z3.Not(phm)
    # ---- other layers untouched (also on Err)
    same2 = []
    for p in n2.all:
        a, bnode = pre["nodes"][p], w.fs[p]
        same2.append(b2(bnode.kind == a[0]))
        same2.append(b2(bnode.content is a[2]) if not (is_sym(a[2]) or isinstance(a[2], str)) else S(bnode.content) == S(a[2]))
    clauses["other-layers-untouched"] = z3.And(same2)
    # ---- invariant closed
    inv = []
    for p in n1.inner:
        parent = p.rsplit("/", 1)[0]
        inv.append(z3.Implies(b2(w.fs[p].kind != ABSENT), b2(w.fs[parent].kind == DIR)))
    for p in n1.sboms:
        inv.append(z3.Implies(b2(w.fs[p].kind != ABSENT), b2(w.fs[n1.dir].kind == DIR)))
    clauses["invariant-closed"] = z3.And(inv)
    return clauses


SIGS = {
    "empty-has-no-sboms": "request:empty-layer-keeps-sbom-files",
}


def snapshot_pre(ctx):
    w = ctx.world
    pre = {"nodes": {p: (n.kind, n.mode, n.content) for p, n in w.fs.items()}}
    pre["dir_kind"] = w.fs[ctx.n1.dir].kind
    pre["doc"] = doc_view(ctx, w.fs[ctx.n1.toml])
    t = w.fs[ctx.n1.toml].content
    meta = [v for k, p, v in t.tree.entries if k == "metadata"][0]
    pre["okM"] = b2(meta.attrs["ok_as_M"])
    return pre


# ---------------------------------------------------------------------------------------------- witness -> scenario
def render_toml(m, ctx, prefix, generic):
    g = lambda n: m.bool(z3.Bool(f"{prefix}_{n}"))
    if not g("syntax_ok"):
        return "this is = not [valid toml\n"
    out = []
    if g("has_unknown_key"):
        out.append('zz = "x"')
    if g("has_types"):
        out.append("[types]")
        for k in ("launch", "build", "cache"):
            out.append(f"{k} = {'true' if g(k) else 'false'}")
    if g("has_meta"):
        out.append("[metadata]")
        mid = m.int(z3.Int(f"{prefix}_mid"))
        if g("okM"):
            out.append(f'v = "id{mid}"')
            if LOSSY["on"] and g("lossyM"):
                out.append("extra = 1")       # a key the buildpack's M does not name (M tolerates unknown keys)
        else:
            out.append(f'w = {abs(mid)}')
    return "\n".join(out) + "\n"


def model_terms(ctx):
    ts = [z3.Bool("req_launch"), z3.Bool("req_build")]
    for lu in (ctx.n1, ctx.n2):
        p = lu.name
        ts += [z3.Int(f"{p}_dir"), z3.Int(f"{p}_toml")] + [z3.Int(f"{p}_sbom_{f}") for f in SBOM_EXT]
        ts += [z3.Bool(f"{p}_doc_{n}") for n in ("syntax_ok", "has_types", "has_meta", "okM", "has_unknown_key", "launch", "build", "cache")]
        ts += [z3.Int(f"{p}_doc_mid"), z3.Bool(f"{p}_doc_lossyM")]
        for path in lu.inner:
            nm = path[len(L) + 1:].replace("/", "_").replace(".", "_")
            ts.append(z3.Int(f"k_{nm}"))
    return ts


def scenario_of(ctx, m):
    tree = [{"path": "L", "kind": "dir"}, {"path": "src", "kind": "dir"}, {"path": "src/prog", "kind": "file", "content": "prog-bytes", "mode": 0o755}]
    for lu in (ctx.n1, ctx.n2):
        p = lu.name
        if m.int(z3.Int(f"{p}_dir")) == DIR:
            tree.append({"path": f"L/{p}", "kind": "dir"})
        if m.int(z3.Int(f"{p}_toml")) == FILE:
            tree.append({"path": f"L/{p}.toml", "kind": "file", "content": render_toml(m, ctx, f"{p}_doc", ctx.req_kind != "cached_m")})
        for f in SBOM_EXT:
            if m.int(z3.Int(f"{p}_sbom_{f}")) == FILE:
                tree.append({"path": f"L/{p}.sbom.{f}.json", "kind": "file", "content": f"old-{f}"})
        for path in lu.inner:
            nm = path[len(L) + 1:].replace("/", "_").replace(".", "_")
            k = m.int(z3.Int(f"k_{nm}"))
            if k == DIR:
                tree.append({"path": path[1:], "kind": "dir"})
            elif k == FILE:
                tree.append({"path": path[1:], "kind": "file", "content": "old:" + nm})
    answers = [f"{getattr(ctx, 'form', 'RP')}/{l[2]}" for l in ctx.log]
    expect_meta = None
    if m.int(z3.Int("n1_toml")) == FILE and m.bool(z3.Bool("n1_doc_syntax_ok")) and m.bool(z3.Bool("n1_doc_has_meta")):
        mid = m.int(z3.Int("n1_doc_mid"))
        if m.bool(z3.Bool("n1_doc_okM")):
            expect_meta = {"v": f"id{mid}"}
            if LOSSY["on"] and m.bool(z3.Bool("n1_doc_lossyM")):
                expect_meta["extra"] = 1
        else:
            expect_meta = {"w": abs(mid)}
    return {"op": "layer-struct", "stored_metadata": expect_meta, "request": ctx.req_kind, "launch": m.bool(z3.Bool("req_launch")), "build": m.bool(z3.Bool("req_build")),
            "answers": answers, "tree": tree, "writers": getattr(ctx, "writers_scn", [])}


def predicted(ctx, out, m):
    """observable outcome the symbolic path predicts for this model"""
    w = ctx.world
    kinds = {}
    for p, n in w.fs.items():
        if p.startswith(L + "/"):
            k = n.kind if isinstance(n.kind, int) else m.int(n.kind)
            kinds[p[1:]] = {ABSENT: None, FILE: "file", DIR: "dir"}[k]
    return {"result": out["class"][0], "log": [l[0] + ":" + l[2] for l in ctx.log], "kinds": kinds,
            "writers": out.get("writers", [])}


def compare(run, ctx, pred, real, scn):
    if "panic" in real or "error" in real:
        run.mismatch(f"replay driver failed: {real} on {json.dumps(scn)[:300]}")
        return False
    if real["result"] != pred["result"]:
        run.mismatch(f"result: predicted {pred['result']} real {real['result']} scenario {json.dumps(scn)[:600]}")
        return False
    rlog = [l["cb"] for l in real["log"]]
    if rlog != [x.split(":")[0] for x in pred["log"]]:
        run.mismatch(f"callback log: predicted {pred['log']} real {rlog}")
        return False
    rk = {e["path"]: e["kind"] for e in real["tree"]}
    for p, k in pred["kinds"].items():
        if rk.get(p) != k:
            run.mismatch(f"node {p}: predicted {k} real {rk.get(p)} (result {real['result']}) scenario {json.dumps(scn)[:600]}")
            return False
    if pred["writers"] != real.get("writers", []):
        run.mismatch(f"writer results: predicted {pred['writers']} real {real.get('writers')}")
        return False
    return True


def confirm(cname, ctx, real, scn):
    """does the real run violate clause `cname`?"""
    rk = {e["path"]: e for e in real["tree"]}
    if cname == "empty-has-no-sboms":
        return any(f"L/n1.sbom.{f}.json" in rk for f in SBOM_EXT)
    if cname == "empty-has-no-files":
        return any(p.startswith("L/n1/") for p in rk)
    if cname == "toml-declares-requested-flags":
        t = (real.get("toml") or {}).get("types") or {}
        return not (t.get("launch") == scn["launch"] and t.get("build") == scn["build"] and t.get("cache") == (scn["request"] != "uncached"))
    if cname == "empty-has-no-metadata":
        return bool((real.get("toml") or {}).get("metadata"))
    if cname == "restored-keeps-metadata" and not any(a.endswith("/Replace") for a in scn["answers"]):
        return ((real.get("toml") or {}).get("metadata") or None) != (scn.get("stored_metadata") or None)
    return True    # the remaining clauses are compared through the predicted observables (kinds/result/log) above


SHARDS = {"quick": 12, "thorough": 14}
CRATES = ["libcnb", "libcnb-common", "libcnb-data"]
LOSSY = {"on": False}      # switched on by C01's own main only (C12/C20/C02 reuse the scenario code with a lossless M)


def prepare(run):
    run.program(CRATES)


def main(run):
    rich = run.tier == "thorough"
    run.bounds = {"layers": "n1 (subject), n2 (bystander)", "n1 universe": "dir, toml, 3 SBOM files, f, env/X.override, env.build/Y.append, exec.d/p",
                  "histories": "one inductive step from any state satisfying the layer invariant (covers any length)",
                  "handle_layer recursion": "<= 2 (ReplaceMetadata), checked", "callback forms": FORMS}
    run.assumptions = ["layer invariant: <layers>/n absent or a directory; n.toml / n.sbom.* absent or regular files; SBOM files only next to an existing dir",
                       "metadata law: from_str(to_string(m)) == Ok(m) for the buildpack's metadata type M; M may ignore keys of a stored table (what the "
                       "callbacks see is a projection of it), so a layer kept through M-typed code paths is distinguishable from one whose table was left alone",
                       "file-system model mirsym/summ_fs.py (no permission faults here; C11 covers modes and symlinks)",
                       "toml text layer abstracted to trees; derived serde impls executed from MIR"]
    run.outside = ["toml crate's text<->tree step", "permission bits and symlinks (C11)", "I/O faults (C12)"]
    P = run.program(CRATES)
    install_all(P)
    fns = {}
    for nm in ("cached_layer", "uncached_layer"):
        ks = [k for k, f in P.funcs.items() if f.name.endswith("::" + nm) and f.name.startswith("build::")]
        if len(ks) != 1:
            raise Inconclusive(f"BuildContext::{nm} not found uniquely in MIR")
        fns[nm] = ks[0]
    P.type_hooks["UserM"] = MHook(False, lossy=True)
    LOSSY["on"] = True

    def entry(ctx):
        ctx.pre = snapshot_pre(ctx)
        r = request(ctx, P, fns)
        out = {"class": classify(P, r)}
        return out

    res = run.explore(P, entry, lambda ctx: [], lambda ctx: make_world(ctx, rich), max_paths=200000, max_depth=60)
    run.log(f"request step: {len(res)} paths")
    pending = []
    classes = {}
    for ctx, (kind, out) in res:
        if kind != "return":
            run.inconclusive.append(f"request path ends with {kind}: {out}")
            continue
        cls = out["class"][0]
        classes[cls] = classes.get(cls, 0) + 1
        clauses = check_request_path(run, ctx, P, out, ctx.pre)
        want = model_terms(ctx)
        for cname, cl in clauses.items():
            run.obligation()
            ans, m = run.check(ctx.pc + [z3.Not(cl)], f"req.{cname}", want=want)
            if ans == "sat":
                scn = scenario_of(ctx, m)
                pending.append((ctx, out, m, scn, cname))
        ans, m = run.check(ctx.pc, "req.witness", want=want)
        if ans == "sat":
            pending.append((ctx, out, m, scenario_of(ctx, m), None))
    run.extra["outcome_classes"] = classes
    # replay
    reals = run.replay.run([p[3] for p in pending])
    for (ctx, out, m, scn, cname), real in zip(pending, reals):
        pred = predicted(ctx, out, m)
        ok = compare(run, ctx, pred, real, scn)
        if not ok:
            continue
        run.stats["validated"] += 1
        if cname is None:
            run.sample({"request": scn["request"], "answers": scn["answers"], "pre": [e["path"] for e in scn["tree"]], "result": real["result"]}, limit=8)
        else:
            sig = SIGS.get(cname, f"request:{cname}")
            run.candidate(sig, f"{scn['request']} with pre-state {[e['path'] for e in scn['tree'] if e['path'].startswith('L/n1')]} -> {real['result']}",
                          scn, confirm(cname, ctx, real, scn))
    writer_step(run, P)


# ---------------------------------------------------------------------------------------------- LayerRef writers
WRITERS = ["metadata", "sboms", "execd"]


def make_world_w(ctx):
    """arbitrary state of an *existing* layer (dir present) plus the bystander; rich universe incl. exec.d/p2"""
    w = make_world(ctx, True)
    ctx.assume(w.fs[ctx.n1.dir].kind == DIR)
    # a LayerRef only exists after a successful request of this build, whose post-condition (checked in the request step)
    # is: toml present, valid, without unknown keys, declaring types
    ctx.assume(w.fs[ctx.n1.toml].kind == FILE)
    ctx.assume(z3.And(z3.Bool("n1_doc_syntax_ok"), z3.Not(z3.Bool("n1_doc_has_unknown_key")), z3.Bool("n1_doc_has_types")))
    w.add(f"{ctx.n1.dir}/exec.d/p2", sym_kind(ctx, "k_n1_exec_d_p2", [ABSENT, FILE]), content=z3.String("c_n1_exec_d_p2"))
    ctx.assume(z3.Implies(w.fs[f"{ctx.n1.dir}/exec.d/p2"].kind != ABSENT, w.fs[f"{ctx.n1.dir}/exec.d"].kind == DIR))
    ctx.n1.inner.append(f"{ctx.n1.dir}/exec.d/p2")
    ctx.n1.all.append(f"{ctx.n1.dir}/exec.d/p2")
    return w


def writer_fns(P):
    lr_fns = {}
    for nm in ("write_metadata", "write_sboms", "write_exec_d_programs"):
        k = P.impl_index.get(("LayerRef", None, nm))
        if not k:
            raise Inconclusive(f"LayerRef::{nm} not found")
        lr_fns[nm] = k
    return lr_fns


def make_writer_entry(P, lr_fns):
    def entry(ctx):
        ctx.pre = snapshot_pre(ctx)
        which = WRITERS[ctx.choose([True] * len(WRITERS), "writer")]
        ctx.which = which
        lr = P.mk_struct("LayerRef", name=Adt("LayerName", None, ["n1"]), layers_dir=L, buildpack=UNIT,
                         state=Adt("LayerState", "Restored", ["c"]))
        lrb = Box(lr)
        if which == "metadata":
            ctx.arg = MetaVal(z3.IntVal(88))
            r = P.call(ctx, lr_fns["write_metadata"], [Ref(lrb), ctx.arg], tyenv={"M": "UserM"})
        elif which == "sboms":
            sub = [f for f in SBOM_EXT if ctx.choose([True, True], f"sbom-{f}") == 1]
            ctx.arg = sub
            fmt = {"cdx": "CycloneDxJson", "spdx": "SpdxJson", "syft": "SyftJson"}
            sboms = VecV([P.mk_struct("Sbom", format=Adt("SbomFormat", fmt[f], []), data=f"new-{f}") for f in sub])
            r = P.call(ctx, lr_fns["write_sboms"], [Ref(lrb), sboms], tyenv={})
        else:
            opt = ["none", "p2-ok", "p2-missing"][ctx.choose([True] * 3, "execd-arg")]
            ctx.arg = opt
            from mirsym import summ_coll
            progs = summ_coll.AssocV(False)
            if opt != "none":
                progs.items.append(["p2", "/src/prog" if opt == "p2-ok" else "/src/missing"])
            r = P.call(ctx, lr_fns["write_exec_d_programs"], [Ref(lrb), progs], tyenv={})
        r = deref(r)
        if r.variant == "Ok":
            return {"res": "Ok"}
        e = deref(r.fields[0])
        return {"res": "Err:" + str(getattr(deref(e.fields[0]) if e.fields else e, "variant", "?"))}
    return entry


def writer_scenario(ctx, m):
    ctx.req_kind = "cached_generic"
    ctx.log = [("restored", None, "Keep")]
    ctx.form = "RP"
    scn = scenario_of(ctx, m)
    if m.int(z3.Int("k_n1_exec_d_p2")) == FILE:
        scn["tree"].append({"path": "L/n1/exec.d/p2", "kind": "file", "content": "old:p2"})
    wspec = {"kind": ctx.which}
    if ctx.which == "metadata":
        wspec["v"] = "id88"
    elif ctx.which == "sboms":
        wspec["formats"] = ctx.arg
    else:
        wspec["programs"] = [] if ctx.arg == "none" else [{"name": "p2", "source": "src/prog" if ctx.arg == "p2-ok" else "src/missing"}]
    scn["writers"] = [wspec]
    return scn


def writer_step(run, P):
    lr_fns = writer_fns(P)
    run.encoded(P, lr_fns.values())
    entry = make_writer_entry(P, lr_fns)
    res = run.explore(P, entry, lambda ctx: [], make_world_w, max_paths=400000, max_depth=60)
    run.log(f"writer step: {len(res)} paths")
    kinds = {}
    pending = []
    for ctx, (kind, out) in res:
        if kind != "return":
            run.inconclusive.append(f"writer path ends with {kind}: {out}")
            continue
        w, n1, n2 = ctx.world, ctx.n1, ctx.n2
        pre = ctx.pre
        key = f"{ctx.which}:{out['res'].split(':')[0]}"
        kinds[key] = kinds.get(key, 0) + 1
        ex, syn, ht, flags, hm, mid, hu = pre["doc"]
        pex, psyn, pht, pflags, phm, pmid, phu = doc_view(ctx, w.fs[n1.toml])
        clauses = {}

        def same(paths):
            cs = []
            for p_ in paths:
                a, bn = pre["nodes"][p_], w.fs[p_]
                cs.append(b2(bn.kind == a[0]))
                if a[2] is not None and bn.content is not None and not isinstance(a[2], TomlText) and not isinstance(bn.content, TomlText):
                    cs.append(z3.Implies(b2(a[0] != ABSENT), S(bn.content) == S(a[2])))
            return z3.And(cs)
        toml_same = z3.And(pex == ex, psyn == syn, pht == ht, phm == hm, phu == hu, z3.Implies(pht, z3.And([x == y for x, y in zip(pflags, flags)])),
                           z3.Implies(phm, pmid == mid))
        execd = [p_ for p_ in n1.inner if "/exec.d" in p_]
        others = [p_ for p_ in n1.inner if "/exec.d" not in p_]
        if out["res"] == "Ok":
            if ctx.which == "metadata":
                clauses["metadata-written"] = z3.And(pex, psyn, phm, pmid == z3.IntVal(88), pht == ht, z3.Implies(pht, z3.And([x == y for x, y in zip(pflags, flags)])))
                clauses["metadata-leaves-rest"] = z3.And(same(n1.inner + n1.sboms))
            elif ctx.which == "sboms":
                cs = []
                for f, p_ in zip(SBOM_EXT, n1.sboms):
                    if f in ctx.arg:
                        cs.append(z3.And(b2(w.fs[p_].kind == FILE), S(w.fs[p_].content) == z3.StringVal(f"new-{f}")))
                    else:
                        cs.append(b2(w.fs[p_].kind == ABSENT))
                clauses["sboms-are-exactly-the-given-set"] = z3.And(cs)
                clauses["sboms-leave-rest"] = z3.And(same(n1.inner), toml_same)
            else:
                d, pold, pnew = f"{n1.dir}/exec.d", f"{n1.dir}/exec.d/p", f"{n1.dir}/exec.d/p2"
                if ctx.arg == "none":
                    clauses["execd-replaced"] = z3.And(b2(w.fs[d].kind == ABSENT), b2(w.fs[pold].kind == ABSENT), b2(w.fs[pnew].kind == ABSENT))
                elif ctx.arg == "p2-ok":
                    clauses["execd-replaced"] = z3.And(b2(w.fs[d].kind == DIR), b2(w.fs[pold].kind == ABSENT), b2(w.fs[pnew].kind == FILE),
                                                       S(w.fs[pnew].content) == z3.StringVal("prog-bytes"))
                else:
                    clauses["execd-replaced"] = z3.BoolVal(False)       # a missing source must be an error
                clauses["execd-leaves-rest"] = z3.And(same(others + n1.sboms), toml_same)
        elif ctx.which == "execd" and ctx.arg == "p2-ok":
            clauses["execd-valid-request-succeeds"] = z3.BoolVal(False)
        elif ctx.which == "sboms":
            clauses["sboms-valid-request-succeeds"] = z3.BoolVal(False)
        clauses["other-layers-untouched"] = same(n2.all)
        want = model_terms(ctx) + [z3.Int("k_n1_exec_d_p2")]
        violated = False
        for cname, cl in clauses.items():
            run.obligation()
            ans, m = run.check(ctx.pc + [z3.Not(cl)], f"wr.{cname}", want=want)
            if ans == "sat":
                violated = True
                pending.append((ctx, out, m, cname))
        ans, m = run.check(ctx.pc, "wr.witness", want=want)
        if ans == "sat":
            pending.append((ctx, out, m, "witness-of-violating-path" if violated else None))
    run.extra["writer_kinds"] = kinds
    if run.tier == "quick":
        cands = [p_ for p_ in pending if p_[3] not in (None, "witness-of-violating-path")]
        wit = [p_ for p_ in pending if p_[3] in (None, "witness-of-violating-path")]
        pending = cands + wit[::max(1, len(wit) // 150)]
    reqs = [writer_scenario(ctx, m) for ctx, out, m, cname in pending]
    reals = run.replay.run(reqs)
    for (ctx, out, m, cname), scn, real in zip(pending, reqs, reals):
        if "panic" in real or "error" in real:
            run.mismatch(f"replay driver failed: {real}")
            continue
        if not real["result"].startswith("Ok:Restored"):
            # the stored toml does not parse as generic metadata: no LayerRef can be obtained through the public API
            run.stats["validated"] += 0
            continue
        rw = (real.get("writers") or ["?"])[0]
        pred = out["res"].split(":")[0]
        if rw.split(":")[0] != pred:
            run.mismatch(f"writer {ctx.which}({ctx.arg}): predicted {out['res']} real {rw} scenario {json.dumps(scn)[:500]}")
            continue
        rk = {e["path"]: e for e in real["tree"]}
        bad = None
        for p_, n in ctx.world.fs.items():
            if p_.startswith(L + "/n1/") or ".sbom." in p_:
                k = n.kind if isinstance(n.kind, int) else m.int(n.kind)
                if ({ABSENT: None, FILE: "file", DIR: "dir"}[k]) != (rk.get(p_[1:]) or {}).get("kind"):
                    bad = p_
        if bad and cname in (None,):
            run.mismatch(f"writer {ctx.which}({ctx.arg}): node {bad} differs from prediction; scenario {json.dumps(scn)[:500]}")
            continue
        run.stats["validated"] += 1
        if cname not in (None, "witness-of-violating-path"):
            run.candidate(f"writer:{cname}", f"{ctx.which}({ctx.arg}) on {[e['path'] for e in scn['tree'] if e['path'].startswith('L/n1')]} -> {rw}", scn, True)
        elif cname is None:
            run.sample({"writer": ctx.which, "arg": str(ctx.arg), "result": rw}, limit=12)


def finalize(run):
    wk = run.extra.get("writer_kinds", {})
    for need in ("metadata:Ok", "sboms:Ok", "execd:Ok", "execd:Err"):
        if not wk.get(need):
            run.inconclusive.append(f"vacuity: writer outcome {need} never reached")
    # vacuity: every outcome class of the decision table must have been reached (over all shards)
    classes = run.extra.get("outcome_classes", {})
    for needed in ("Ok:Empty:NewlyCreated", "Ok:Restored", "Ok:Empty:RestoredLayerAction", "Ok:Empty:InvalidMetadataAction", "Err:Buildpack", "Err:Layer"):
        if not any(c.startswith(needed) for c in classes):
            run.inconclusive.append(f"vacuity: outcome class {needed} never reached")


def replay(run, scen):
    real = run.replay.run([scen["scenario"]])[0]
    print(json.dumps(real, indent=1)[:4000])
    return 0
