"""C18 — inventory resolution returns a maximal matching artifact; checksums are accepted exactly for <algorithm>:<hex>.

Executed from MIR: `Inventory::{resolve, partial_resolve}` (+ closures and the nested `partial_max_by_key`),
`Checksum::{from_str, serialize, deserialize, eq}`.  Versions are abstract: a total order (integer rank) for `resolve`, a
partial order (2-dimensional product order: every poset on <= 4 elements embeds) for `partial_resolve`; the requirement is an
arbitrary predicate (one Boolean per artifact).  `hex::decode/encode` are summaries (documented contract).
"""
import json
import re
from mirsym import smt as z3
from mirsym.core import *
from mirsym import summ_core, summ_coll
from mirsym.summ_core import Ok, Err, Some, NONE, VecV, sval, S, ListIt, to_iter, it_next, END, concat
from mirsym.run import Inconclusive, enc_str

BOUNDS = {"quick": dict(k=3, digest_bytes=2), "thorough": dict(k=4, digest_bytes=4)}
SHARDS = {"quick": 12, "thorough": 14}
CRATES = ["libherokubuildpack"]
OS, ARCH = ["Darwin", "Linux"], ["Amd64", "Arm64"]
HEX = None


def prepare(run):
    run.program(CRATES)


class HexBytes:
    """Vec<u8> obtained by hex::decode(text): only its length and provenance are observable here"""
    type_tag = "Vec"

    def __init__(self, text):
        self.text = text


def hexchars():
    return z3.Union(z3.Range("0", "9"), z3.Range("a", "f"), z3.Range("A", "F"))


def main(run):
    b = BOUNDS[run.tier]
    K = b["k"]
    NB = b["digest_bytes"]
    run.bounds = {"artifacts": f"0..{K} with arbitrary os/arch, arbitrary versions (total order: integer ranks incl. ties; partial order: 2-d product order), "
                               "arbitrary requirement predicate", "query": "every os x arch", "round trip": "inventories of 0..2 artifacts with version/url/metadata SMT strings (V = String, M = Option<String>), every os/arch, an arbitrary digest", "checksum strings": f"unbounded length (string/regex decision); digest scaled down to {NB} bytes ({2 * NB} hex digits) with name sha256"}
    run.assumptions = ["Ord / PartialOrd implementations handed to the code are lawful", "hex::decode accepts exactly even-length strings of hex digits; hex::encode inverts it",
                       "Iterator::max_by_key returns the last maximal element (std)"]
    run.outside = ["the toml text layer of the inventory round trip (documents are trees; witnesses go through the real Display/FromStr)", "semver/sha2 feature adapters"]
    P = run.program(CRATES)
    summ_core.install(P)
    summ_coll.install(P)
    resolve = P.impl_index.get(("Inventory", None, "resolve"))
    presolve = P.impl_index.get(("Inventory", None, "partial_resolve"))
    cs_from = P.impl_index.get(("Checksum", "FromStr", "from_str"))
    if not (resolve and presolve and cs_from):
        raise Inconclusive("inventory / checksum functions not found in MIR")
    run.encoded(P, [resolve, presolve, cs_from])

    # ---- version orders
    @P.summary("PartialOrd::partial_cmp")
    def _pcmp(ctx, c):
        a, b2 = deref(c.args[0]), deref(c.args[1])
        if isinstance(a, Adt) and a.ty == "PVer":
            (x1, y1), (x2, y2) = a.fields, b2.fields
            i = ctx.choose([z3.And(x1 == x2, y1 == y2), z3.And(x1 <= x2, y1 <= y2, z3.Or(x1 != x2, y1 != y2)),
                            z3.And(x1 >= x2, y1 >= y2, z3.Or(x1 != x2, y1 != y2)),
                            z3.Or(z3.And(x1 < x2, y1 > y2), z3.And(x1 > x2, y1 < y2))], "pver-cmp")
            return [Some(Adt("Ordering", "Equal", [])), Some(Adt("Ordering", "Less", [])), Some(Adt("Ordering", "Greater", [])), NONE][i]
        return Some(Adt("Ordering", summ_coll.key_cmp(ctx, a, b2), []))

    @P.summary("Iterator::max_by_key")
    def _max_by_key(ctx, c):
        it = to_iter(ctx, c.args[0], False)
        best, best_key = None, None
        while True:
            x = it_next(ctx, it)
            if x is END:
                break
            k = ctx.prog.call_value(ctx, c.args[1], [Ref(Box(x))])
            if best is None or summ_coll.key_cmp(ctx, k, best_key) != "Less":      # last maximal element wins
                best, best_key = x, k
        return NONE if best is None else Some(best)

    @P.summary("ArtifactRequirement::satisfies_version")
    def _sat_v(ctx, c):
        v = deref(c.args[1])
        return ctx.sat_of[id_of(v)]

    @P.summary("ArtifactRequirement::satisfies_metadata")
    def _sat_m(ctx, c):
        return ctx.msat_of[deref(c.args[1]).data]

    def id_of(v):
        return str(v.fields[0]) if isinstance(v, Adt) else str(v)

    def entry(ctx):
        mode = ["resolve", "partial_resolve", "checksum", "checksum-roundtrip", "inventory-roundtrip"][ctx.choose([True] * 5, "mode")]
        ctx.mode = mode
        if mode.startswith("checksum"):
            return checksum_entry(ctx, mode)
        if mode == "inventory-roundtrip":
            return inventory_roundtrip(ctx)
        n = ctx.choose([True] * (K + 1), "n-artifacts")
        arts, ctx.sat_of, ctx.msat_of, ctx.meta = [], {}, {}, []
        for i in range(n):
            os_ = OS[ctx.choose([True, True], f"os{i}")]
            ar_ = ARCH[ctx.choose([True, True], f"arch{i}")]
            if mode == "resolve":
                ver = z3.Int(f"rank{i}")
            else:
                ver = Adt("PVer", None, [z3.Int(f"x{i}"), z3.Int(f"y{i}")])
            ctx.sat_of[id_of(ver)] = z3.Bool(f"sat{i}")
            ctx.msat_of[i] = z3.Bool(f"msat{i}")
            arts.append(P.mk_struct("Artifact", version=ver, os=Adt("Os", os_, []), arch=Adt("Arch", ar_, []), url="u", checksum=Opaque("cs", i), metadata=Opaque("meta", i)))
            ctx.meta.append((os_, ar_, ver, i))
        inv = P.mk_struct("Inventory", artifacts=VecV(arts))
        qo, qa = OS[ctx.choose([True, True], "q-os")], ARCH[ctx.choose([True, True], "q-arch")]
        ctx.query = (qo, qa)
        r = deref(P.call(ctx, resolve if mode == "resolve" else presolve, [Ref(Box(inv)), Adt("Os", qo, []), Adt("Arch", qa, []), Ref(Box(Opaque("requirement")))], tyenv={}))
        if r.variant == "None":
            return {"res": None}
        a = deref(r.fields[0])
        return {"res": deref(a.fields[P.field_index("Artifact", "metadata")]).data}

    # ---- checksums
    @P.summary("hex::decode", "decode")
    def _hex_decode(ctx, c):
        s = sval(c.args[0])
        for h, bts in getattr(ctx, "encoded", []):
            if (isinstance(s, str) and s == h) or (is_sym(s) and s.eq(S(h))) or ctx.entails(S(s) == S(h)):
                return Ok(bts)          # decode(encode(b)) == b
        ok = z3.InRe(S(s), z3.Star(z3.Concat(hexchars(), hexchars())))
        if ctx.branch(ok, "hex-ok"):
            hb = HexBytes(s)
            hb.n = ctx.fresh("nbytes", z3.IntSort())
            ctx.assume(z3.And(z3.Length(S(s)) == 2 * hb.n, hb.n >= 0))     # two hex digits per byte
            return Ok(hb)
        return Err(Opaque("FromHexError"))

    @P.summary("hex::encode", "encode")
    def _hex_encode(ctx, c):
        bts = deref(c.args[0])
        h = ctx.fresh("hex", z3.StringSort())
        lower = z3.Union(z3.Range("0", "9"), z3.Range("a", "f"))
        ctx.assume(z3.And(z3.InRe(h, z3.Star(z3.Concat(lower, lower))), z3.Length(h) == 2 * bts.nbytes))
        ctx.encoded = getattr(ctx, "encoded", []) + [(h, bts)]
        return h

    @P.summary("Vec::len")
    def _vlen(ctx, c):
        v = deref(c.args[0])
        if isinstance(v, HexBytes):
            return v.n
        if hasattr(v, "nbytes"):
            return v.nbytes
        return len(v.items)

    @P.summary("Digest::name_compatible")
    def _name_ok(ctx, c):
        return S(sval(c.args[0])) == z3.StringVal("sha256")

    @P.summary("Digest::length_compatible")
    def _len_ok(ctx, c):
        n = deref(c.args[0])
        return n == NB

    class Bytes:
        type_tag = "Vec"

        def __init__(self, ident, nbytes):
            self.ident, self.nbytes = ident, nbytes

    def checksum_entry(ctx, mode):
        if mode == "checksum":
            s = z3.String("cs")
            ctx.cs = s
            r = deref(P.call(ctx, cs_from, [s], tyenv={}))
            if r.variant == "Ok":
                v = deref(r.fields[0])
                return {"ok": True, "name": sval(v.fields[P.field_index("Checksum", "name")]), "value": deref(v.fields[P.field_index("Checksum", "value")])}
            return {"ok": False, "err": deref(r.fields[0]).variant}
        # serialize then parse: any checksum value with a compatible digest
        bts = Bytes(z3.Int("bytes_id"), NB)
        name = "sha256"
        cs = P.mk_struct("Checksum", name=name, value=bts, digest=UNIT)
        ser = P.impl_index.get(("Checksum", "Serialize", "serialize"))
        if not ser:
            raise Inconclusive("Checksum::serialize not found")
        from mirsym import summ_serde
        sobj = summ_serde.Ser()
        rr = deref(P.call(ctx, ser, [Ref(Box(cs)), sobj], tyenv={}))
        text = sobj.out.scalar if sobj.out is not None else None
        ctx.cs = text
        r = deref(P.call(ctx, cs_from, [text], tyenv={}))
        if r.variant != "Ok":
            return {"ok": False, "err": deref(r.fields[0]).variant, "roundtrip": True}
        v = deref(r.fields[0])
        return {"ok": True, "roundtrip": True, "same": deref(v.fields[P.field_index("Checksum", "value")]) is bts, "name": sval(v.fields[P.field_index("Checksum", "name")])}

    def inventory_roundtrip(ctx):
        """derived Serialize of Inventory/Artifact/Os/Arch (+ Checksum's own) into a document, derived Deserialize back"""
        n = ctx.choose([True] * 3, "n-artifacts")
        arts, ctx.rt = [], []
        for i in range(n):
            os_ = OS[ctx.choose([True, True], f"os{i}")]
            ar_ = ARCH[ctx.choose([True, True], f"arch{i}")]
            ver, url = z3.String(f"ver{i}"), z3.String(f"url{i}")
            has_meta = ctx.choose([True, True], f"meta{i}") == 1
            meta = z3.String(f"meta{i}")
            bts = Bytes(z3.Int(f"bytes_id{i}"), NB)
            cs = P.mk_struct("Checksum", name="sha256", value=bts, digest=UNIT)
            arts.append(P.mk_struct("Artifact", version=ver, os=Adt("Os", os_, []), arch=Adt("Arch", ar_, []), url=url, checksum=cs, metadata=Some(meta) if has_meta else NONE))
            ctx.rt.append(dict(os=os_, arch=ar_, ver=ver, url=url, meta=meta if has_meta else None, bytes=bts))
        inv = P.mk_struct("Inventory", artifacts=VecV(arts))
        try:
            tree = P.ser_value(ctx, Ref(Box(inv)))
        except P.SerFail as e:
            return {"ser": "Err"}
        back = deref(P.deser_type(ctx, "Inventory<String, Sha, Option<String>>", tree))
        return {"ser": "Ok", "tree": tree, "back": back}

    from mirsym import summ_serde
    summ_serde.install(P)
    res = run.explore(P, entry, lambda ctx: [], max_paths=3000000, max_depth=50)
    run.log(f"{len(res)} paths")
    pending = []
    modes = {}
    spec_cs = z3.Concat(z3.Re("sha256:"), z3.Loop(hexchars(), 2 * NB, 2 * NB))
    for ctx, (kind, out) in res:
        if kind != "return":
            run.inconclusive.append(f"path ends with {kind}: {str(out)[:200]}")
            continue
        modes[ctx.mode] = modes.get(ctx.mode, 0) + 1
        run.obligation()
        if ctx.mode == "checksum":
            want = [ctx.cs]
            in_spec = z3.InRe(ctx.cs, spec_cs)
            cl = in_spec if out["ok"] else z3.Not(in_spec)
            ans, m = run.check(ctx.pc + [z3.Not(cl)], "checksum.accept-iff-spec", want=want)
            if ans == "sat":
                pending.append((ctx, m, out, "checksum:" + ("accepts-invalid" if out["ok"] else "rejects-valid")))
                continue
            if out["ok"]:
                # the parsed value is the text's name and the decoded digest
                v = out["value"]
                cl2 = z3.And(S(out["name"]) == z3.StringVal("sha256"), ctx.cs == z3.Concat(z3.StringVal("sha256:"), S(v.text))) if isinstance(v, HexBytes) else z3.BoolVal(False)
                ans, m = run.check(ctx.pc + [z3.Not(cl2)], "checksum.value-is-text", want=want)
                if ans == "sat":
                    pending.append((ctx, m, out, "checksum:parsed-value-differs"))
                    continue
            ans, m = run.check(ctx.pc, "witness", want=want)
            if ans == "sat":
                pending.append((ctx, m, out, None))
            continue
        if ctx.mode == "inventory-roundtrip":
            want = [x for a in ctx.rt for x in (a["ver"], a["url"]) + ((a["meta"],) if a["meta"] is not None else ())]
            cs_ = []
            if out.get("ser") != "Ok" or out["back"].variant != "Ok":
                cl = z3.BoolVal(False)
            else:
                items = [deref(x) for x in deref(deref(out["back"].fields[0]).fields[P.field_index("Inventory", "artifacts")]).items]
                if len(items) != len(ctx.rt):
                    cl = z3.BoolVal(False)
                else:
                    f_ = lambda a, name: deref(a.fields[P.field_index("Artifact", name)])
                    for a, e in zip(items, ctx.rt):
                        cs_ += [S(sval(f_(a, "version"))) == e["ver"], S(sval(f_(a, "url"))) == e["url"], z3.BoolVal(f_(a, "os").variant == e["os"] and f_(a, "arch").variant == e["arch"])]
                        md = f_(a, "metadata")
                        cs_.append(z3.BoolVal(md.variant == "None") if e["meta"] is None else (S(sval(md.fields[0])) == e["meta"] if md.variant == "Some" else z3.BoolVal(False)))
                        ck = f_(a, "checksum")
                        cs_.append(z3.BoolVal(deref(ck.fields[P.field_index("Checksum", "value")]) is e["bytes"] and sval(ck.fields[P.field_index("Checksum", "name")]) == "sha256"))
                    cl = z3.And(cs_) if cs_ else z3.BoolVal(True)
            ans, m = run.check(ctx.pc + [z3.Not(cl)], "inventory.parse-of-render", want=want)
            if ans == "sat":
                pending.append((ctx, m, out, "inventory:render-not-reparsed-equal"))
            elif modes[ctx.mode] % (3 if run.tier == "quick" else 1) == 0:
                ans, m = run.check(ctx.pc, "witness", want=want)
                if ans == "sat":
                    pending.append((ctx, m, out, None))
            continue
        if ctx.mode == "checksum-roundtrip":
            ok = out["ok"] and out.get("same") and out.get("name") == "sha256"
            ans, m = run.check(ctx.pc + [z3.BoolVal(not ok)], "checksum.parse-of-render", want=[])
            if ans == "sat":
                pending.append((ctx, m, out, "checksum:render-not-reparsed"))
            continue
        # resolution
        qo, qa = ctx.query
        match = []
        for os_, ar_, ver, i in ctx.meta:
            match.append(z3.And(z3.BoolVal(os_ == qo and ar_ == qa), z3.Bool(f"sat{i}"), z3.Bool(f"msat{i}")))

        def greater(i, j):      # version i strictly greater than version j
            if ctx.mode == "resolve":
                return z3.Int(f"rank{i}") > z3.Int(f"rank{j}")
            return z3.And(z3.Int(f"x{i}") >= z3.Int(f"x{j}"), z3.Int(f"y{i}") >= z3.Int(f"y{j}"), z3.Or(z3.Int(f"x{i}") != z3.Int(f"x{j}"), z3.Int(f"y{i}") != z3.Int(f"y{j}")))
        n = len(ctx.meta)
        if out["res"] is None:
            cl = z3.Not(z3.Or(match)) if match else z3.BoolVal(True)
        else:
            r_ = out["res"]
            cl = z3.And(match[r_], *[z3.Not(z3.And(match[j], greater(j, r_))) for j in range(n) if j != r_])
        want = [z3.Bool(f"sat{i}") for i in range(n)] + [z3.Bool(f"msat{i}") for i in range(n)] + \
               ([z3.Int(f"rank{i}") for i in range(n)] if ctx.mode == "resolve" else [t for i in range(n) for t in (z3.Int(f"x{i}"), z3.Int(f"y{i}"))])
        ans, m = run.check(ctx.pc + [z3.Not(cl)], f"{ctx.mode}.maximal-matching", want=want)
        if ans == "sat":
            pending.append((ctx, m, out, f"{ctx.mode}:not-a-maximal-match"))
        elif modes[ctx.mode] % (7 if run.tier == "quick" else 1) == 0:
            ans, m = run.check(ctx.pc, "witness", want=want)
            if ans == "sat":
                pending.append((ctx, m, out, None))
    run.extra["modes"] = modes
    if run.tier == "quick":
        cands = [p for p in pending if p[3] is not None]
        wit = [p for p in pending if p[3] is None]
        pending = cands[:50] + wit[::max(1, len(wit) // 100)]
    reqs = []
    for ctx, m, out, sig in pending:
        if ctx.mode == "checksum":
            reqs.append({"op": "checksum", "s": enc_str(m.str(ctx.cs)), "nbytes": NB})
        elif ctx.mode == "checksum-roundtrip":
            reqs.append({"op": "checksum-roundtrip"})
        elif ctx.mode == "inventory-roundtrip":
            reqs.append({"op": "inventory-roundtrip", "artifacts": [{"os": a["os"].lower(), "arch": a["arch"].lower(), "version": enc_str(m.str(a["ver"])), "url": enc_str(m.str(a["url"])),
                                                                   "metadata": None if a["meta"] is None else enc_str(m.str(a["meta"])), "seed": i} for i, a in enumerate(ctx.rt)]})
        else:
            arts = []
            for os_, ar_, ver, i in ctx.meta:
                v = [m.int(z3.Int(f"rank{i}")), 0] if ctx.mode == "resolve" else [m.int(z3.Int(f"x{i}")), m.int(z3.Int(f"y{i}"))]
                arts.append({"os": os_.lower(), "arch": ar_.lower(), "v": v, "sat": m.bool(z3.Bool(f"sat{i}")) and m.bool(z3.Bool(f"msat{i}"))})
            reqs.append({"op": "inventory", "mode": ctx.mode, "artifacts": arts, "os": ctx.query[0].lower(), "arch": ctx.query[1].lower()})
    reals = run.replay.run(reqs)
    for (ctx, m, out, sig), req, real in zip(pending, reqs, reals):
        if "panic" in real or "error" in real:
            run.mismatch(f"replay driver failed: {real} on {req}")
            continue
        if ctx.mode == "checksum":
            s_ = m.str(ctx.cs)
            spec = bool(re.fullmatch(r"sha256:[0-9a-fA-F]{%d}" % (2 * NB), s_))
            if bool(real["ok"]) != bool(out["ok"]):
                run.mismatch(f"checksum {s_!r}: predicted {out['ok']} real {real}")
                continue
            run.stats["validated"] += 1
            if sig:
                run.candidate(sig, f"Checksum::from_str({s_!r}) -> {'accepted' if real['ok'] else 'rejected'}", req, bool(real["ok"]) != spec or sig.endswith("differs"))
            else:
                run.sample({"checksum": s_, "accepted": real["ok"]}, limit=6)
        elif ctx.mode == "checksum-roundtrip":
            run.stats["validated"] += 1
            if sig:
                run.candidate(sig, "render/parse of a checksum", req, not real.get("ok"))
        elif ctx.mode == "inventory-roundtrip":
            if sig is None and not real.get("equal"):
                run.mismatch(f"inventory round trip: model equal, real {real} for {req}")
                continue
            run.stats["validated"] += 1
            if sig:
                run.candidate(sig, f"{req['artifacts']} -> {real.get('text', '')[:300]!r} -> equal={real.get('equal')}", req, not real.get("equal"))
            else:
                run.sample({"inventory": real.get("text", "")[:200]}, limit=4)
        else:
            viol = inv_violation(req, real)
            if real.get("result") != out["res"] and sig is None:
                run.mismatch(f"{ctx.mode}: predicted {out['res']} real {real.get('result')} for {req}")
                continue
            run.stats["validated"] += 1
            if sig:
                run.candidate(sig, f"{req['mode']} over {req['artifacts']} for {req['os']}/{req['arch']} -> {real.get('result')}: {viol}", req, bool(viol))
            else:
                run.sample({"mode": req["mode"], "artifacts": req["artifacts"], "result": real.get("result")}, limit=6)


def inv_violation(req, real):
    arts = req["artifacts"]
    match = [i for i, a in enumerate(arts) if a["os"] == req["os"] and a["arch"] == req["arch"] and a["sat"]]
    r = real.get("result")
    if r is None:
        return "returned nothing although an artifact matches" if match else None
    if r not in match:
        return "returned an artifact that does not match"
    gt = (lambda a, b: a[0] > b[0]) if req["mode"] == "resolve" else (lambda a, b: a[0] >= b[0] and a[1] >= b[1] and a != b)
    for j in match:
        if j != r and gt(arts[j]["v"], arts[r]["v"]):
            return f"artifact {j} matches and has a greater version"
    return None


def finalize(run):
    m = run.extra.get("modes", {})
    for need in ("resolve", "partial_resolve", "checksum", "checksum-roundtrip", "inventory-roundtrip"):
        if not m.get(need):
            run.inconclusive.append(f"vacuity: mode {need} never explored")


def replay(run, scen):
    real = run.replay.run([scen["scenario"]])[0]
    print(json.dumps(real))
    return 0
