"""C20 — identical inputs give byte-identical layer outputs.

Self-composition over the real code: the same layer operation (trait-API create/update with a result carrying two
process-scoped env deltas, two exec.d programs and two SBOMs; struct-API `LayerRef::write_exec_d_programs` / `write_sboms`)
is executed from MIR twice on two copies of one arbitrary symbolic layers directory; likewise the build phase entry point
(`libcnb_runtime` as `build`, with a build result carrying a launch configuration with three processes - one process type
declared twice -, labels, a store and two SBOMs) on two copies of a valid platform input.  In the second run every `HashMap`
iteration and every directory listing is permuted by a solver-chosen permutation (what a different hash seed / directory
order does in another process).  The two post-states must be identical node for node.  Clocks, randomness, pids and temp
names have no summary on purpose: reaching one makes the run inconclusive.
"""
import itertools
import json
from mirsym import smt as z3
from mirsym.core import *
from mirsym import summ_coll
from mirsym.summ_core import Ok, Err, Some, NONE, VecV, sval, S, ListIt
from mirsym.summ_fs import World, ABSENT, FILE, DIR
from mirsym.summ_serde import TVal, TomlText
from mirsym.run import Inconclusive
from harness.layers import *
from harness import C01, C02
from harness.C01 import b2, doc_view

SHARDS = {"quick": 12, "thorough": 14}
CRATES = C01.CRATES
PHASE_REQ = {"op": "runtime", "argv": ["build", "/L", "/platform", "/in/buildpack-plan.toml"], "behaviour": {"launch": "repeated-process-types", "store": "nonempty", "build_sboms": ["CycloneDxJson", "SpdxJson"], "launch_sboms": ["SyftJson"]},
             "env": {"CNB_BUILDPACK_DIR": True, "CNB_TARGET_OS": True, "CNB_TARGET_ARCH": True, "CNB_TARGET_ARCH_VARIANT": False, "CNB_TARGET_DISTRO_NAME": True, "CNB_TARGET_DISTRO_VERSION": True},
             "descriptor": {"present": True, "syntax_ok": True, "has_api": True, "api": "0.10", "rest_ok": True}, "platform_env": False, "olds": {}, "buildpack_plan_ok": True, "old_store_ok": True}


def prepare(run):
    run.program(CRATES)


def permute(ctx, items, label):
    n = len(items)
    if n <= 1 or not getattr(ctx, "permuting", False):
        return items
    if getattr(ctx, "all_perms", False) and n <= 3:
        perms = list(itertools.permutations(range(n)))
    else:       # identity, reversal and one rotation: every pair of elements is seen in both relative orders
        perms = [tuple(range(n)), tuple(reversed(range(n)))] + ([tuple(list(range(1, n)) + [0])] if n > 2 else [])
    k = ctx.choose([True] * len(perms), f"perm:{label}:{n}")
    ctx.perm_used = ctx.perm_used or k != 0
    return [items[i] for i in perms[k]]


def main(run):
    run.bounds = {"operations": "trait handle_layer with create/update returning {2 process env deltas + launch delta, 2 exec.d programs, 2 SBOMs}; "
                                "build phase (libcnb_runtime) writing launch.toml (3 processes incl. a repeated type, 1 label), store.toml and 2 SBOM files; "
                                "LayerRef::write_exec_d_programs with 2 programs; LayerRef::write_sboms with 2 formats; exec.d program names plain (p1, p2) or nested with a shared final component (web/setup-env, worker/setup-env)",
                  "pre-state": "arbitrary layers directory satisfying the layer invariant (C02 quick universe)",
                  "nondeterminism": "every HashMap iteration and directory listing of the second run permuted (quick: identity/reversal/rotation; thorough: all permutations up to 3 elements)"}
    run.assumptions = ["BTreeMap iteration is sorted (std); HashMap iteration and read_dir order are arbitrary",
                       "failing runs are compared only by their result class (the platform discards a failed build)"]
    run.outside = ["the toml crate's text layer (trees are compared)", "the detect phase's build plan (no collection is iterated there)"]
    P = run.program(CRATES)
    install_all(P)
    P.type_hooks["UserM"] = MHook(False)
    P.assoc_metadata = "UserM"
    hl = [k for k, f in P.funcs.items() if f.name.endswith("::handle_layer") and f.name.startswith("build::")]
    if len(hl) != 1:
        raise Inconclusive("BuildContext::handle_layer not found")
    g = lambda t, n: P.impl_index.get((t, None, n))
    le_new, le_insert = g("LayerEnv", "new"), g("LayerEnv", "insert")
    lr_fns = C01.writer_fns(P)
    run.encoded(P, hl + list(lr_fns.values()))

    def prog_names(ctx):
        """plain program names, or the per-process layout `<process>/<name>` with a shared final component"""
        if not hasattr(ctx, "names_kind"):
            ctx.names_kind = ["plain", "nested"][ctx.choose([True, True], "exec.d-names")]
        return ("p1", "p2") if ctx.names_kind == "plain" else ("web/setup-env", "worker/setup-env")

    def rich_result(ctx, mid):
        le = P.call(ctx, le_new, [], tyenv={})
        leb = Box(le)
        for sc, nm in ((("Process", "web"), "X"), (("Process", "worker"), "Y"), ("Launch", "Z")):
            P.call(ctx, le_insert, [Ref(leb), C02.scope_adt(sc), Adt("ModificationBehavior", "Override", []), nm, z3.String(f"val_{nm}")], tyenv={})
        progs = summ_coll.AssocV(False)
        n1_, n2_ = prog_names(ctx)
        progs.items.append([n1_, "/src/prog"])
        progs.items.append([n2_, "/src/prog2"])
        sboms = VecV([P.mk_struct("Sbom", format=Adt("SbomFormat", f, []), data=f"new-{f}") for f in ("CycloneDxJson", "SpdxJson")])
        return P.mk_struct("LayerResult", metadata=MetaVal(z3.IntVal(mid)), env=Some(leb.val), exec_d_programs=progs, sboms=sboms)

    def install_layer(ctx, script):
        types = layer_types(z3.Bool("t_launch"), z3.Bool("t_build"), z3.Bool("t_cache"))
        from mirsym.summ_core import clone_val
        P.summaries["Layer::types"] = lambda c2, c: clone_val(types)
        P.summaries["Layer::create"] = lambda c2, c: Ok(rich_result(c2, 500))
        P.summaries["Layer::update"] = lambda c2, c: Ok(rich_result(c2, 600))

        def strategy(c2, c):
            if script["strategy"] is None:
                script["strategy"] = ["Keep", "Update", "Recreate"][c2.choose([True] * 3, "strategy")]
            return Ok(Adt("ExistingLayerStrategy", script["strategy"], []))
        P.summaries["Layer::existing_layer_strategy"] = strategy

        def migrate(c2, c):
            if script["migrate"] is None:
                script["migrate"] = ["RecreateLayer", "ReplaceMetadata"][c2.choose([True] * 2, "migrate")]
            if script["migrate"] == "RecreateLayer":
                return Ok(Adt("MetadataMigration", "RecreateLayer", []))
            return Ok(Adt("MetadataMigration", "ReplaceMetadata", [MetaVal(z3.IntVal(77))]))
        P.summaries["Layer::migrate_incompatible_metadata"] = migrate
        return Adt("HarnessLayer", None, [])

    def world(ctx):
        """small symbolic universe: the subject layer absent or present with toml / plain file / one launch env file /
        one exec.d program, each symbolically present; other SBOM/bystander nodes pinned"""
        ctx.thorough = False
        w = C02.make_world(ctx)
        w.add("/src/prog2", FILE, content="prog2-bytes", mode=0o755)
        pins = ["n1_sbom_cdx", "n1_sbom_spdx", "n1_sbom_syft", "n2_dir", "n2_toml", "k_n2_f", "k_n1_env_build", "k_n1_env_build_Y_append"]
        for nm in pins:
            ctx.assume(z3.Int(nm) == ABSENT)
        if run.tier == "quick":
            ctx.assume(z3.And(z3.Bool("n1_doc_syntax_ok"), z3.Not(z3.Bool("n1_doc_has_unknown_key"))))
        return w

    f_rt = [k for k, f in P.funcs.items() if f is not None and f.name == "libcnb_runtime"]
    plat_from = P.impl_index.get(("GenericPlatform", "Platform", "from_path"))
    if len(f_rt) != 1 or not plat_from:
        raise Inconclusive("libcnb_runtime / GenericPlatform::from_path not found")
    P.summaries["env::args"] = P.summaries["args"] = lambda c2, c: ListIt(["build", "/PL", "/platform", "/in/plan.toml"])
    P.summaries["Platform::from_path"] = lambda c2, c: P.call(c2, plat_from, list(c.args), tyenv={})

    def phase_build(c2, c):
        mk = lambda ty, cmd: P.mk_struct("Process", **{"type": Adt("ProcessType", None, [ty]), "command": VecV([cmd]), "args": VecV([]), "default": False,
                                                       "working_directory": Adt("WorkingDirectory", "App", [])})
        launch = P.mk_struct("Launch", labels=VecV([P.mk_struct("Label", key="k", value=z3.String("label_value"))]),
                             processes=VecV([mk("web", "generic"), mk("worker", z3.String("worker_cmd")), mk("web", "specific")]), slices=VecV([]))
        store = P.mk_struct("Store", metadata=Opaque("toml", TVal("store.metadata", kind="table", entries=[["a", True, TVal("a", kind="str", scalar="1")], ["b", True, TVal("b", kind="str", scalar="2")]], ident=z3.IntVal(9))))
        sb = lambda f: P.mk_struct("Sbom", format=Adt("SbomFormat", f, []), data=VecV(["sbom-" + f]))
        from harness.C05 import order_pass
        return Ok(Adt("BuildResult", None, [Adt("InnerBuildResult", "Pass", order_pass(P, Some(launch), Some(store), VecV([sb("CycloneDxJson"), sb("SpdxJson")]), VecV([sb("SyftJson")])))]))
    P.summaries["Buildpack::build"] = phase_build
    P.summaries["Buildpack::on_error"] = lambda c2, c: UNIT

    class DescHook:
        def deserialize(self, c2, ty, tv):
            return Ok(Opaque("descriptor", "bp"))

        def missing(self, c2, md):
            return Ok(Opaque("descriptor", "bp"))
    P.type_hooks["ComponentBuildpackDescriptor"] = DescHook()

    def phase_world(w):
        for d in ("/bp", "/platform", "/PL", "/in", "/app"):
            w.add(d, DIR)
        w.cwd = "/app"
        for v in ("CNB_TARGET_OS", "CNB_TARGET_ARCH", "CNB_TARGET_DISTRO_NAME", "CNB_TARGET_DISTRO_VERSION"):
            w.env[v] = "v"
        w.env["CNB_BUILDPACK_DIR"] = "/bp"
        w.add("/bp/buildpack.toml", FILE, content=TomlText(True, TVal("bp", kind="table", entries=[["api", True, TVal("bp.api", kind="str", scalar="0.10")]])))
        w.add("/in/plan.toml", FILE, content=TomlText(True, TVal("plan", kind="table", entries=[["entries", True, TVal("plan.entries", kind="array", elems=[])]])))

    def run_phase(ctx):
        try:
            P.call(ctx, f_rt[0], [Ref(Box(Adt("TestBuildpack", None, [])))], tyenv={"B": "TestBuildpack"})
        except Exit as e:
            return f"exit:{e.code}"
        return "returned"

    def run_op(ctx, op, script):
        if op == "phase":
            return run_phase(ctx)
        bc = P.mk_struct("BuildContext", layers_dir=L)
        if op == "trait":
            layer = install_layer(ctx, script)
            r = deref(P.call(ctx, hl[0], [Ref(Box(bc)), Adt("LayerName", None, ["n1"]), layer], tyenv={"L": "HarnessLayer"}))
        else:
            lr = P.mk_struct("LayerRef", name=Adt("LayerName", None, ["n1"]), layers_dir=L, buildpack=UNIT, state=Adt("LayerState", "Restored", ["c"]))
            if op == "execd":
                progs = summ_coll.AssocV(False)
                n1_, n2_ = prog_names(ctx)
                progs.items.append([n1_, "/src/prog"])
                progs.items.append([n2_, "/src/prog2"])
                r = deref(P.call(ctx, lr_fns["write_exec_d_programs"], [Ref(Box(lr)), progs], tyenv={}))
            else:
                sboms = VecV([P.mk_struct("Sbom", format=Adt("SbomFormat", f, []), data=f"new-{f}") for f in ("CycloneDxJson", "SyftJson")])
                r = deref(P.call(ctx, lr_fns["write_sboms"], [Ref(Box(lr)), sboms], tyenv={}))
        return r.variant

    def entry(ctx):
        op = ["trait", "execd", "sboms", "phase"][ctx.choose([True] * 4, "op")]
        ctx.op = op
        w1 = ctx.world
        if op == "phase":
            phase_world(w1)
        elif op != "trait":
            ctx.assume(w1.fs["/L/n1"].kind == DIR)
        w2 = w1.clone()
        script = {"strategy": None, "migrate": None}
        ctx.permuting, ctx.perm_used = False, False
        ctx.all_perms = run.tier == "thorough"
        r1 = run_op(ctx, op, script)
        ctx.world = w2
        w2.hash_order = lambda c2, m, idx: permute(c2, idx, "hash")
        w2.readdir_order = lambda c2, phys, ents: permute(c2, ents, "readdir")
        ctx.permuting = True
        r2 = run_op(ctx, op, script)
        ctx.permuting = False
        return {"r1": r1, "r2": r2, "w1": w1, "w2": w2}

    res = run.explore(P, entry, lambda ctx: [], world, max_paths=3000000, max_depth=80)
    run.log(f"{len(res)} paths")
    stats = {"compared": 0, "permuted": 0, "ok_runs": 0}
    for ctx, (kind, out) in res:
        if kind != "return":
            run.inconclusive.append(f"path ends with {kind}: {str(out)[:200]}")
            continue
        stats["compared"] += 1
        stats["permuted"] += 1 if ctx.perm_used else 0
        w1, w2 = out["w1"], out["w2"]
        eqs = [z3.BoolVal(out["r1"] == out["r2"])]
        if ctx.op == "phase":
            if out["r1"] == "exit:0":
                stats["ok_runs"] += 1
            for p_ in sorted(set(w1.fs) | set(w2.fs)):
                if not p_.startswith("/PL"):
                    continue
                a, bnode = w1.get(p_), w2.get(p_)
                eqs.append(b2(a.kind == bnode.kind))
                if isinstance(a.content, TomlText) and isinstance(bnode.content, TomlText):
                    eqs.append(tree_eq(a.content.tree, bnode.content.tree))
                elif a.content is not None and bnode.content is not None and not isinstance(a.content, TomlText) and not isinstance(bnode.content, TomlText):
                    eqs.append(b2(seq_eq(a.content, bnode.content)))
                elif (a.content is None) != (bnode.content is None) or isinstance(a.content, TomlText) != isinstance(bnode.content, TomlText):
                    eqs.append(z3.BoolVal(False))
        elif out["r1"] == "Ok" and out["r2"] == "Ok":
            stats["ok_runs"] += 1
            for p_ in sorted(set(w1.fs) | set(w2.fs)):
                a, bnode = w1.get(p_), w2.get(p_)
                eqs.append(b2(a.kind == bnode.kind))
                ca, cb = a.content, bnode.content
                if isinstance(ca, TomlText) or isinstance(cb, TomlText):
                    if not (isinstance(ca, TomlText) and isinstance(cb, TomlText)):
                        eqs.append(z3.Implies(b2(a.kind == FILE), z3.BoolVal(False)))
                    else:
                        va, vb = doc_view(ctx, a), doc_view(ctx, bnode)
                        eqs += [x == y for x, y in zip(va[1:3], vb[1:3])] + [x == y for x, y in zip(va[3], vb[3])] + [va[4] == vb[4], va[5] == vb[5], va[6] == vb[6]]
                elif ca is not None and cb is not None:
                    eqs.append(z3.Implies(b2(a.kind == FILE), S(ca) == S(cb)))
        run.obligation()
        ans, m = run.check(ctx.pc + [z3.Not(z3.And(eqs))], "two-runs-agree", want=C01.model_terms(ctx))
        if ans == "sat":
            diff = [p_ for p_ in sorted(set(w1.fs) | set(w2.fs)) if str(w1.get(p_).kind) != str(w2.get(p_).kind) or str(w1.get(p_).content) != str(w2.get(p_).content)]
            # a nondeterministic output cannot be "replayed" on demand in one process; the differing nodes are reported and the
            # finding is confirmed by running the real operation repeatedly in fresh processes (different hash seeds)
            scn = {"op": ctx.op, "differs": diff[:6], "names": getattr(ctx, "names_kind", "plain")}
            run.candidate(f"outputs-depend-on-iteration-order:{ctx.op}", f"{ctx.op}: runs differ at {diff[:4]} ({out['r1']} vs {out['r2']})", scn, confirm_real(run, ctx, m, ctx.op))
        elif stats["compared"] % 40 == 0:
            run.sample({"op": ctx.op, "result": out["r1"], "permuted": bool(ctx.perm_used)}, limit=8)
    run.extra["c20_stats"] = stats
    # translation validation of the determinism claim on the real build: fresh processes have fresh hash seeds
    if run.shard is None or run.shard[0] == 0:
        outs, outs_nested = set(), set()
        for i in range(6):
            real = run.replay.run([{"op": "layer-det", "names": "plain" if i % 2 == 0 else "nested"}])[0]
            outs.add(json.dumps(real, sort_keys=True) if i % 2 == 0 else "")
            if i % 2 == 1:
                outs_nested.add(json.dumps(real, sort_keys=True))
        outs.discard("")
        phase_outs = set(json.dumps(run.replay.run([PHASE_REQ])[0].get("contents"), sort_keys=True) for _ in range(4))
        if len(phase_outs) != 1:
            run.candidate("outputs-depend-on-iteration-order:real-build-phase", "four fresh processes wrote different launch.toml/store.toml", PHASE_REQ, True)
        if len(outs) != 1 or len(outs_nested) != 1:
            run.candidate("outputs-depend-on-iteration-order:real-build", "six fresh processes produced different layer outputs", {"op": "layer-det"}, True)
        else:
            run.stats["validated"] += 6


def seq_eq(a, b):
    from mirsym.summ_core import val_eq
    r = val_eq(None, a, b)
    return r


def tree_eq(a, b):
    """equality of two written documents as ordered trees: arrays element by element in order, tables key by key"""
    if a.kind != b.kind:
        return z3.BoolVal(False)
    if a.kind == "array":
        if len(a.elems) != len(b.elems):
            return z3.BoolVal(False)
        return z3.And([tree_eq(x, y) for x, y in zip(a.elems, b.elems)] or [z3.BoolVal(True)])
    if a.kind == "table":
        if a.entries is None or b.entries is None:
            return b2(a.ident == b.ident) if a.ident is not None and b.ident is not None else z3.BoolVal(a.entries is None and b.entries is None)
        ka = [(k, p) for k, p, v in a.entries if p is not False]
        kb = [(k, p) for k, p, v in b.entries if p is not False]
        if [k for k, _ in ka] != [k for k, _ in kb]:        # same keys in the same order: toml writes tables in insertion order
            return z3.BoolVal(False)
        return z3.And([tree_eq(x[2], y[2]) for x, y in zip([e for e in a.entries if e[1] is not False], [e for e in b.entries if e[1] is not False])] or [z3.BoolVal(True)])
    sa, sb = a.scalar, b.scalar
    if isinstance(sa, (str, bool, int)) and isinstance(sb, (str, bool, int)):
        return z3.BoolVal(sa == sb)
    return b2(S(sa) == S(sb)) if a.kind == "str" else b2(sa == sb)


def confirm_real(run, ctx, m, op):
    if op == "phase":
        outs = set()
        for i in range(16):
            real = run.replay.run([PHASE_REQ])[0]
            outs.add(json.dumps(real.get("contents"), sort_keys=True))
        return len(outs) > 1
    outs = set()
    for i in range(16):
        real = run.replay.run([{"op": "layer-det", "names": getattr(ctx, "names_kind", "plain")}])[0]
        outs.add(json.dumps(real, sort_keys=True))
    return len(outs) > 1


def finalize(run):
    st = run.extra.get("c20_stats", {})
    if not st.get("permuted") or not st.get("ok_runs"):
        run.inconclusive.append(f"vacuity: {st}")


def replay(run, scen):
    if scen["scenario"].get("op") == "phase":
        outs = set(json.dumps(run.replay.run([PHASE_REQ])[0].get("contents"), sort_keys=True) for _ in range(16))
        print(json.dumps({"distinct_phase_outputs_over_16_processes": len(outs)}))
        return 0
    outs = set()
    for i in range(16):
        outs.add(json.dumps(run.replay.run([{"op": "layer-det", "names": scen["scenario"].get("names", "plain")}])[0], sort_keys=True))
    print(json.dumps({"distinct_outputs_over_12_processes": len(outs)}))
    return 0
