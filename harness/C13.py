"""C13 — buildpacks are packaged in dependency order.

Executed from MIR: `create_dependency_graph`, `get_dependencies`, the `DependencyNode` impl of
`BuildpackDependencyGraphNode` (`id`, `dependencies`), and **petgraph's own** `DfsPostOrder::{empty, move_to, next}`.
Graph storage (`Graph::{new, add_node, add_edge, node_indices, Index, neighbors}` in petgraph's documented
most-recent-edge-first order) and the visit bit set are summaries.
"""
import json
import re
from mirsym import smt as z3
from mirsym.core import *
from mirsym import summ_core
from mirsym.summ_core import Ok, Err, Some, NONE, VecV, ListIt, sval, val_eq
from mirsym.run import Inconclusive

BOUNDS = {"quick": dict(n=4, labelled=True, roots=2), "thorough": dict(n=5, labelled=False, roots=3)}
SHARDS = {"quick": 12, "thorough": 14}
CRATES = ["libcnb-package", "petgraph"]


def prepare(run):
    run.program(CRATES, src_crates=["libcnb-package"])


class GraphV:
    type_tag = "Graph"

    def __init__(self):
        self.nodes = []      # weights
        self.edges = []      # (from, to) in insertion order


class SetV:
    def __init__(self):
        self.s = set()


def install(P):
    summ_core.install(P)

    @P.summary("Graph::new", "Graph::default", "Graph::with_capacity")
    def _gnew(ctx, c):
        return GraphV()

    @P.summary("Graph::add_node")
    def _add_node(ctx, c):
        g = deref(c.args[0])
        g.nodes.append(c.args[1])
        return len(g.nodes) - 1

    @P.summary("Graph::add_edge", "Graph::update_edge")
    def _add_edge(ctx, c):
        g = deref(c.args[0])
        a, b = deref(c.args[1]), deref(c.args[2])
        g.edges.append((a, b))
        return len(g.edges) - 1

    @P.summary("Graph::node_indices")
    def _ni(ctx, c):
        return ListIt(list(range(len(deref(c.args[0]).nodes))))

    @P.summary("Graph::node_count")
    def _nc(ctx, c):
        return len(deref(c.args[0]).nodes)

    @P.summary("Graph::edge_count")
    def _ec(ctx, c):
        return len(deref(c.args[0]).edges)

    @P.summary("Graph::node_weights")
    def _nw(ctx, c):
        g = deref(c.args[0])
        return ListIt([summ_core.ItemRef(_NodesView(g), i) for i in range(len(g.nodes))])

    class _NodesView:
        def __init__(self, g):
            self.items = g.nodes

    def graph_index(g, ctx, c):
        i = deref(c.args[1])
        if not (0 <= i < len(g.nodes)):
            raise Panic("Graph index out of bounds")
        return summ_core.ItemRef(_NodesView(g), i)
    GraphV.index_model = graph_index

    @P.summary("Graph::node_weight")
    def _node_weight(ctx, c):
        g, i = deref(c.args[0]), deref(c.args[1])
        return Some(summ_core.ItemRef(_NodesView(g), i)) if 0 <= i < len(g.nodes) else NONE

    @P.summary("Visitable::visit_map", "Visitable::reset_map")
    def _vm(ctx, c):
        if c.key.endswith("reset_map"):
            deref(c.args[1]).s.clear()
            return UNIT
        return SetV()

    @P.summary("VisitMap::visit")
    def _visit(ctx, c):
        s, n = deref(c.args[0]), deref(c.args[1])
        if n in s.s:
            return False
        s.s.add(n)
        return True

    @P.summary("VisitMap::is_visited")
    def _isv(ctx, c):
        return deref(c.args[1]) in deref(c.args[0]).s

    @P.summary("VisitMap::unvisit")
    def _unv(ctx, c):
        s, n = deref(c.args[0]), deref(c.args[1])
        had = n in s.s
        s.s.discard(n)
        return had

    @P.summary("IntoNeighbors::neighbors", "Graph::neighbors")
    def _nb(ctx, c):
        g, n = deref(c.args[0]), deref(c.args[1])
        # petgraph adjacency lists: the most recently added outgoing edge comes first
        return ListIt([b for (a, b) in reversed(g.edges) if a == n])

    @P.summary("GraphBase::node_bound", "NodeIndexable::node_bound")
    def _bound(ctx, c):
        return len(deref(c.args[0]).nodes)


def main(run):
    b = BOUNDS[run.tier]
    N = b["n"]
    run.bounds = {"nodes": N, "graphs": "every labelled DAG (edges i->j for any i != j, acyclic)" if b["labelled"] else
                  "every DAG whose node insertion order is a topological order reversed or not (edges i->j, i<j and i>j variants)",
                  "root selections": f"every ordered selection without repetition of length <= {b['roots']}",
                  "dangling dependency": "optionally one dependency on an unknown id", "dependency list order": "ascending or descending"}
    run.assumptions = ["petgraph::Graph storage behaves as documented (adjacency: newest edge first); FixedBitSet visit map = a set",
                       "DependencyNode impl = BuildpackDependencyGraphNode's (executed from MIR)"]
    run.outside = ["reading buildpack.toml into nodes and choosing which directories are buildpacks (directory walk, buildpack kind)", "graphs larger than the bound"]
    P = run.program(CRATES, src_crates=["libcnb-package"])
    install(P)
    one = lambda pat: [k for k, f in P.funcs.items() if re.search(pat, f.name)]
    cdg, gd = one(r"^(dependency_graph::)?create_dependency_graph$"), one(r"^(dependency_graph::)?get_dependencies$")
    if len(cdg) != 1 or len(gd) != 1:
        raise Inconclusive("create_dependency_graph / get_dependencies not found in MIR")
    run.encoded(P, cdg + gd)
    ids = [f"x/n{i}" for i in range(N)] + ["x/unknown"]

    def mk_node(i, deps):
        return P.mk_struct("BuildpackDependencyGraphNode", buildpack_id=Adt("BuildpackId", None, [ids[i]]), path=f"/ws/bp{i}",
                           dependencies=VecV([Adt("BuildpackId", None, [ids[j]]) for j in deps]))

    def make_args(ctx):
        ctx.edge = {}
        for i in range(N):
            for j in range(N):
                if i != j and (b["labelled"] or i < j):
                    ctx.edge[(i, j)] = z3.Bool(f"e{i}_{j}")
        if b["labelled"]:
            ranks = [z3.Int(f"rank{i}") for i in range(N)]
            for (i, j), e in ctx.edge.items():
                ctx.assume(z3.Implies(e, ranks[i] > ranks[j]))        # acyclic
        return []

    def entry(ctx):
        n = 1 + ctx.choose([True] * N, "node-count")       # every graph size 1..N
        ctx.n = n
        for (i, j), e in ctx.edge.items():
            if i >= n or j >= n:
                ctx.assume(z3.Not(e))
        desc = ctx.choose([True, True], "dep-order") == 1
        flip = (not b["labelled"]) and ctx.choose([True, True], "insertion-order") == 1      # node k is stored at position N-1-k
        dangling = ctx.choose([True] * (n + 1), "dangling")     # n = none, else the node that also depends on an unknown id
        if dangling == n:
            dangling = N
        ctx.meta = dict(desc=desc, flip=flip, dangling=dangling)
        pos = (lambda k: n - 1 - k) if flip else (lambda k: k)
        ctx.pos = pos
        deps_of = {}
        for i in range(n):
            deps = [j for j in range(N) if (i, j) in ctx.edge and ctx.branch(ctx.edge[(i, j)], f"edge{i}->{j}")]
            if dangling == i:
                deps = deps + [N]
            if desc:
                deps = list(reversed(deps))
            deps_of[i] = deps
        ctx.deps_of = deps_of
        order = sorted(range(n), key=pos)
        nodes = VecV([mk_node(i, deps_of[i]) for i in order])
        r = deref(P.call(ctx, cdg[0], [nodes], tyenv={}))
        if r.variant == "Err":
            e = deref(r.fields[0])
            return {"graph_err": e.variant, "arg": sval(e.fields[0]) if e.fields else None}
        g = r.fields[0]
        # root selection: ordered, without repetition
        k = 1 + ctx.choose([True] * min(b["roots"], n), "nroots")
        roots = []
        for t in range(k):
            r_ = ctx.choose([True] * n, f"root{t}")
            if r_ in roots:
                raise PathInfeasible()
            roots.append(r_)
        ctx.roots = roots
        root_refs = VecV([Ref(Box(mk_node(i, deps_of[i]))) for i in roots])
        r2 = deref(P.call(ctx, gd[0], [Ref(Box(g)), root_refs], tyenv={}))
        if r2.variant == "Err":
            return {"deps_err": deref(r2.fields[0]).variant}
        out = []
        for x in deref(r2.fields[0]).items:
            node = deref(x)
            out.append(ids.index(sval(node.fields[P.field_index("BuildpackDependencyGraphNode", "buildpack_id")])))
        return {"order": out}

    res = run.explore(P, entry, make_args, max_paths=3000000, max_depth=60)
    run.log(f"{len(res)} paths")
    pending = []
    kinds = {}
    for ctx, (kind, out) in res:
        if kind != "return":
            run.inconclusive.append(f"path ends with {kind}: {out}")
            continue
        E = lambda i, j: ctx.edge.get((i, j), z3.BoolVal(False))
        dang = ctx.meta["dangling"]
        want = list(ctx.edge.values())
        run.obligation()
        if dang < N:
            kinds["dangling"] = kinds.get("dangling", 0) + 1
            ok = out.get("graph_err") == "MissingDependency" and out.get("arg") == "x/unknown"
            ans, m = run.check(ctx.pc + [z3.BoolVal(not ok)], "dangling-is-error", want=want)
            if ans == "sat":
                pending.append((ctx, m, out, "dangling-dependency-not-reported"))
            continue
        if "order" not in out:
            kinds["unexpected-error"] = kinds.get("unexpected-error", 0) + 1
            ans, m = run.check(ctx.pc, "unexpected-error", want=want)
            if ans == "sat":
                pending.append((ctx, m, out, "error-on-valid-graph"))
            continue
        kinds["order"] = kinds.get("order", 0) + 1
        order = out["order"]
        if any(x >= ctx.n for x in order):
            order = order + order       # a node outside the graph: force a violation below
        reach = [z3.BoolVal(i in ctx.roots) for i in range(N)]
        for _ in range(N):
            reach = [z3.Or(reach[i], *[z3.And(reach[j], E(j, i)) for j in range(N) if j != i]) for i in range(N)]
        posn = {n: k for k, n in enumerate(order)}
        cl = [z3.BoolVal(len(order) == len(set(order)))]
        for i in range(N):
            cl.append(reach[i] == z3.BoolVal(i in posn))
            for j in range(N):
                if i != j and i in posn and j in posn:
                    cl.append(z3.Implies(E(i, j), z3.BoolVal(posn[j] < posn[i])))
        ans, m = run.check(ctx.pc + [z3.Not(z3.And(cl))], "order-is-topological-closure", want=want)
        if ans == "sat":
            pending.append((ctx, m, out, "order-not-a-dependency-order"))
        ans, m = run.check(ctx.pc, "witness", want=want)
        if ans == "sat":
            pending.append((ctx, m, out, None))
    run.extra["path_kinds"] = kinds
    if run.tier == "quick":
        # replay is translation validation, not the deciding step: in the quick tier every violation candidate is replayed
        # but only an evenly spread sample of the plain path witnesses
        cands = [p for p in pending if p[3] is not None]
        wit = [p for p in pending if p[3] is None]
        step = max(1, len(wit) // 120)
        pending = cands + wit[::step]
    # replay through the public API on a temp workspace of composite buildpacks
    reqs = []
    for ctx, m, out, sig in pending:
        edges = sorted((i, j) for (i, j), e in ctx.edge.items() if m.bool(e))
        n = ctx.n
        deps = {i: [j for j in ctx.deps_of[i]] for i in range(n)}
        # deps_of was built on this path from the same edge decisions; cross-check with the model
        for i in range(n):
            if sorted(j for j in deps[i] if j < N) != sorted(j for (a, j) in edges if a == i):
                run.mismatch(f"internal: path edges {deps} differ from model {edges}")
        reqs.append({"op": "dep-graph", "n": n, "unknown": N, "deps": [deps[i] for i in range(n)], "roots": getattr(ctx, "roots", [0]),
                     "names": [f"bp{ctx.pos(i):02d}" for i in range(n)]})
    reals = run.replay.run(reqs)
    for (ctx, m, out, sig), req, real in zip(pending, reqs, reals):
        if "panic" in real or "error" in real:
            run.mismatch(f"replay driver failed: {real} on {req}")
            continue
        viol = spec_violation(req, real)
        same_insertion = real.get("node_order") == [i for i in sorted(range(ctx.n), key=ctx.pos)]
        if sig is None:
            if viol:
                run.mismatch(f"real code violates the property where the symbolic path does not: {req} -> {real}: {viol}")
                continue
            if same_insertion and "order" in out and real.get("order") != out["order"]:
                run.mismatch(f"order predicted {out['order']} real {real.get('order')} for {req}")
                continue
            run.stats["validated"] += 1
            run.sample({"deps": req["deps"], "roots": req["roots"], "order": real.get("order"), "err": real.get("err")}, limit=6)
        else:
            run.stats["validated"] += 1
            run.candidate(sig, f"deps={req['deps']} roots={req['roots']} -> {real.get('order', real.get('err'))} ({viol})", req, bool(viol))
    extraction_step(run)


# ---------------------------------------------------------------------------------------------------------------------
# round 3: the step before the graph — which dependencies of a package.toml become edges
# (buildpack_dependency_graph::get_buildpack_dependencies, executed from MIR over a PackageDescriptor with symbolic ids)
def extraction_step(run):
    from mirsym import smt as z3
    from mirsym import summ_core, summ_coll, summ_fs, summ_uri
    from mirsym.summ_core import VecV, S
    from spec import grammars
    from harness import C09, C14
    P = run.program(C14.CRATES)
    summ_core.install(P)
    summ_coll.install(P)
    summ_fs.install(P)
    summ_uri.install(P)
    C09.install_regex(P, [])
    fn = [k for k, f in P.funcs.items() if f is not None and re.search(r"(^|::)get_buildpack_dependencies$", f.name)]
    if len(fn) != 1:
        raise Inconclusive("buildpack_dependency_graph::get_buildpack_dependencies not found in MIR")
    run.encoded(P, fn + [k for k, f in P.funcs.items() if f is not None and f.name.endswith("buildpack_id_from_libcnb_dependency")])
    maxd = 3 if run.tier == "quick" else 4
    KINDS = ["libcnb", "rel", "docker"]
    run.bounds["edge extraction"] = (f"package.toml with 0..{maxd} dependencies, each libcnb:<symbolic valid id> | a relative path | a docker:// URI, in every order; "
                                     "expected: exactly the libcnb ids, in order")
    idre = grammars.buildpack_id()

    def entry(ctx):
        ctx.uri_safe = set()
        n = ctx.choose([True] * (maxd + 1), "ndeps")
        kinds = [KINDS[ctx.choose([True] * len(KINDS), f"kind{i}")] for i in range(n)]
        deps, exp, texts = [], [], []
        for i, k in enumerate(kinds):
            if k == "libcnb":
                d = z3.String(f"dep_id{i}")
                ctx.uri_safe.add(f"dep_id{i}")
                ctx.assume(z3.And(z3.InRe(d, C14.SAFE_SLASH), z3.InRe(d, idre), z3.Length(d) > 0))
                text = summ_core.concat(["libcnb:", d])
                exp.append(d)
            elif k == "rel":
                text = "../other-buildpack"
            else:
                text = "docker://docker.io/heroku/procfile-cnb:2.0.0"
            u = summ_uri.parse(ctx, text)
            if u is None:
                raise PathInfeasible()
            texts.append(text)
            deps.append(P.mk_struct("PackageDescriptorDependency", uri=u))
        desc = P.mk_struct("PackageDescriptor", buildpack=P.mk_struct("PackageDescriptorBuildpackReference", uri=summ_uri.parse(ctx, ".")), dependencies=VecV(deps),
                           platform=P.mk_struct("Platform", os=Adt("PlatformOs", "Linux", [])))
        ctx.x = dict(kinds=kinds, exp=exp, texts=texts)
        return deref(P.call(ctx, fn[0], [Ref(Box(desc))], tyenv={}))

    res = run.explore(P, entry, lambda ctx: [], max_paths=200000, max_depth=60)
    run.log(f"edge extraction: {len(res)} paths")
    pending, nlib, npaths = [], 0, 0
    for ctx, (kind, out) in res:
        if kind != "return":
            run.inconclusive.append(f"edge extraction path ends with {kind}: {str(out)[:200]}")
            continue
        npaths += 1
        x = ctx.x
        want = list(x["exp"])
        if out.variant != "Ok":
            cl = z3.BoolVal(False)
        else:
            got = [deref(v) for v in deref(out.fields[0]).items]
            nlib += 1 if got else 0
            cl = z3.And([z3.BoolVal(len(got) == len(x["exp"]))] + [S(deref(g).fields[0]) == e for g, e in zip(got, x["exp"])]) if len(got) == len(x["exp"]) else z3.BoolVal(False)
        run.obligation()
        ans, m = run.check(ctx.pc + [z3.Not(cl)], "edges-are-exactly-the-libcnb-dependencies", want=want, timeout_ms=30000)
        if ans == "sat":
            pending.append((ctx, m, out, "edges:libcnb-dependency-dropped-or-altered"))
        else:       # few paths per worker: every path's witness is replayed
            ans, m = run.check(ctx.pc, "witness", want=want, timeout_ms=30000)
            if ans == "sat":
                pending.append((ctx, m, out, None))
    run.extra["edge_extraction"] = {"paths": npaths, "paths_with_edges": nlib}
    reqs = []
    for ctx, m, out, sig in pending:
        ev = lambda t: summ_core.eval_str(ctx, m, t)
        reqs.append({"op": "node-deps", "uris": [ev(t) for t in ctx.x["texts"]], "expect": [ev(e) for e in ctx.x["exp"]]})
    reals = run.replay.run(reqs)
    for (ctx, m, out, sig), req, real in zip(pending, reqs, reals):
        if "panic" in real or "error" in real:
            run.mismatch(f"replay driver failed: {real} on {req}")
            continue
        bad = real.get("deps") != req["expect"]
        run.stats["validated"] += 1
        if sig is None:
            if bad:
                run.mismatch(f"edge extraction: real {real} differs from the expectation where the model saw none: {req}")
            else:
                run.sample({"package.toml dependencies": req["uris"], "edges": real.get("deps")}, limit=6)
        else:
            run.candidate(sig, f"package.toml dependencies {req['uris']} -> graph edges {real.get('deps', real)} (expected {req['expect']})", req, bad)


def spec_violation(req, real):
    n, deps, roots = req["n"], req["deps"], req["roots"]
    if any(j >= n for d in deps for j in d):
        return None if real.get("err") == "MissingDependency" else "dangling dependency not reported as an error"
    if "order" not in real:
        return f"error {real.get('err')} on a valid graph"
    order = real["order"]
    reach, todo = set(), list(roots)
    while todo:
        x = todo.pop()
        if x not in reach:
            reach.add(x)
            todo.extend(deps[x])
    if len(order) != len(set(order)):
        return "a buildpack appears twice"
    if set(order) != reach:
        return f"order {order} is not the reachable closure {sorted(reach)}"
    pos = {x: k for k, x in enumerate(order)}
    for i in order:
        for j in deps[i]:
            if pos[j] > pos[i]:
                return f"{i} is built before its dependency {j}"
    return None


def finalize(run):
    k = run.extra.get("path_kinds", {})
    for need in ("order", "dangling"):
        if not k.get(need):
            run.inconclusive.append(f"vacuity: no path of kind {need}")
    if k.get("unexpected-error"):
        pass


def replay(run, scen):
    real = run.replay.run([scen["scenario"]])[0]
    if scen["scenario"].get("op") == "node-deps":
        print(json.dumps({"real": real, "violation": real.get("deps") != scen["scenario"]["expect"]}))
        return 0
    print(json.dumps({"real": real, "violation": spec_violation(scen["scenario"], real)}))
    return 0
