"""C02 — trait-based layer handling runs the right callbacks and persists their result.

Executed from MIR: `BuildContext::handle_layer` -> `trait_api::handling::{handle_layer, handle_create_layer,
handle_update_layer, write_layer, read_layer}`, the `Layer` trait's default methods, `LayerResultBuilder`, the shared layer
functions (read/write/delete_layer, replace_layer_sboms, replace_layer_exec_d_programs), `LayerEnv::{read_from_layer_dir,
write_to_layer_dir}` and the derived (de)serializers.  One inductive step from any state satisfying the layer invariant.
"""
import json
import re
from mirsym import smt as z3
from mirsym.core import *
from mirsym import summ_coll
from mirsym.summ_core import Ok, Err, Some, NONE, VecV, sval, S
from mirsym.summ_fs import World, ABSENT, FILE, DIR
from mirsym.summ_serde import TVal, TomlText
from mirsym.run import Inconclusive
from harness.layers import *
from harness import C01
from harness.C01 import b2, doc_view

SHARDS = {"quick": 14, "thorough": 15}
CRATES = C01.CRATES
SCOPES = ["All", "Build", "Launch", ("Process", "web")]
ENVDIR = {"All": "env", "Build": "env.build", "Launch": "env.launch", ("Process", "web"): "env.launch/web"}


def prepare(run):
    run.program(CRATES)


def scope_adt(sc):
    return Adt("Scope", sc, []) if isinstance(sc, str) else Adt("Scope", "Process", [sc[1]])


def make_world(ctx):
    w = World(ctx)
    w.add(L, DIR)
    # subject layer: dir, toml, one SBOM, plain file, one pre-existing env file (build scope), one exec.d program
    ctx.n1 = LayerUniverse(ctx, w, "n1", rich=False)
    n1 = ctx.n1
    extra = [(f"{n1.dir}/env.build", True), (f"{n1.dir}/env.build/Y.append", False), (f"{n1.dir}/exec.d", True), (f"{n1.dir}/exec.d/p", False)]
    for path, isdir in extra:
        nm = path[len(L) + 1:].replace("/", "_").replace(".", "_")
        k = sym_kind(ctx, f"k_{nm}", [ABSENT, DIR] if isdir else [ABSENT, FILE])
        w.add(path, k, content=None if isdir else z3.String(f"c_{nm}"))
        ctx.assume(z3.Implies(k != ABSENT, w.fs[path.rsplit("/", 1)[0]].kind == DIR))
        n1.inner.append(path)
        n1.all.append(path)
    ctx.n2 = LayerUniverse(ctx, w, "n2", rich=False)
    if not ctx.thorough:
        # quick tier: one SBOM format and no pre-existing exec.d program for the subject; the bystander has dir/toml/file only
        for nm in ("n1_sbom_spdx", "n1_sbom_syft", "k_n1_exec_d_p", "n2_sbom_cdx", "n2_sbom_spdx", "n2_sbom_syft"):
            ctx.assume(z3.Int(nm) == ABSENT)
    w.add("/src", DIR)
    w.add("/src/prog", FILE, content="prog-bytes", mode=0o755)
    ctx.log = []
    return w


RESULTS = ["bare", "env-all", "env-build", "env-launch", "env-web", "full", "execd-missing"]


def build_entry(run, P, results=None, lean=False):
    """the trait-API entry point with a scripted Layer implementation (shared with C12's trait fault positions)"""
    P.type_hooks["UserM"] = MHook(False)
    P.assoc_metadata = "UserM"
    entry_fn = [k for k, f in P.funcs.items() if f.name.endswith("::handle_layer") and f.name.startswith("build::")]
    if len(entry_fn) != 1:
        raise Inconclusive("BuildContext::handle_layer not found")
    defaults = {}
    for nm in ("existing_layer_strategy", "update", "migrate_incompatible_metadata"):
        ks = [k for k, f in P.funcs.items() if f.name == f"trait_api::Layer::{nm}"]
        if len(ks) != 1:
            raise Inconclusive(f"default method Layer::{nm} not found")
        defaults[nm] = ks[0]
    g = lambda t, n: P.impl_index.get((t, None, n))
    le_new, le_insert = g("LayerEnv", "new"), g("LayerEnv", "insert")
    run.encoded(P, entry_fn + list(defaults.values()))

    def mk_result(ctx, which, tag):
        shapes = results or RESULTS
        shape = shapes[ctx.choose([True] * len(shapes), f"{which}-result")]
        mid = z3.IntVal(500 if which == "create" else 600)
        env = NONE
        ents = []
        if shape.startswith("env-") or shape == "full":
            sc = {"env-all": "All", "env-build": "Build", "env-launch": "Launch", "env-web": ("Process", "web"), "full": "Launch"}[shape]
            le = P.call(ctx, le_new, [], tyenv={})
            leb = Box(le)
            val = z3.String(f"{which}_val")
            P.call(ctx, le_insert, [Ref(leb), scope_adt(sc), Adt("ModificationBehavior", "Override", []), "X", val], tyenv={})
            env = Some(leb.val)
            ents.append((sc, "X.override", val))
        progs = summ_coll.AssocV(False)
        sboms = VecV([])
        execd = None
        if shape == "full":
            progs.items.append(["p2", "/src/prog"])
            execd = "ok"
            sboms = VecV([P.mk_struct("Sbom", format=Adt("SbomFormat", "CycloneDxJson", []), data="new-cdx")])
        elif shape == "execd-missing":
            progs.items.append(["p2", "/src/missing"])
            execd = "missing"
        res = P.mk_struct("LayerResult", metadata=MetaVal(mid), env=env, exec_d_programs=progs, sboms=sboms)
        return shape, res, dict(mid=mid, ents=ents, execd=execd, sboms=["cdx"] if shape == "full" else [])

    def install_layer(ctx):
        """the buildpack's Layer implementation: harness callbacks, logged"""
        types = layer_types(z3.Bool("t_launch"), z3.Bool("t_build"), z3.Bool("t_cache"))
        ctx.types = types

        def summ(name):
            def deco(f):
                P.summaries["Layer::" + name] = f
                return f
            return deco

        @summ("types")
        def _types(c2, c):
            return summ_core_clone(types)

        @summ("create")
        def _create(c2, c):
            path = sval(c.args[2])
            if c2.choose([True, True], "create-ok?") == 1:
                c2.log.append(("create", path, "Err", None))
                return Err(Opaque("BuildpackErr"))
            shape, res, info = mk_result(c2, "create", "c")
            c2.log.append(("create", path, shape, info))
            return Ok(res)

        @summ("existing_layer_strategy")
        def _els(c2, c):
            ld = deref(c.args[2])
            a = ["Keep", "Update", "Recreate", "Err", "default"][c2.choose([True] * 4 + [not lean], "strategy")]
            c2.log.append(("strategy", ld, a, None))
            if a == "Err":
                return Err(Opaque("BuildpackErr"))
            if a == "default":
                return P.call(c2, defaults["existing_layer_strategy"], list(c.args), tyenv=dict(c2.tyenv))
            return Ok(Adt("ExistingLayerStrategy", a, []))

        @summ("update")
        def _update(c2, c):
            ld = deref(c.args[2])
            k = c2.choose([True, True, not lean], "update-ok?")
            if k == 1:
                c2.log.append(("update", ld, "Err", None))
                return Err(Opaque("BuildpackErr"))
            if k == 2:
                c2.log.append(("update", ld, "default", None))
                return P.call(c2, defaults["update"], list(c.args), tyenv=dict(c2.tyenv))
            shape, res, info = mk_result(c2, "update", "u")
            c2.log.append(("update", ld, shape, info))
            return Ok(res)

        @summ("migrate_incompatible_metadata")
        def _mig(c2, c):
            gm = deref(c.args[2])
            a = ["RecreateLayer", "ReplaceMetadata", "Err", "default"][c2.choose([True] * 3 + [not lean], "migrate")]
            c2.log.append(("migrate", gm, a, None))
            if a == "Err":
                return Err(Opaque("BuildpackErr"))
            if a == "default":
                return P.call(c2, defaults["migrate_incompatible_metadata"], list(c.args), tyenv=dict(c2.tyenv))
            if a == "RecreateLayer":
                return Ok(Adt("MetadataMigration", "RecreateLayer", []))
            return Ok(Adt("MetadataMigration", "ReplaceMetadata", [MetaVal(z3.IntVal(77))]))
        return Adt("HarnessLayer", None, [])

    def summ_core_clone(v):
        from mirsym.summ_core import clone_val
        return clone_val(v)

    def entry(ctx):
        ctx.pre = C01.snapshot_pre(ctx)
        layer = install_layer(ctx)
        bc = P.mk_struct("BuildContext", layers_dir=L)
        r = deref(P.call(ctx, entry_fn[0], [Ref(Box(bc)), Adt("LayerName", None, ["n1"]), layer], tyenv={"L": "HarnessLayer"}))
        if r.variant == "Err":
            e = deref(r.fields[0])
            if e.variant == "BuildpackError":
                return {"res": "Err:Buildpack"}
            inner = deref(e.fields[0]) if e.fields else None
            inner2 = deref(inner.fields[0]) if (inner is not None and getattr(inner, "fields", None)) else None
            return {"res": f"Err:Layer:{getattr(inner, 'variant', '?')}", "detail": getattr(inner2, "variant", None)}
        return {"res": "Ok", "data": deref(r.fields[0])}

    return entry


def main(run):
    run.bounds = {"layers": "n1 (subject: dir, toml, 3 SBOM files, plain file, env.build/Y.append, exec.d/p), n2 (bystander)",
                  "callbacks": "types() arbitrary flags; existing_layer_strategy in {Keep, Update, Recreate, Err, default}; migrate_incompatible_metadata in "
                               "{RecreateLayer, ReplaceMetadata, Err, default}; create/update return Err or one of 7 result shapes (no env, env entry in each "
                               "of the 4 scopes incl. a process, env + exec.d + SBOM, exec.d with a missing source)",
                  "histories": "one inductive step from any state satisfying the layer invariant"}
    run.assumptions = ["layer invariant and metadata law as in C01", "env variable names are concrete here (C03 covers symbolic names)"]
    run.outside = ["I/O faults (C12)", "permission bits/symlinks (C11)"]
    P = run.program(CRATES)
    install_all(P)
    entry = build_entry(run, P)
    def world(ctx):
        ctx.thorough = run.tier == "thorough"
        return make_world(ctx)
    res = run.explore(P, entry, lambda ctx: [], world, max_paths=3000000, max_depth=80)
    run.log(f"{len(res)} paths")
    pending = []
    classes = {}
    npath = 0
    for ctx, (kind, out) in res:
        if kind != "return":
            run.inconclusive.append(f"path ends with {kind}: {str(out)[:200]}")
            continue
        npath += 1
        w, n1, n2, pre = ctx.world, ctx.n1, ctx.n2, ctx.pre
        log = ctx.log
        names = [l[0] + ":" + l[2] for l in log]
        key = out["res"].split(":")[0] + "|" + ",".join(l[0] for l in log)
        classes[key] = classes.get(key, 0) + 1
        ex_dir = b2(pre["dir_kind"] == DIR)
        ex, syn, ht, flags, hm, mid, hu = pre["doc"]
        generic_ok = z3.Or(z3.Not(ex), z3.And(syn, z3.Not(hu)))
        m_ok = z3.And(generic_ok, ex, hm, pre["okM"])
        clauses = {}

        # ---------------- callbacks exactly as the statement prescribes
        def strategy_tail(k):
            """log[k:] must be: strategy, then what the strategy asked for"""
            if len(log) <= k or log[k][0] != "strategy":
                return False, None
            a = log[k][2]
            if a in ("Recreate", "default"):
                return create_tail(k + 1)
            if a == "Err":
                return len(log) == k + 1 and out["res"] == "Err:Buildpack", None
            if a == "Keep":
                return len(log) == k + 1 and out["res"].split(":")[0] in ("Ok",), ("keep", None)
            if len(log) != k + 2 or log[k + 1][0] != "update":
                return False, None
            u = log[k + 1]
            if u[2] == "Err":
                return out["res"] == "Err:Buildpack", None
            if u[2] == "execd-missing":
                return out["res"].startswith("Err:Layer"), None
            return out["res"] == "Ok", ("update", u)

        def create_tail(k):
            if len(log) != k + 1 or log[k][0] != "create" or log[k][1] != n1.dir:
                return False, None
            cr = log[k]
            if cr[2] == "Err":
                return out["res"] == "Err:Buildpack", None
            if cr[2] == "execd-missing":
                return out["res"].startswith("Err:Layer"), None
            return out["res"] == "Ok", ("create", cr)

        def case_match(case):
            if case == "missing":
                return create_tail(0)
            if case == "parsable":
                return strategy_tail(0)
            if case == "unparsable":
                return (out["res"].startswith("Err:Layer") and not log), None
            # incompatible metadata
            if not log or log[0][0] != "migrate":
                return False, None
            a = log[0][2]
            if a == "Err":
                return len(log) == 1 and out["res"] == "Err:Buildpack", None
            if a in ("RecreateLayer", "default"):
                return create_tail(1)
            return strategy_tail(1)        # metadata replaced by m' (parses as M by the law): strategy decides
        table = [("missing", z3.Not(ex_dir)), ("parsable", z3.And(ex_dir, m_ok)), ("incompatible", z3.And(ex_dir, z3.Not(m_ok), generic_ok)),
                 ("unparsable", z3.And(ex_dir, z3.Not(generic_ok)))]
        finals = {}
        conj = []
        for case, cond in table:
            okc, fin = case_match(case)
            finals[case] = fin
            conj.append(z3.Implies(cond, z3.BoolVal(bool(okc))))
        clauses["callbacks-as-prescribed"] = z3.And(conj)

        # ---------------- persisted result == callback result / kept state; returned data == disk
        if out["res"] == "Ok":
            data = out["data"]
            fin = next((f for f in finals.values() if f), None)
            pex, psyn, pht, pflags, phm, pmid, phu = doc_view(ctx, w.fs[n1.toml])
            tl, tb, tc = (b2(x) for x in deref(ctx.types).fields)
            disk = [b2(w.fs[n1.dir].kind == DIR), pex, psyn, pht, z3.Not(phu), pflags[0] == tl, pflags[1] == tb, pflags[2] == tc]
            replaced = any(l[0] == "migrate" and l[2] == "ReplaceMetadata" for l in log)
            envfile = lambda sc: f"{n1.dir}/{ENVDIR[sc]}/X.override"
            execd_dir, p_old, p_new = f"{n1.dir}/exec.d", f"{n1.dir}/exec.d/p", f"{n1.dir}/exec.d/p2"
            same = lambda p_: z3.And(b2(w.get(p_).kind == pre["nodes"][p_][0]) if p_ in pre["nodes"] else b2(w.get(p_).kind == ABSENT),
                                     z3.Implies(b2(w.get(p_).kind == FILE), S(w.get(p_).content) == S(pre["nodes"][p_][2]))
                                     if p_ in pre["nodes"] and pre["nodes"][p_][2] is not None and not isinstance(pre["nodes"][p_][2], TomlText) else z3.BoolVal(True))
            if fin and fin[0] == "keep":
                disk.append(z3.And(phm, pmid == (z3.IntVal(77) if replaced else mid)))
                disk += [same(p_) for p_ in n1.inner + n1.sboms if not p_.endswith(("/env.build", "/exec.d"))]     # files, not empty directories
            elif fin and fin[0] in ("create", "update"):
                l = fin[1]
                if l[2] == "default":       # default update(): metadata and env of the existing layer are kept
                    disk.append(z3.And(phm, pmid == (z3.IntVal(77) if replaced else mid)))
                    disk += [same(f"{n1.dir}/env.build/Y.append")]
                    disk += [b2(w.get(p_).kind == ABSENT) for p_ in n1.sboms + [p_old, p_new, execd_dir]]
                    disk.append(same(f"{n1.dir}/f"))
                else:
                    info = l[3]
                    disk.append(z3.And(phm, pmid == info["mid"]))
                    want_env = {envfile(sc): v for sc, _, v in info["ents"]}
                    for sc in SCOPES:
                        p_ = envfile(sc)
                        if p_ in want_env:
                            disk.append(z3.And(b2(w.get(p_).kind == FILE), S(w.get(p_).content) == want_env[p_]))
                        else:
                            disk.append(b2(w.get(p_).kind == ABSENT))
                    disk.append(b2(w.get(f"{n1.dir}/env.build/Y.append").kind == ABSENT))
                    for f, p_ in zip(SBOM_EXT, n1.sboms):
                        disk.append(z3.And(b2(w.get(p_).kind == FILE), S(w.get(p_).content) == z3.StringVal("new-cdx")) if f in info["sboms"] else b2(w.get(p_).kind == ABSENT))
                    disk.append(b2(w.get(p_old).kind == ABSENT))
                    if info["execd"] == "ok":
                        disk.append(z3.And(b2(w.get(p_new).kind == FILE), S(w.get(p_new).content) == z3.StringVal("prog-bytes")))
                    else:
                        disk.append(b2(w.get(p_new).kind == ABSENT))
                    if fin[0] == "update":
                        disk.append(same(f"{n1.dir}/f"))       # update keeps the layer's plain files
                    else:
                        created_fresh = True
                        disk.append(b2(w.get(f"{n1.dir}/f").kind == ABSENT))
            clauses["disk-is-callback-result"] = z3.And(disk)
            # returned LayerData
            ld_name = sval(data.fields[P.field_index("LayerData", "name")])
            ld_path = sval(data.fields[P.field_index("LayerData", "path")])
            cm = deref(data.fields[P.field_index("LayerData", "content_metadata")])
            ty = deref(cm.fields[0])
            md = deref(cm.fields[1])
            ret = [z3.BoolVal(ld_name == "n1" and ld_path == n1.dir), z3.BoolVal(ty.variant == "Some")]
            if ty.variant == "Some":
                lt = deref(ty.fields[0])
                ret += [b2(lt.fields[0]) == pflags[0], b2(lt.fields[1]) == pflags[1], b2(lt.fields[2]) == pflags[2]]
            ret.append(z3.And(phm, md.ident == pmid) if isinstance(md, MetaVal) else z3.BoolVal(False))
            # returned env == what a fresh read of the disk yields: entries of every scope
            env = deref(data.fields[P.field_index("LayerData", "env")])
            idx = lambda f: P.field_index("LayerEnv", f)

            def items(delta):
                mm = deref(deref(delta).fields[0])
                return [(deref(k).fields[0].variant, sval(deref(k).fields[1]), sval(v)) for k, v in mm.items]
            got = {"All": items(env.fields[idx("all")]), "Build": items(env.fields[idx("build")]), "Launch": items(env.fields[idx("launch")])}
            procs = deref(env.fields[idx("process")])
            for k_, v_ in procs.items:
                got[("Process", sval(k_))] = items(v_)
            for sc in SCOPES:
                on_disk = []
                xo = w.get(envfile(sc))
                on_disk.append((xo, "Override", "X"))
                if sc == "Build":
                    on_disk.append((w.get(f"{n1.dir}/env.build/Y.append"), "Append", "Y"))
                g_ = got.get(sc, [])
                for node, beh, name in on_disk:
                    present = b2(node.kind == FILE)
                    hit = [S(v) == S(node.content) for (bh, nm, v) in g_ if bh == beh and nm == name]
                    ret.append(present == z3.BoolVal(True) if False else (z3.Implies(present, z3.Or(hit)) if hit else z3.Not(present)))
                    if hit:
                        ret.append(present)          # an entry is returned only for a file that exists
                known = {(beh, name) for _, beh, name in on_disk}
                ret.append(z3.BoolVal(all((bh, nm) in known for bh, nm, _ in g_)))
            clauses["returned-data-equals-disk"] = z3.And(ret)
        # ---------------- bystander
        same2 = []
        for p_ in n2.all:
            a, bn = pre["nodes"][p_], w.fs[p_]
            same2.append(b2(bn.kind == a[0]))
        clauses["other-layers-untouched"] = z3.And(same2)
        want = C01.model_terms(ctx) + [z3.Int("k_n1_env_build"), z3.Int("k_n1_env_build_Y_append"), z3.Int("k_n1_exec_d"), z3.Int("k_n1_exec_d_p"),
                                       z3.Bool("t_launch"), z3.Bool("t_build"), z3.Bool("t_cache"), z3.String("create_val"), z3.String("update_val")]
        violated = None
        for cname, cl in clauses.items():
            run.obligation()
            ans, m = run.check(ctx.pc + [z3.Not(cl)], cname, want=want)
            if ans == "sat":
                violated = cname
                pending.append((ctx, m, out, cname))
                break
        if violated is None and (run.tier == "thorough" or npath % 5 == 0):
            ans, m = run.check(ctx.pc, "witness", want=want)
            if ans == "sat":
                pending.append((ctx, m, out, None))
    run.extra["classes"] = classes
    if run.tier == "quick":
        cands = [p for p in pending if p[3] is not None]
        wit = [p for p in pending if p[3] is None]
        pending = cands[:40] + wit[::max(1, len(wit) // 80)]
    reqs = [scenario_of(ctx, m) for ctx, m, out, sig in pending]
    reals = run.replay.run(reqs)
    for (ctx, m, out, sig), req, real in zip(pending, reqs, reals):
        if "panic" in real or "error" in real:
            run.mismatch(f"replay driver failed: {real} on {json.dumps(req)[:600]}")
            continue
        pred_log = [l[0] for l in ctx.log]
        if real["result"].split(":")[0:2] != out["res"].split(":")[0:2] or [l["cb"] for l in real["log"]] != pred_log:
            if sig is None:
                run.mismatch(f"predicted {out['res']} log {pred_log}; real {real['result']} log {[l['cb'] for l in real['log']]}; scenario {json.dumps(req)[:700]}")
                continue
        run.stats["validated"] += 1
        if sig is None:
            run.sample({"pre": [e["path"] for e in req["tree"] if e["path"].startswith("L/n1")], "script": req["script"], "result": real["result"], "log": [l["cb"] for l in real["log"]]}, limit=8)
        else:
            viol = real_violation(req, real, sig)
            run.candidate(f"trait:{sig}", f"script={req['script']} pre={[e['path'] for e in req['tree'] if e['path'].startswith('L/n1')]} -> {real['result']}; {viol}", req, bool(viol))


def MODEL_TERMS():
    return [z3.Int("k_n1_env_build"), z3.Int("k_n1_env_build_Y_append"), z3.Int("k_n1_exec_d"), z3.Int("k_n1_exec_d_p"),
            z3.Bool("t_launch"), z3.Bool("t_build"), z3.Bool("t_cache"), z3.String("create_val"), z3.String("update_val")]


def scenario_of(ctx, m):
    ctx.req_kind = "cached_m"
    scn = C01.scenario_of(ctx, m)
    for nm, path in (("k_n1_env_build", "L/n1/env.build"), ("k_n1_exec_d", "L/n1/exec.d")):
        if m.int(z3.Int(nm)) == DIR:
            scn["tree"].append({"path": path, "kind": "dir"})
    for nm, path in (("k_n1_env_build_Y_append", "L/n1/env.build/Y.append"), ("k_n1_exec_d_p", "L/n1/exec.d/p")):
        if m.int(z3.Int(nm)) == FILE:
            scn["tree"].append({"path": path, "kind": "file", "content": "old:" + nm})
    script = []
    for l in ctx.log:
        e = {"cb": l[0], "answer": l[2]}
        if l[3]:
            e["value"] = m.str(z3.String(f"{l[0]}_val")) if l[3]["ents"] else None
        script.append(e)
    scn.update({"op": "layer-trait", "script": script,
                "types": {"launch": m.bool(z3.Bool("t_launch")), "build": m.bool(z3.Bool("t_build")), "cache": m.bool(z3.Bool("t_cache"))}})
    return scn


def real_violation(req, real, sig):
    """independent, concrete re-check of the statement on the real post-state (used to confirm counterexamples)"""
    rk = {e["path"]: e for e in real["tree"]}
    if sig == "other-layers-untouched":
        pre = {e["path"]: e for e in req["tree"] if e["path"].startswith("L/n2")}
        post = {p: e for p, e in rk.items() if p.startswith("L/n2")}
        return None if {p: e["kind"] for p, e in pre.items()} == {p: e["kind"] for p, e in post.items()} else "bystander layer changed"
    script = req["script"]
    last = script[-1] if script else None
    if not real["result"].startswith("Ok"):
        return f"returned {real['result']}" if sig == "callbacks-as-prescribed" else None
    t = (real.get("toml") or {}).get("types") or {}
    if (t.get("launch", False), t.get("build", False), t.get("cache", False)) != (req["types"]["launch"], req["types"]["build"], req["types"]["cache"]):
        return f"types on disk {t} differ from Layer::types() {req['types']}"
    if last and last["cb"] in ("create", "update") and last["answer"] not in ("Err", "default", "execd-missing"):
        shape = last["answer"]
        want_env = {"env-all": "env", "env-build": "env.build", "env-launch": "env.launch", "env-web": "env.launch/web", "full": "env.launch"}.get(shape)
        envfiles = sorted(p for p in rk if re.match(r"L/n1/env[^/]*/", p) and rk[p]["kind"] == "file")
        exp = [f"L/n1/{want_env}/X.override"] if want_env else []
        if envfiles != exp:
            return f"env files {envfiles} expected {exp}"
        if want_env and rk[exp[0]]["content"] != (last.get("value") or ""):
            return "env value differs"
        sb = sorted(p for p in rk if p.startswith("L/n1.sbom."))
        if sb != (["L/n1.sbom.cdx.json"] if shape == "full" else []):
            return f"sbom files {sb}"
        ex = sorted(p for p in rk if p.startswith("L/n1/exec.d/"))
        if ex != (["L/n1/exec.d/p2"] if shape == "full" else []):
            return f"exec.d {ex}"
        if last["cb"] == "create" and "L/n1/f" in rk:
            return "files of the previous layer survive a create"
        if real.get("returned_env") != real.get("disk_env"):
            return f"returned env {real.get('returned_env')} differs from disk {real.get('disk_env')}"
    if real.get("returned_env") != real.get("disk_env"):
        return f"returned env {real.get('returned_env')} differs from disk {real.get('disk_env')}"
    return None if sig not in ("callbacks-as-prescribed",) else "callback sequence differs from the statement"


def finalize(run):
    cl = run.extra.get("classes", {})
    for need in ("Ok|create", "Ok|strategy", "Ok|strategy,update", "Ok|strategy,create", "Ok|migrate,create", "Ok|migrate,strategy", "Err|"):
        if not any(k.startswith(need) for k in cl):
            run.inconclusive.append(f"vacuity: no path of class {need}")


def replay(run, scen):
    real = run.replay.run([scen["scenario"]])[0]
    print(json.dumps({"result": real.get("result"), "log": real.get("log"), "violation": real_violation(scen["scenario"], real, scen["signature"].split(":", 1)[1])}))
    return 0
