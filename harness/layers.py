"""Shared vocabulary of the layer harnesses (C01, C02, C11, C12, C20): the symbolic layers directory, the layer
invariant, the abstract content-metadata document, the lifecycle restore transition, and the scenario encoding for the
replay driver."""
import re
from mirsym import smt as z3
from mirsym.core import *
from mirsym import summ_core, summ_fs, summ_serde, summ_coll
from mirsym.summ_core import Ok, Err, Some, NONE, VecV, sval
from mirsym.summ_fs import World, Node, ABSENT, FILE, DIR, LINK, IoError
from mirsym.summ_serde import TVal, TomlText

L = "/L"
SBOM_EXT = ["cdx", "spdx", "syft"]


def sbom_path(layer, fmt):
    return f"{L}/{layer}.sbom.{fmt}.json"


class MetaVal:
    """a value of the buildpack's metadata type M (opaque, with identity)"""
    type_tag = "M"

    def __init__(self, ident):
        self.ident = ident

    def __repr__(self):
        return f"M#{self.ident}"

    def serialize_model(self, ctx):
        # law assumed for M: from_str(to_string(m)) == Ok(m)
        return TVal("metadata", kind="table", ident=self.ident, attrs={"ok_as_M": True})


LOSSY_SHIFT = 100000


class MHook:
    """serde binding of the type parameter M when it is the buildpack's own metadata struct"""
    def __init__(self, none_ok, lossy=False):
        self.none_ok = none_ok
        self.lossy = lossy      # M may ignore keys of the stored table: what M sees is a projection of the table (C01)

    def deserialize(self, ctx, ty, tv):
        if tv.decide_kind(ctx) != "table":
            return Err(summ_serde.SerdeErr("invalid_type", tv.kind))
        ok = tv.attrs.get("ok_as_M", True)
        if ok is True or (ok is not False and ctx.branch(ok, f"ok_as_M:{tv.name}")):
            lo = tv.attrs.get("lossy")
            if self.lossy and lo is not None and tv.ident is not None:
                return Ok(MetaVal(z3.If(lo, tv.ident + LOSSY_SHIFT, tv.ident)))
            return Ok(MetaVal(tv.ident))
        return Err(summ_serde.SerdeErr("custom", "metadata does not deserialise as M"))

    def missing(self, ctx, md):
        # a struct with required fields cannot come from a missing `metadata` key
        return Err(summ_serde.SerdeErr("missing_field", md.field))


def sym_kind(ctx, name, allowed):
    k = z3.Int(name)
    ctx.assume(z3.Or([k == a for a in allowed]))
    return k


def mk_layer_toml(ctx, prefix):
    """symbolic <layer>.toml content: syntactically valid or not; optional [types] (three bools), optional [metadata]
    (an opaque table with identity, deserialisable as M or not), optional unknown top-level key"""
    b = lambda n: z3.Bool(f"{prefix}_{n}")
    types = TVal(f"{prefix}.types", kind="table", entries=[
        ["launch", True, TVal(f"{prefix}.types.launch", kind="bool", scalar=b("launch"))],
        ["build", True, TVal(f"{prefix}.types.build", kind="bool", scalar=b("build"))],
        ["cache", True, TVal(f"{prefix}.types.cache", kind="bool", scalar=b("cache"))]])
    meta = TVal(f"{prefix}.metadata", kind="table", ident=z3.Int(f"{prefix}_mid"), attrs={"ok_as_M": b("okM"), "lossy": b("lossyM")})
    tree = TVal(f"{prefix}", kind="table", entries=[
        ["types", b("has_types"), types], ["metadata", b("has_meta"), meta],
        ["zz", b("has_unknown_key"), TVal(f"{prefix}.zz", kind="str", scalar="x")]])
    return TomlText(b("syntax_ok"), tree)


class LayerUniverse:
    """node universe of one layer `name` under /L"""
    def __init__(self, ctx, w, name, rich=True, symbolic=True):
        self.name = name
        self.dir = f"{L}/{name}"
        self.toml = f"{L}/{name}.toml"
        self.sboms = [sbom_path(name, f) for f in SBOM_EXT]
        self.inner = [f"{self.dir}/f", f"{self.dir}/env", f"{self.dir}/env/X.override", f"{self.dir}/env.build",
                      f"{self.dir}/env.build/Y.append", f"{self.dir}/exec.d", f"{self.dir}/exec.d/p"] if rich else [f"{self.dir}/f"]
        self.dirs = {f"{self.dir}/env", f"{self.dir}/env.build", f"{self.dir}/exec.d"}
        p = name
        if symbolic:
            kd = sym_kind(ctx, f"{p}_dir", [ABSENT, DIR])
            w.add(self.dir, kd)
            kt = sym_kind(ctx, f"{p}_toml", [ABSENT, FILE])
            w.add(self.toml, kt, content=mk_layer_toml(ctx, f"{p}_doc"))
            for f, path in zip(SBOM_EXT, self.sboms):
                ks = sym_kind(ctx, f"{p}_sbom_{f}", [ABSENT, FILE])
                w.add(path, ks, content=z3.String(f"{p}_sbom_{f}_data"))
                ctx.assume(z3.Implies(ks != ABSENT, kd == DIR))       # SBOM files are restored only together with the dir
            for path in self.inner:
                nm = path[len(L) + 1:].replace("/", "_").replace(".", "_")
                isdir = path in self.dirs
                k = sym_kind(ctx, f"k_{nm}", [ABSENT, DIR] if isdir else [ABSENT, FILE])
                w.add(path, k, content=None if isdir else z3.String(f"c_{nm}"))
                parent = path.rsplit("/", 1)[0]
                ctx.assume(z3.Implies(k != ABSENT, w.fs[parent].kind == DIR))
        self.all = [self.dir, self.toml] + self.sboms + self.inner


def install_all(P):
    summ_core.install(P)
    summ_fs.install(P)
    summ_serde.install(P)
    summ_coll.install(P)
    # defaulted generic parameters / aliases from source (LayerContentMetadata<M = GenericMetadata>, ...)
    for (st, prm), d in getattr(P, "type_defaults_src", {}).items():
        d2 = P.type_aliases.get(d, d)
        P.type_defaults[(st, prm)] = d2

    @P.summary("IntoAction::into_action")
    def _into_action(ctx, c):
        """the four blanket impls, selected by the shape of the value the callback returned"""
        v = deref(c.args[0])
        if isinstance(v, Adt) and v.ty == "Result":
            inner = deref(v.fields[0]) if v.variant == "Ok" else None
            tup = inner is not None and isinstance(inner, Adt) and inner.ty == "tuple"
            want = "Result<(T, C), E>" if (tup or getattr(v, "_tuple_err", False)) else "Result<T, E>"
        elif isinstance(v, Adt) and v.ty == "tuple":
            want = "(T, C)"
        else:
            want = "T"
        for k, f in P.funcs.items():
            if f.name.endswith("::into_action") and "struct_api" in f.name and f.param_tys:
                pt = f.param_tys[0].replace("std::result::", "")
                if pt == want:
                    return P.call(ctx, k, [c.args[0]], tyenv=dict(ctx.tyenv))
        raise Unsupported("IntoAction impl for " + want)

    @P.summary("default:GenericMetadata")
    def _gm_default(ctx, c):
        return NONE

    @P.summary("PhantomData")
    def _phantom(ctx, c):
        return UNIT


def layer_types(launch, build, cache):
    return Adt("LayerTypes", None, [launch, build, cache])
