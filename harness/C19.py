"""C19 (writer half) — tee writer and marker-splitting mapped writer are independent of how input is chunked.

Executed from MIR: `mapped`, `line_mapped`, `tee`, `MappedWrite::{new, write, flush, unwrap, map_and_write_current_buffer}`,
`Drop for MappedWrite`, `TeeWrite::{write, flush}`, `mappers::add_prefix` (+ its closure).
NOT covered (not applicable to this technique here): `CommandExt::{spawn,output}_and_write_streams` with a real child --
two OS pipes and two copier threads; no claim is made about deadlock freedom or stream completeness.
"""
import json
from mirsym import smt as z3
from mirsym.core import *
from mirsym import summ_core
from mirsym.summ_core import Ok, Err, Some, NONE, VecV, sval, ListIt, clone_val
from mirsym.run import Inconclusive

BOUNDS = {"quick": dict(n=5, chunks=3), "thorough": dict(n=7, chunks=3)}
SHARDS = {"quick": 12, "thorough": 14}
CRATES = ["libherokubuildpack"]
BEGIN, END = -1, -2


def prepare(run):
    run.program(CRATES)


class Sink:
    """inner writer: records what it receives; can be told to fail never (I/O faults are C12's subject)"""
    type_tag = "Sink"

    def __init__(self):
        self.items = []
        self.flushed = 0


def install(P):
    summ_core.install(P)

    @P.summary("Write::write_all", "Write::write")
    def _write_all(ctx, c):
        w = deref(c.args[0])
        data = deref(c.args[1])
        if isinstance(w, Adt):
            # a MIR Write impl nested as inner writer: std's default write_all = loop over write
            name = P.impl_index.get((w.ty, "Write", "write"))
            if not name:
                raise Unsupported("Write impl for " + w.ty)
            r = deref(P.call(ctx, name, [c.args[0], c.args[1]]))
            return Ok(UNIT) if (r.variant == "Ok" and c.key.endswith("write_all")) else r
        if isinstance(w, VecV):
            w.items.extend(data.items if isinstance(data, VecV) else list(data))
        else:
            w.items.extend(data.items if isinstance(data, VecV) else list(data))
        return Ok(UNIT) if c.key.endswith("write_all") else Ok(len(data.items))

    @P.summary("Write::flush")
    def _flush(ctx, c):
        w = deref(c.args[0])
        if isinstance(w, Adt):
            name = P.impl_index.get((w.ty, "Write", "flush"))
            return P.call(ctx, name, [c.args[0]])
        if isinstance(w, Sink):
            w.flushed += 1
        return Ok(UNIT)


def chunkings(ctx, n, ln, max_chunks):
    """choose split points: concrete chunk boundaries 0 <= c1 <= c2 <= ln"""
    cuts = []
    prev = 0
    for k in range(max_chunks - 1):
        c = prev + ctx.choose([True] * (ln - prev + 1), f"cut{k}")
        cuts.append(c)
        prev = c
    return [0] + cuts + [ln]


def expected_mapped(data, marker_flags):
    out, cur = [], []
    for b, is_m in zip(data, marker_flags):
        cur.append(b)
        if is_m:
            out.append(cur)
            cur = []
    if cur:
        out.append(cur)
    return out


def main(run):
    b = BOUNDS[run.tier]
    N, CH = b["n"], b["chunks"]
    run.bounds = {"input bytes": f"<= {N} (each an arbitrary byte; marker arbitrary)", "write calls": f"<= {CH} (every chunking incl. empty writes)",
                  "end": "drop | unwrap", "mappers": "tagging mapper (injective: BEGIN seg END), add_prefix(p) with |p| = 2"}
    run.assumptions = ["inner writer is an in-memory sink that never fails (I/O faults: C12)", "std Vec/mem::take/Arc as summarised"]
    run.outside = ["CommandExt::{spawn,output}_and_write_streams (OS pipes + two threads): not applicable, no claim"]
    P = run.program(CRATES)
    install(P)
    fn = lambda pat: [k for k, f in P.funcs.items() if re.search(pat, f.name)]
    mapped = fn(r"^(write::)?mapped$")
    line_mapped = fn(r"^(write::)?line_mapped$")
    tee = fn(r"^(write::)?tee$")
    add_prefix = fn(r"^(write::mappers::)?add_prefix$")
    mw_write = P.impl_index.get(("MappedWrite", "Write", "write"))
    mw_flush = P.impl_index.get(("MappedWrite", "Write", "flush"))
    mw_unwrap = fn(r"^write::<impl at [^>]*>::unwrap$")
    tw_write = P.impl_index.get(("TeeWrite", "Write", "write"))
    tw_flush = P.impl_index.get(("TeeWrite", "Write", "flush"))
    for nm, v in dict(mapped=mapped, line_mapped=line_mapped, tee=tee, add_prefix=add_prefix, unwrap=mw_unwrap).items():
        if len(v) != 1:
            raise Inconclusive(f"MIR function {nm} not found uniquely ({len(v)})")
    if not (mw_write and mw_flush and tw_write and tw_flush and P.impl_index.get(("MappedWrite", "Drop", "drop"))):
        raise Inconclusive("Write/Drop impls of MappedWrite/TeeWrite not found")
    run.encoded(P, mapped + line_mapped + tee + add_prefix + mw_unwrap + [mw_write, mw_flush, tw_write, tw_flush])

    def make_args(ctx):
        ctx.data = [z3.Int(f"b{i}") for i in range(N)]
        for d in ctx.data:
            ctx.assume(z3.And(d >= 0, d <= 255))
        ctx.marker = z3.Int("marker")
        ctx.assume(z3.And(ctx.marker >= 0, ctx.marker <= 255))
        return []

    def entry(ctx):
        mode = ["tag-drop", "tag-unwrap", "prefix-drop", "line-tag-drop", "tee"][ctx.choose([True] * 5, "mode")]
        ctx.mode = mode
        ln = ctx.choose([True] * (N + 1), "len")
        ctx.ln = ln
        cuts = chunkings(ctx, N, ln, CH)
        ctx.cuts = cuts
        chunks = [VecV(ctx.data[cuts[i]:cuts[i + 1]]) for i in range(len(cuts) - 1)]
        if mode == "tee":
            a, bsink = Sink(), Sink()
            t = P.call(ctx, tee[0], [Ref(Box(a)), Ref(Box(bsink))])
            tb = Box(t)
            for ch in chunks:
                r = deref(P.call(ctx, tw_write, [Ref(tb), ch]))
                if r.variant != "Ok":
                    return {"err": True}
                ctx.ret_lens = getattr(ctx, "ret_lens", []) + [r.fields[0]]
            P.call(ctx, tw_flush, [Ref(tb)])
            return {"a": a.items, "b": bsink.items, "flushed": (a.flushed, bsink.flushed)}
        sink = Sink()
        calls = []
        if mode.startswith("prefix"):
            ctx.prefix = [z3.Int("p0"), z3.Int("p1")]
            for p in ctx.prefix:
                ctx.assume(z3.And(p >= 0, p <= 255))
            mapper = P.call(ctx, add_prefix[0], [VecV(list(ctx.prefix))], tyenv={})
        else:
            def tagger(ctx, v):
                seg = deref(v)
                calls.append(list(seg.items))
                return VecV([BEGIN] + list(seg.items) + [END])
            mapper = PyFn(tagger)
        if mode.startswith("line"):
            ctx.assume(ctx.marker == 10)
            mw = P.call(ctx, line_mapped[0], [Ref(Box(sink)), mapper], tyenv={})
        else:
            mw = P.call(ctx, mapped[0], [Ref(Box(sink)), ctx.marker, mapper], tyenv={})
        mwb = Box(mw)
        for ch in chunks:
            r = deref(P.call(ctx, mw_write, [Ref(mwb), ch]))
            if r.variant != "Ok":
                return {"err": True}
        P.call(ctx, mw_flush, [Ref(mwb)])
        if mode.endswith("unwrap"):
            inner = P.call(ctx, mw_unwrap[0], [mwb.val], tyenv={})
            # the moved-out value is consumed by unwrap (its Drop must not emit anything further: inner is None)
        else:
            P.drop_value(ctx, Ref(mwb))
        return {"out": list(sink.items), "calls": calls}

    res = run.explore(P, entry, make_args, max_paths=2000000, max_depth=40)
    run.log(f"{len(res)} paths")
    pending = []
    modes = {}
    for ctx, (kind, out) in res:
        if kind != "return":
            run.inconclusive.append(f"path ends with {kind}: {out} (mode {getattr(ctx, 'mode', '?')})")
            continue
        modes[ctx.mode] = modes.get(ctx.mode, 0) + 1
        data = ctx.data[:ctx.ln]
        want = ctx.data + [ctx.marker] + getattr(ctx, "prefix", [])
        if out.get("err"):
            run.obligation()
            ans, m = run.check(ctx.pc, "write-returned-Err", want=want)
            if ans == "sat":
                pending.append((ctx, m, "write-error", None))
            continue
        if ctx.mode == "tee":
            run.obligation()
            ok = len(out["a"]) == len(data) and len(out["b"]) == len(data)
            cl = z3.And([x == y for x, y in zip(out["a"], data)] + [x == y for x, y in zip(out["b"], data)]) if ok and data else z3.BoolVal(ok)
            ans, m = run.check(ctx.pc + [z3.Not(cl)], "tee.both-get-input", want=want)
            if ans == "sat":
                pending.append((ctx, m, "tee:targets-differ-from-input", None))
            ans, m = run.check(ctx.pc, "witness", want=want)
            if ans == "sat":
                pending.append((ctx, m, None, None))
            continue
        # mapped writer: enumerate (by the solver) the marker patterns consistent with this path; under each the output must
        # be the concatenation of map(segment) over the marker-terminated segments and the non-empty remainder
        blocked = []
        npat = 0
        while True:
            ans, m = run.check(ctx.pc + blocked, "mapped.pattern", want=want)
            if ans == "unsat":
                break
            npat += 1
            if npat > 2 ** len(data):
                run.inconclusive.append("pattern enumeration did not terminate")
                break
            flags = [m.int(d) == m.int(ctx.marker) for d in data]
            pat = z3.And([(d == ctx.marker) if f else (d != ctx.marker) for d, f in zip(data, flags)]) if data else z3.BoolVal(True)
            blocked.append(z3.Not(pat))
            segs = expected_mapped(data, flags)
            exp = []
            for s in segs:
                exp += (list(ctx.prefix) + s) if ctx.mode.startswith("prefix") else ([BEGIN] + s + [END])
            got = out["out"]
            run.obligation()
            if len(got) != len(exp):
                cl = z3.BoolVal(False)
            else:
                eqs = []
                for g, e in zip(got, exp):
                    if isinstance(g, int) and isinstance(e, int):
                        if g != e:
                            eqs = [z3.BoolVal(False)]
                            break
                    else:
                        eqs.append(g == e)
                cl = z3.And(eqs) if eqs else z3.BoolVal(True)
            ans2, m2 = run.check(ctx.pc + [pat, z3.Not(cl)], "mapped.output-is-map-of-segments", want=want)
            if ans2 == "sat":
                sig = "mapped:empty-remainder-is-mapped" if (len(got) > len(exp) and (not data or flags[-1])) else "mapped:output-differs"
                pending.append((ctx, m2, sig, None))
                break
            pending.append((ctx, m, None, None))
            if npat >= 1 and len(pending) > 0 and run.tier == "quick":
                pass
        if npat == 0:
            run.inconclusive.append("infeasible path reported")
    run.extra["modes"] = modes
    # replay
    reqs = []
    for ctx, m, sig, _ in pending:
        data = [m.int(d) for d in ctx.data[:ctx.ln]]
        reqs.append({"op": "writer", "mode": ctx.mode, "marker": m.int(ctx.marker), "data": data, "cuts": ctx.cuts,
                     "prefix": [m.int(p) for p in getattr(ctx, "prefix", [])]})
    reals = run.replay.run(reqs)
    for (ctx, m, sig, _), req, real in zip(pending, reqs, reals):
        if "panic" in real or "error" in real:
            run.mismatch(f"replay driver failed: {real} on {req}")
            continue
        exp = spec_output(req)
        violates = real["out"] != exp
        if sig is None:
            # translation validation: the real output must equal what the symbolic path computed under this model
            if violates:
                run.mismatch(f"real code violates the property on a witness the symbolic path considers fine: {req} -> {real['out']}")
                continue
            run.stats["validated"] += 1
            run.sample({"mode": req["mode"], "data": req["data"], "marker": req["marker"], "cuts": req["cuts"], "out": real["out"]}, limit=6)
        else:
            run.stats["validated"] += 1
            run.candidate(sig, f"{req['mode']} data={req['data']} marker={req['marker']} cuts={req['cuts']} -> {real['out']} (expected {exp})", req, violates)


def spec_output(req):
    """reference semantics, concrete: what the inner writer(s) must have received"""
    data, marker = req["data"], req["marker"]
    if req["mode"] == "tee":
        return {"a": data, "b": data}
    if req["mode"].startswith("line"):
        marker = 10
    segs = expected_mapped(data, [d == marker for d in data])
    out = []
    for s in segs:
        out += (req["prefix"] + s) if req["mode"].startswith("prefix") else ([BEGIN] + s + [END])
    return out


def finalize(run):
    modes = run.extra.get("modes", {})
    for mname in ("tag-drop", "tag-unwrap", "prefix-drop", "line-tag-drop", "tee"):
        if not modes.get(mname):
            run.inconclusive.append(f"vacuity: mode {mname} never explored")


def replay(run, scen):
    real = run.replay.run([scen["scenario"]])[0]
    print(json.dumps({"real": real, "expected": spec_output(scen["scenario"])}))
    return 0


import re
