"""C04 — applying a layer environment follows the CNB modification rules.

Executed from MIR: `LayerEnv::{new, insert, apply, apply_to_empty}`, `LayerEnvDelta::{new, insert, apply, delimiter_for}`,
`ModificationBehavior::{cmp, partial_cmp}` (+ nested `index`), `Env::{new, insert, get, contains_key, clone}`.
Oracle: spec/env_rules.py.
"""
import json
import re
from mirsym import smt as z3
from mirsym.core import *
from mirsym import summ_core, summ_coll
from mirsym.summ_core import Ok, Err, Some, NONE, VecV, sval, S
from mirsym.run import Inconclusive
from spec import env_rules

BOUNDS = {"quick": dict(entries=2, names=["A", "B"]), "thorough": dict(entries=3, names=["A", "B"])}
SHARDS = {"quick": 14, "thorough": 15}
CRATES = ["libcnb"]
BEH = ["Append", "Default", "Delimiter", "Override", "Prepend"]
SCOPES = ["All", "Build", "Launch", ("Process", "p"), ("Process", "q")]
QUERY = ["All", "Build", "Launch", ("Process", "p"), ("Process", "r")]


def prepare(run):
    run.program(CRATES)


def scope_adt(sc):
    return Adt("Scope", sc, []) if isinstance(sc, str) else Adt("Scope", "Process", [sc[1]])


def scope_str(sc):
    return sc.lower() if isinstance(sc, str) else sc[1]


def main(run):
    b = BOUNDS[run.tier]
    K, NAMES = b["entries"], b["names"]
    run.bounds = {"entries": f"<= {K} inserts; the first two each any of 5 scopes (all, build, launch, process p, process q) x 5 behaviours x names {NAMES}; a third one (thorough) in {{all, process p}} x {{append, delim, override}} on {NAMES[0]}",
                  "values": "arbitrary strings (unbounded, may be empty)", "query scope": "all, build, launch, process p, unknown process r",
                  "starting environment": "each name unset or set to an arbitrary (possibly empty) string"}
    run.assumptions = ["OsString modelled as a string of code units; HashMap/BTreeMap as association lists (BTreeMap ordered by the key's Ord: "
                       "ModificationBehavior::cmp executed from MIR)"]
    run.outside = ["more than the stated number of entries/names"]
    P = run.program(CRATES)
    summ_core.install(P)
    summ_coll.install(P)
    find = lambda pat: [k for k, f in P.funcs.items() if re.search(pat, f.name)]

    def one(pat):
        ks = find(pat)
        if len(ks) != 1:
            raise Inconclusive(f"MIR function {pat} not unique: {len(ks)}")
        return ks[0]
    le_new = P.impl_index.get(("LayerEnv", None, "new"))
    le_insert = P.impl_index.get(("LayerEnv", None, "insert"))
    le_apply = P.impl_index.get(("LayerEnv", None, "apply"))
    env_new = P.impl_index.get(("Env", None, "new"))
    env_insert = P.impl_index.get(("Env", None, "insert"))
    env_get = P.impl_index.get(("Env", None, "get"))
    for nm, v in dict(le_new=le_new, le_insert=le_insert, le_apply=le_apply, env_new=env_new, env_insert=env_insert, env_get=env_get).items():
        if not v:
            raise Inconclusive(f"{nm} not found in MIR")
    run.encoded(P, [le_new, le_insert, le_apply, env_new, env_insert, env_get])

    def make_args(ctx):
        return []

    def entry(ctx):
        k = 1 + ctx.choose([True] * K, "n-entries")
        ents = []
        le = P.call(ctx, le_new, [], tyenv={})
        leb = Box(le)
        for i in range(k):
            if i < 2:
                sc = SCOPES[ctx.choose([True] * len(SCOPES), f"scope{i}")]
                beh = BEH[ctx.choose([True] * 5, f"beh{i}")]
                name = NAMES[ctx.choose([True] * len(NAMES), f"name{i}")]
            else:
                # a third insert multiplies the space by 50: it ranges over the shapes that interact with the first two
                sc = [SCOPES[0], SCOPES[3]][ctx.choose([True, True], f"scope{i}")]
                beh = ["Append", "Delimiter", "Override"][ctx.choose([True] * 3, f"beh{i}")]
                name = NAMES[0]
            val = z3.String(f"v{i}")
            ents.append((sc, beh, name, val))
            P.call(ctx, le_insert, [Ref(leb), scope_adt(sc), Adt("ModificationBehavior", beh, []), name, val], tyenv={})
        ctx.ents = ents
        q = QUERY[ctx.choose([True] * len(QUERY), "query")]
        ctx.q = q
        start = {}
        env = P.call(ctx, env_new, [], tyenv={})
        eb = Box(env)
        for n in NAMES:
            if ctx.choose([True, True], f"start-{n}") == 1:
                start[n] = z3.String(f"s{n}")
                P.call(ctx, env_insert, [Ref(eb), n, start[n]], tyenv={})
            else:
                start[n] = None
        ctx.start = start
        before = summ_core.clone_val(eb.val)
        res = P.call(ctx, le_apply, [Ref(leb), scope_adt(q), Ref(eb)], tyenv={})
        rb = Box(res)
        got = {}
        for n in NAMES + ["UNTOUCHED"]:
            r = deref(P.call(ctx, env_get, [Ref(rb), n], tyenv={}))
            got[n] = None if r.variant == "None" else sval(r.fields[0])
        after = {}
        for n in NAMES:
            r = deref(P.call(ctx, env_get, [Ref(eb), n], tyenv={}))
            after[n] = None if r.variant == "None" else sval(r.fields[0])
        nkeys = len(deref(rb.val).fields[0].items)
        return {"got": got, "input_after": after, "nkeys": nkeys}

    res = run.explore(P, entry, make_args, max_paths=5000000, max_depth=40)
    run.log(f"{len(res)} paths")
    pending = []
    nontrivial = 0
    for ctx, (kind, out) in res:
        if kind != "return":
            run.inconclusive.append(f"path ends with {kind}: {out}")
            continue
        exp = env_rules.apply_rules(ctx.ents, ctx.q, ctx.start)
        clauses = []
        for n in NAMES:
            is_set, v = exp[n]
            g = out["got"][n]
            if isinstance(is_set, bool):
                if not is_set:
                    clauses.append(z3.BoolVal(g is None))
                else:
                    clauses.append(S(g) == v if g is not None else z3.BoolVal(False))
            else:
                clauses.append(z3.And(is_set, S(g) == v) if g is not None else z3.Not(is_set))
        clauses.append(z3.BoolVal(out["got"]["UNTOUCHED"] is None))
        expected_keys = sum(1 for n in NAMES if exp[n][0] is True)
        clauses.append(z3.BoolVal(out["nkeys"] == expected_keys))
        for n in NAMES:     # the input environment is not modified
            a, s0 = out["input_after"][n], ctx.start[n]
            clauses.append(z3.BoolVal(a is None) if s0 is None else (S(a) == s0 if a is not None else z3.BoolVal(False)))
        want = [z3.String(f"v{i}") for i in range(len(ctx.ents))] + [z3.String(f"s{n}") for n in NAMES]
        run.obligation()
        ans, m = run.check(ctx.pc + [z3.Not(z3.And(clauses))], "apply-matches-rules", want=want)
        if ans == "sat":
            pending.append((ctx, m, out, "apply-differs-from-rules"))
        else:
            nontrivial += 1
            if run.tier == "thorough" or (nontrivial % 23 == 0):
                ans, m = run.check(ctx.pc, "witness", want=want)
                if ans == "sat":
                    pending.append((ctx, m, out, None))
    reqs = []
    for ctx, m, out, sig in pending:
        reqs.append({"op": "env-apply",
                     "entries": [{"scope": scope_str(sc), "behavior": beh.lower()[:len(beh)] if beh != "Delimiter" else "delim", "name": n,
                                  "value": m.str(v)} for sc, beh, n, v in ctx.ents],
                     "query": scope_str(ctx.q), "start": {n: (None if s is None else m.str(s)) for n, s in ctx.start.items()}})
    reals = run.replay.run(reqs)
    for (ctx, m, out, sig), req, real in zip(pending, reqs, reals):
        if "panic" in real or "error" in real:
            run.mismatch(f"replay driver failed: {real} on {req}")
            continue
        exp = concrete_rules(req)
        viol = {k: v for k, v in real["env"].items()} != exp
        if sig is None:
            if viol:
                run.mismatch(f"real apply differs from the rules on a witness the symbolic path accepts: {req} -> {real['env']} expected {exp}")
                continue
            run.stats["validated"] += 1
            run.sample({"entries": req["entries"], "query": req["query"], "start": req["start"], "result": real["env"]}, limit=6)
        else:
            run.stats["validated"] += 1
            run.candidate(sig, f"{req['entries']} query={req['query']} start={req['start']} -> {real['env']} (rules: {exp})", req, viol)


def concrete_rules(req):
    """the same rules evaluated concretely (python), for confirming counterexamples on the real build"""
    cur = {k: v for k, v in req["start"].items() if v is not None}
    q = req["query"]
    groups = ["all"] if q == "all" else ["all", q]
    for g in groups:
        table = {}
        for e in req["entries"]:
            if e["scope"] == g:
                table[(e["behavior"], e["name"])] = e["value"]
        for name in sorted({n for (_, n) in table}):
            delim = table.get(("delim", name), "")
            for beh in ("append", "default", "override", "prepend"):
                if (beh, name) not in table:
                    continue
                val = table[(beh, name)]
                prev = cur.get(name)
                if beh == "override":
                    cur[name] = val
                elif beh == "default":
                    if prev is None:
                        cur[name] = val
                elif beh == "append":
                    cur[name] = (prev + delim + val) if prev else val
                else:
                    cur[name] = (val + delim + prev) if prev else val
    return cur


def replay(run, scen):
    real = run.replay.run([scen["scenario"]])[0]
    print(json.dumps({"real": real, "rules": concrete_rules(scen["scenario"])}))
    return 0
