"""C03 — layer env is persisted in the spec's on-disk layout and reads back unchanged.

Executed from MIR: `LayerEnv::{new, insert, write_to_layer_dir, read_from_layer_dir}`,
`LayerEnvDelta::{new, insert, write_to_env_dir, read_from_env_dir}`, `ModificationBehavior::cmp`.
Variable names are SMT strings (file names in directories with symbolic entries, mirsym/summ_dyn.py), values are SMT strings.
"""
import json
import os
import re
from mirsym import smt as z3
from mirsym.core import *
from mirsym import summ_core, summ_coll, summ_fs, summ_dyn
from mirsym.summ_core import Ok, Err, Some, NONE, VecV, sval, S
from mirsym.summ_fs import World, ABSENT, FILE, DIR
from mirsym.summ_dyn import DynDir, SymPath
from mirsym.run import Inconclusive

BOUNDS = {"quick": dict(name_len=2), "thorough": dict(name_len=4)}
SHARDS = {"quick": 14, "thorough": 15}
CRATES = ["libcnb"]
BEH = ["Append", "Default", "Delimiter", "Override", "Prepend"]
SUFFIX = {"Append": "append", "Default": "default", "Delimiter": "delim", "Override": "override", "Prepend": "prepend"}
SCOPES = ["All", "Build", "Launch", ("Process", "web")]
LD = "/L/n"
DIRS = {"All": f"{LD}/env", "Build": f"{LD}/env.build", "Launch": f"{LD}/env.launch", ("Process", "web"): f"{LD}/env.launch/web"}
ALPHA = None


def prepare(run):
    run.program(CRATES)


def alpha():
    # one representative per relevant class: letter, dot, a second letter, a non-UTF-8 byte
    return z3.Union(z3.Re("A"), z3.Re("."), z3.Re("x"), z3.Re("ÿ"))


def scope_adt(sc):
    return Adt("Scope", sc, []) if isinstance(sc, str) else Adt("Scope", "Process", [sc[1]])


def make_world(ctx):
    """layer dir with a bystander file; every env directory is absent or present with one arbitrary stale file left by an
    earlier write (symbolic presence, name and content) -- the previously written environment, kept symbolic"""
    w = World(ctx)
    w.add("/L", DIR)
    w.add(LD, DIR)
    w.add(f"{LD}/f", FILE, content="bystander")
    summ_dyn.enable(w, list(DIRS.values()))
    ctx.stale = {}
    for i, (sc, d) in enumerate(DIRS.items()):
        k = z3.Int(f"old_dir{i}")
        ctx.assume(z3.Or(k == ABSENT, k == DIR))
        if not ctx.thorough and i > 0:
            ctx.assume(k == z3.Int("old_dir0"))       # quick tier: the previous environment used every scope or none
        w.add(d, k)
        dd = DynDir()
        fk = z3.Int(f"old_file{i}")
        ctx.assume(z3.Or(fk == ABSENT, z3.And(fk == FILE, k == DIR)))
        from mirsym.summ_fs import Node
        dd.entries.append([z3.String(f"old_name{i}"), Node(fk, content=z3.String(f"old_val{i}"))])
        w.dyn[d] = dd
        ctx.stale[sc] = (k, fk)
    # env.launch/web can only exist inside env.launch
    ctx.assume(z3.Implies(w.fs[DIRS[("Process", "web")]].kind == DIR, w.fs[DIRS["Launch"]].kind == DIR))
    return w


def mk_entry(ctx, i, sc, beh, name_len):
    name = z3.String(f"w_n{i}")
    ctx.assume(z3.And(z3.InRe(name, z3.Plus(alpha())), z3.Length(name) <= name_len))
    return (sc, beh, name, z3.String(f"w_v{i}"))


def entries_for(ctx, name_len):
    """the new environment: empty | one entry (every scope x behaviour) | two entries in one scope (every behaviour pair)
    | two entries in two scopes (every scope pair; override + append)"""
    mode = ["empty", "single", "same-scope", "cross-scope"][ctx.choose([True] * 4, "shape")]
    ctx.shape = mode
    if mode == "empty":
        return []
    pick = lambda xs, lab: xs[ctx.choose([True] * len(xs), lab)]
    if mode == "single":
        return [mk_entry(ctx, 0, pick(SCOPES, "scope0"), pick(BEH, "beh0"), name_len)]
    if mode == "same-scope":
        sc = pick(SCOPES, "scope")
        return [mk_entry(ctx, 0, sc, pick(BEH, "beh0"), name_len), mk_entry(ctx, 1, sc, pick(BEH, "beh1"), name_len)]
    return [mk_entry(ctx, 0, pick(SCOPES, "scope0"), "Override", name_len), mk_entry(ctx, 1, pick(SCOPES, "scope1"), "Append", name_len)]


def main(run):
    b = BOUNDS[run.tier]
    run.bounds = {"previous environment": "every env directory absent or present with one arbitrary stale file (symbolic name and content)",
                  "new environment": "empty | 1 entry (4 scopes x 5 behaviours) | 2 entries in one scope (all behaviour pairs) | 2 entries in two scopes (all scope pairs)",
                  "read side": "env/, env.build/ or env.launch/ holding two files <stem><tail> (stem an SMT string over the same alphabet, tail one of '', the five suffixes, '.bogus', '.') with arbitrary contents and optionally a sub-directory",
                  "entry": f"name = SMT string over {{A . x 0xFF}}, length 1..{b['name_len']}; value = arbitrary string", "bystander": "one plain file in the layer"}
    run.assumptions = ["OsString = string of code units (0xFF stands for a non-UTF-8 byte)", "names contain neither '/' nor NUL (the statement's quantifier)",
                       "Path::file_stem/extension as documented by std (split at the last dot; leading-dot rule)"]
    run.outside = ["longer names/values, more entries", "more than two foreign files per directory on the read side"]
    P = run.program(CRATES)
    summ_core.install(P)
    summ_coll.install(P)
    summ_fs.install(P)
    summ_dyn.install(P)
    le_new = P.impl_index.get(("LayerEnv", None, "new"))
    le_insert = P.impl_index.get(("LayerEnv", None, "insert"))
    le_write = P.impl_index.get(("LayerEnv", None, "write_to_layer_dir"))
    le_read = P.impl_index.get(("LayerEnv", None, "read_from_layer_dir"))
    for nm, v in dict(new=le_new, insert=le_insert, write=le_write, read=le_read).items():
        if not v:
            raise Inconclusive(f"LayerEnv::{nm} not found in MIR")
    run.encoded(P, [le_new, le_insert, le_write, le_read])

    @P.summary("OsStr::to_str", "Path::to_str")
    def _to_str(ctx, c):
        v = sval(c.args[0])
        if isinstance(v, str):
            return Some(v) if "ÿ" not in v else NONE
        if ctx.branch(z3.Not(z3.Contains(S(v), z3.StringVal("ÿ"))), "utf8"):
            return Some(v)
        return NONE

    def build_env(ctx, ents):
        le = P.call(ctx, le_new, [], tyenv={})
        leb = Box(le)
        for sc, beh, name, val in ents:
            P.call(ctx, le_insert, [Ref(leb), scope_adt(sc), Adt("ModificationBehavior", beh, []), name, val], tyenv={})
        return leb

    def entry(ctx):
        new = entries_for(ctx, b["name_len"])
        ctx.new = new
        neb = build_env(ctx, new)
        r2 = deref(P.call(ctx, le_write, [Ref(neb), LD], tyenv={}))
        if r2.variant != "Ok":
            return {"write": "Err"}
        snap = disk(ctx)
        r3 = deref(P.call(ctx, le_read, [LD], tyenv={}))
        if r3.variant != "Ok":
            return {"write": "Ok", "disk": snap, "read": "Err", "err": repr(deref(r3.fields[0]))}
        return {"write": "Ok", "disk": snap, "read": "Ok", "readback": r3.fields[0], "written": neb.val}

    def disk(ctx):
        w = ctx.world
        out = {}
        for sc, d in DIRS.items():
            ex = w.get(d).kind
            files = []
            if d in w.dyn:
                files = [(n, node.kind, node.content) for n, node in w.dyn[d].entries]
            out[sc] = (ex, files)
        return out

    def expected_files(ents):
        """spec layout: last insert with the same (scope, behaviour, name) wins; file NAME.<suffix> holds the value"""
        exp = {sc: [] for sc in DIRS}
        for i, (sc, beh, name, val) in enumerate(ents):
            shadowed = [z3.And(name == n2) for (sc2, beh2, n2, v2) in ents[i + 1:] if sc2 == sc and beh2 == beh]
            live = z3.Not(z3.Or(shadowed)) if shadowed else z3.BoolVal(True)
            exp[sc].append((live, z3.Concat(name, z3.StringVal("." + SUFFIX[beh])), val))
        return exp

    def delta_items(delta):
        m = deref(deref(delta).fields[0])
        return [(deref(k).fields[0].variant, sval(deref(k).fields[1]), sval(v)) for k, v in m.items]

    def env_view(le):
        le = deref(le)
        idx = lambda f: P.field_index("LayerEnv", f)
        view = {"All": delta_items(le.fields[idx("all")]), "Build": delta_items(le.fields[idx("build")]), "Launch": delta_items(le.fields[idx("launch")])}
        procs = deref(le.fields[idx("process")])
        view["process"] = {sval(k): delta_items(v) for k, v in procs.items}
        view["paths"] = (delta_items(le.fields[idx("layer_paths_build")]), delta_items(le.fields[idx("layer_paths_launch")]))
        return view

    def same_items(a, b2):
        """two entry lists denote the same map (as sets)"""
        def covers(x, y):
            return z3.And([z3.Or([z3.And(z3.BoolVal(bx == by), S(nx) == S(ny), S(vx) == S(vy)) for by, ny, vy in y] or [z3.BoolVal(False)]) for bx, nx, vx in x] or [z3.BoolVal(True)])
        return z3.And(covers(a, b2), covers(b2, a))

    def world(ctx):
        ctx.thorough = run.tier == "thorough"
        return make_world(ctx)
    res = run.explore(P, entry, lambda ctx: [], world, max_paths=3000000, max_depth=50)
    run.log(f"{len(res)} paths")
    pending = []
    outcomes = {}
    for ctx, (kind, out) in res:
        if kind != "return":
            run.inconclusive.append(f"path ends with {kind}: {str(out)[:200]}")
            continue
        key = out["write"] + "/" + out.get("read", "-")
        outcomes[key] = outcomes.get(key, 0) + 1
        want = [z3.String(f"w_{x}{i}") for x in ("n", "v") for i in range(2)] + [z3.Int(f"old_dir{i}") for i in range(4)] + \
               [z3.Int(f"old_file{i}") for i in range(4)] + [z3.String(f"old_name{i}") for i in range(4)] + [z3.String(f"old_val{i}") for i in range(4)]
        clauses = {}
        if out["write"] != "Ok":
            clauses["write-succeeds"] = z3.BoolVal(False)
        else:
            exp = expected_files(ctx.new)
            w = ctx.world
            lay = []
            for sc, d in DIRS.items():
                ex, files = out["disk"][sc]
                live_files = [(n, c, (z3.BoolVal(True) if isinstance(k, int) else k != ABSENT)) for n, k, c in files if not (isinstance(k, int) and k == ABSENT)]
                e_files = exp[sc]
                any_live = z3.Or([l for l, _, _ in e_files]) if e_files else z3.BoolVal(False)
                if sc == "Launch":      # env.launch/ also exists as the parent of env.launch/<process>/
                    any_live = z3.Or(any_live, *[l for l, _, _ in exp[("Process", "web")]])
                # the directory exists iff it has entries (libcnb avoids empty env dirs; absence is what the spec needs)
                lay.append(z3.BoolVal(ex == DIR) == any_live if isinstance(ex, int) else (ex == DIR) == any_live)
                for n, c, present in live_files:
                    lay.append(z3.Implies(present, z3.Or([z3.And(l, S(n) == en, S(c) == S(ev)) for l, en, ev in e_files] or [z3.BoolVal(False)])))
                for l, en, ev in e_files:
                    lay.append(z3.Implies(l, z3.Or([z3.And(present, S(n) == en, S(c) == S(ev)) for n, c, present in live_files] or [z3.BoolVal(False)])))
            clauses["disk-is-spec-layout-of-new-env"] = z3.And(lay)
            ctx.lay_parts = lay
            f = w.fs[f"{LD}/f"]
            clauses["bystander-untouched"] = z3.BoolVal(f.kind == FILE and f.content == "bystander")
            if out["read"] != "Ok":
                clauses["read-back-succeeds"] = z3.BoolVal(False)
            else:
                rv, wv = env_view(out["readback"]), env_view(out["written"])
                eqs = [same_items(rv[s], wv[s]) for s in ("All", "Build", "Launch")]
                for pn in set(rv["process"]) | set(wv["process"]):
                    eqs.append(same_items(rv["process"].get(pn, []), wv["process"].get(pn, [])))
                eqs.append(z3.BoolVal(not rv["paths"][0] and not rv["paths"][1]))       # no bin/lib/... directories in this layer
                clauses["read-back-equals-written"] = z3.And(eqs)
        violated = None
        for cname, cl in clauses.items():
            run.obligation()
            ans, m = run.check(ctx.pc + [z3.Not(cl)], cname, want=want, timeout_ms=20000)
            if ans == "sat":
                violated = cname
                pending.append((ctx, m, out, cname))
                if os.environ.get("VERIF_DEBUG") and cname.startswith("disk") and m.m is not None:
                    bad = [str(x)[:300] for x in ctx.lay_parts if not z3.is_true(m.m.eval(x, model_completion=True))]
                    run.log(f"layout conjunct violated: {bad[:2]} shape {[(e[0], e[1]) for e in ctx.new]} disk {[(str(sc), str(ex), [(str(n)[:40], str(k)) for n, k, c in files]) for sc, (ex, files) in out['disk'].items()]}")
                break
        if violated is None:
            ans, m = run.check(ctx.pc, "witness", want=want, timeout_ms=20000)
            if ans == "sat":
                pending.append((ctx, m, out, None))
    run.extra["outcomes"] = outcomes
    if run.tier == "quick":
        cands = [p for p in pending if p[3] is not None]
        wit = [p for p in pending if p[3] is None]
        # one candidate per (clause, scopes/behaviours shape) is enough for classification; all are replayed up to a cap
        pending = cands[:60] + wit[::max(1, len(wit) // 100)]

    def enc(s):
        return [ord(ch) for ch in s]

    def ents_json(ctx, m, ents):
        return [{"scope": sc.lower() if isinstance(sc, str) else sc[1], "behavior": SUFFIX[beh], "name": enc(m.str(n)), "value": enc(m.str(v))}
                for sc, beh, n, v in ents]
    def stale_json(ctx, m):
        out = []
        for i, (sc, d) in enumerate(DIRS.items()):
            if m.int(z3.Int(f"old_dir{i}")) == DIR:
                e = {"dir": d[len(LD) + 1:]}
                if m.int(z3.Int(f"old_file{i}")) == FILE:
                    nm = m.str(z3.String(f"old_name{i}")) or "stale"
                    if "/" in nm or "\0" in nm or nm in (".", ".."):
                        nm = "stale"
                    e["file"] = enc(nm)
                    e["content"] = enc(m.str(z3.String(f"old_val{i}")))
                out.append(e)
        return out
    reqs = [{"op": "env-roundtrip", "stale": stale_json(ctx, m), "new": ents_json(ctx, m, ctx.new)} for ctx, m, out, sig in pending]
    reals = run.replay.run(reqs)
    for (ctx, m, out, sig), req, real in zip(pending, reqs, reals):
        if "panic" in real or "error" in real:
            run.mismatch(f"replay driver failed: {real} on {req}")
            continue
        viol = real_violation(req, real)
        if sig is None:
            if viol:
                run.mismatch(f"real code violates the property where the symbolic path does not: {viol}; {req}")
                continue
            run.stats["validated"] += 1
            run.sample({"new": [(e["scope"], e["behavior"], bytes(e["name"]).decode("latin1")) for e in req["new"]], "files": real["files"]}, limit=6)
        else:
            run.stats["validated"] += 1
            has_proc = any(e["scope"] == "web" for e in req["new"])
            role = "process-scope-not-read-back" if (sig.startswith("read-back") and has_proc) else sig
            run.candidate(role, f"new={[(e['scope'], e['behavior'], bytes(e['name']).decode('latin1')) for e in req['new']]} -> {viol}", req, bool(viol))


    read_side(run, P, le_read, env_view, b)


TAILS = ["", ".append", ".default", ".delim", ".override", ".prepend", ".bogus", "."]
TAIL_BEH = {".append": "Append", ".default": "Default", ".delim": "Delimiter", ".override": "Override", ".prepend": "Prepend"}


def read_side(run, P, le_read, env_view, b):
    """spec-shaped env directories that libcnb did not write: two files `<stem><tail>` (stem an SMT string that may contain dots and a
    non-UTF-8 byte, tail one of TAILS) and optionally a sub-directory, in env/, env.build/ or env.launch/; reading must give exactly:
    known suffix -> that behaviour for <stem>; no suffix (no dot after the first character) -> override; anything else ignored."""
    RD = {"All": "env", "Build": "env.build", "Launch": "env.launch"}

    def world(ctx):
        w = World(ctx)
        w.add("/L", DIR)
        w.add(LD, DIR)
        summ_dyn.enable(w, [f"{LD}/{d}" for d in RD.values()])
        return w

    def entry(ctx):
        w = ctx.world
        sc = ["All", "Build", "Launch"][ctx.choose([True] * 3, "read-scope")]
        d = f"{LD}/{RD[sc]}"
        w.add(d, DIR)
        dd = DynDir()
        files = []
        from mirsym.summ_fs import Node
        for i in range(2):
            tail = TAILS[ctx.choose([True] * len(TAILS), f"tail{i}")]
            stem, val = z3.String(f"r_stem{i}"), z3.String(f"r_val{i}")
            ctx.assume(z3.And(z3.InRe(stem, z3.Plus(alpha())), z3.Length(stem) <= b["name_len"]))
            name = summ_core.concat([stem, tail]) if tail else stem
            ctx.assume(z3.And(S(name) != z3.StringVal("."), S(name) != z3.StringVal("..")))
            dd.entries.append([name, Node(FILE, content=val)])
            files.append((stem, tail, val, name))
        ctx.assume(S(files[0][3]) != S(files[1][3]))
        # two files must not denote the same (behaviour, variable): which one wins would depend on the directory order
        b0, b1 = TAIL_BEH.get(files[0][1], "Override" if files[0][1] == "" else None), TAIL_BEH.get(files[1][1], "Override" if files[1][1] == "" else None)
        if b0 is not None and b0 == b1:
            ctx.assume(files[0][0] != files[1][0])
        has_sub = sc != "Launch" and ctx.choose([True, True], "sub-directory") == 1
        if has_sub:
            dd.entries.append(["subdir", Node(DIR)])
        w.dyn[d] = dd
        ctx.rs = dict(scope=sc, files=files, sub=has_sub)
        r = deref(P.call(ctx, le_read, [LD], tyenv={}))
        return {"read": r.variant, "env": r.fields[0] if r.variant == "Ok" else None, "err": repr(deref(r.fields[0])) if r.variant != "Ok" else None}

    res = run.explore(P, entry, lambda ctx: [], world, max_paths=2000000, max_depth=50)
    run.log(f"read side: {len(res)} paths")
    pending = []
    n = 0
    for ctx, (kind, out) in res:
        if kind != "return":
            run.inconclusive.append(f"read-side path ends with {kind}: {str(out)[:200]}")
            continue
        n += 1
        rs = ctx.rs
        want = [x for f in rs["files"] for x in (f[0], f[2])]
        exp = []
        for stem, tail, val, name in rs["files"]:
            if tail in TAIL_BEH:
                exp.append((z3.BoolVal(True), TAIL_BEH[tail], stem, val))
            elif tail == "":
                # suffix-less <=> no dot after the first character (std: the extension is what follows the last dot that is not the first character)
                inner = z3.Contains(z3.SubString(stem, 1, z3.Length(stem)), z3.StringVal("."))
                exp.append((z3.Not(inner), "Override", stem, val))
        run.obligation()
        if out["read"] != "Ok":
            cl = z3.BoolVal(False)
            sig = "read:spec-shaped-directory-rejected"
        else:
            view = env_view(out["env"])
            got = view[rs["scope"]]
            others = [it for s_ in ("All", "Build", "Launch") if s_ != rs["scope"] for it in view[s_]] + [it for v in view["process"].values() for it in v]
            cs = [z3.BoolVal(not others)]
            for c, beh, nm, val in exp:
                cs.append(z3.Implies(c, z3.Or([z3.And(z3.BoolVal(gb == beh), S(gn) == nm, S(gv) == val) for gb, gn, gv in got] or [z3.BoolVal(False)])))
            for gb, gn, gv in got:
                cs.append(z3.Or([z3.And(c, z3.BoolVal(gb == beh), S(gn) == nm, S(gv) == val) for c, beh, nm, val in exp] or [z3.BoolVal(False)]))
            cl = z3.And(cs)
            sig = "read:environment-differs-from-spec-reading"
        ans, m = run.check(ctx.pc + [z3.Not(cl)], sig, want=want, timeout_ms=20000)
        if ans == "sat":
            pending.append((ctx, m, out, sig, exp))
        elif n % (9 if run.tier == "quick" else 4) == 0:
            ans, m = run.check(ctx.pc, "witness", want=want, timeout_ms=20000)
            if ans == "sat":
                pending.append((ctx, m, out, None, exp))
    run.extra.setdefault("outcomes", {})["read-side"] = n
    cands = [p for p in pending if p[3]]
    wit = [p for p in pending if not p[3]]
    pending = cands[:20] + wit[:120]
    enc = lambda s_: [ord(ch) for ch in s_]
    reqs = []
    for ctx, m, out, sig, exp in pending:
        rs = ctx.rs
        files = [{"name": enc(summ_core.eval_str(ctx, m, nm)), "content": enc(m.str(val)), "kind": "file"} for stem, tail, val, nm in rs["files"]]
        if rs["sub"]:
            files.append({"name": enc("subdir"), "kind": "dir"})
        expected = []
        for (stem, tail, val, nm) in rs["files"]:
            st = m.str(stem)
            if tail in TAIL_BEH:
                expected.append({"scope": rs["scope"].lower(), "behavior": SUFFIX[TAIL_BEH[tail]], "name": enc(st), "value": enc(m.str(val))})
            elif tail == "" and "." not in st[1:]:
                expected.append({"scope": rs["scope"].lower(), "behavior": "override", "name": enc(st), "value": enc(m.str(val))})
        reqs.append({"op": "env-read", "dir": RD[rs["scope"]], "files": files, "expected": expected})
    reals = run.replay.run(reqs)
    for (ctx, m, out, sig, exp), req, real in zip(pending, reqs, reals):
        if "panic" in real or "error" in real:
            run.mismatch(f"replay driver failed: {real} on {req}")
            continue
        ok_real = real.get("read") == "Ok" and real.get("equal")
        names = [bytes(f["name"]).decode("latin1") for f in req["files"]]
        if sig is None:
            if not ok_real or out["read"] != "Ok":
                run.mismatch(f"read side: model read={out['read']} and spec-conform, real {real} for files {names}")
                continue
            run.stats["validated"] += 1
            run.sample({"read-side files": names, "expected": [(e["behavior"], bytes(e["name"]).decode("latin1")) for e in req["expected"]]}, limit=6)
        else:
            run.stats["validated"] += 1
            run.candidate(sig, f"files {names} in {req['dir']}/ read as {real.get('debug', real.get('read'))}; expected {[(e['behavior'], bytes(e['name']).decode('latin1')) for e in req['expected']]}", req, not ok_real)


def real_violation(req, real):
    if real.get("write") != "Ok":
        return f"write failed: {real.get('write')}"
    table = {}
    for e in req["new"]:
        d = {"all": "env", "build": "env.build", "launch": "env.launch"}.get(e["scope"], "env.launch/" + e["scope"])
        table[(d, bytes(e["name"]).decode("latin1") + "." + e["behavior"])] = bytes(e["value"]).decode("latin1")
    exp = sorted([k[0] + "/" + k[1], v] for k, v in table.items())
    got = sorted([f["path"], f["content"]] for f in real["files"])
    if got != exp:
        return f"files {got} expected {exp}"
    if real.get("bystander") != "bystander":
        return "bystander file changed"
    if real.get("read") != "Ok":
        return f"read back failed: {real.get('read')}"
    if not real.get("equal"):
        return "read-back environment differs from the written one"
    return None


def finalize(run):
    o = run.extra.get("outcomes", {})
    if not o.get("Ok/Ok"):
        run.inconclusive.append(f"vacuity: no path with successful write and read-back ({o})")


def replay(run, scen):
    real = run.replay.run([scen["scenario"]])[0]
    if scen["scenario"].get("op") == "env-read":
        print(json.dumps({"real": real, "violation": None if (real.get("read") == "Ok" and real.get("equal")) else "environment read differs from the spec reading"}))
        return 0
    print(json.dumps({"real": real, "violation": real_violation(scen["scenario"], real)}))
    return 0
