"""C15 — cargo libcnb package writes complete buildpack directories, also over stale output.

Executed from MIR: libcnb-cargo `package::command::execute` (package-dir resolution, the build-order loop with
`remove_dir_all` + `create_dir_all` of every output directory, stdout), `create_packaged_buildpack_dir_resolver`,
`default_buildpack_directory_name`, `get_dependencies` + petgraph's DfsPostOrder, `package_buildpack`,
`determine_buildpack_kind`, `package_libcnb_buildpack`, `assemble_buildpack_directory`, `create_file_symlink`,
`package_composite_buildpack`, `normalize_package_descriptor` (C14's code).  The two stderr helpers
(`eprint_compiled_buildpack_success`, `eprint_pack_command_hint`: floating-point size formatting) are skipped.
Environment stubs (cargo and foreign crates): `find_cargo_workspace_root_dir` (cargo locate-project), the directory walk
+ per-buildpack toml reading of `build_libcnb_buildpacks_dependency_graph` (the harness hands the workspace's nodes to the
real `create_dependency_graph`), `cargo_metadata::MetadataCommand::exec`, `build_buildpack_binaries` (cargo build: on
success the binaries exist under the target directory), `pathdiff::diff_paths`, cross-compile assistance (switched off).
The same invocation is executed twice (self-composition): once with the output directories absent, once pre-seeded with
what an earlier or interrupted run can leave; results, stdout and the trees under the package directory must agree and
match the layout of the statement.  File contents are SMT strings.
"""
import json
from mirsym import smt as z3
from mirsym.core import *
from mirsym import summ_core, summ_coll, summ_fs, summ_serde, summ_uri, summ_proc
from mirsym.summ_core import Ok, Err, Some, NONE, VecV, sval, S
from mirsym.summ_coll import AssocV
from mirsym.summ_fs import World, Node, ABSENT, FILE, DIR, LINK
from mirsym.summ_serde import TVal, TomlText
from mirsym.run import Inconclusive
from harness import C09, C13

SHARDS = {"quick": 12, "thorough": 14}
CRATES = ["libcnb-cargo", "libcnb-package", "libcnb-data", "libcnb-common", "petgraph"]
WS = "/ws"
TARGET = "x86_64-unknown-linux-musl"
STALE = ["absent", "empty-dir", "complete-old-output", "partial-no-descriptor", "foreign-only"]


def prepare(run):
    run.program(CRATES, src_crates=["libcnb-cargo", "libcnb-package", "libcnb-data", "libcnb-common"])


class KindHook:
    """BuildpackDescriptor as read by determine_buildpack_kind: component or composite by the file's tag (parsing: C08)"""
    def deserialize(self, ctx, ty, tv):
        tag = tv.attrs.get("descriptor")
        if tag == "component":
            return Ok(Adt("BuildpackDescriptor", "Component", [Opaque("ComponentBuildpackDescriptor", tv.name)]))
        if tag == "composite":
            return Ok(Adt("BuildpackDescriptor", "Composite", [Opaque("CompositeBuildpackDescriptor", tv.name)]))
        return Err(summ_serde.SerdeErr("custom", "not a buildpack descriptor"))

    def missing(self, ctx, md):
        return Err(summ_serde.SerdeErr("missing_field", md.field))


def main(run):
    quick = run.tier == "quick"
    run.bounds = {"workspace": "libcnb.rs buildpack a/x (1 or 2 binary targets) [+ libcnb.rs buildpack b/y] [+ composite c/z depending on libcnb:a/x, a relative path to a non-libcnb buildpack and a docker image]",
                  "invocation": "from the workspace root, from a/x's directory or from the composite's directory; dev | release; default --package-dir, `out-dir` or `out dir` (relative to the invocation directory)",
                  "stale output": f"each selected output directory independently {STALE}: an old complete output (buildpack.toml, bin/build, bin/detect link, .libcnb-cargo/additional-bin/old, package.toml) with SMT-string contents, a partial one without buildpack.toml, or foreign files only" + ("" if not quick else " (quick: one directory varied at a time)")}
    run.assumptions = ["cargo build succeeds and leaves the binaries under <target dir>/<triple>/<profile>/<name> (stub contract)", "cargo locate-project reports the workspace root",
                       "an earlier run leaves directories (with arbitrary content), never a regular file or a symlink at an output directory's own path"]
    run.outside = ["what cargo compiles", "the ignore crate's walk and .gitignore semantics", "reading buildpack.toml/package.toml into graph nodes (C08/C13)", "cross-compile assistance", "failing cargo builds"]
    P = run.program(CRATES, src_crates=["libcnb-cargo", "libcnb-package", "libcnb-data", "libcnb-common"])
    C13.install(P)
    summ_coll.install(P)
    summ_fs.install(P)
    summ_serde.install(P)
    summ_uri.install(P)
    summ_proc.install(P)
    C09.install_regex(P, [])
    for (st, prm), d in getattr(P, "type_defaults_src", {}).items():
        P.type_defaults[(st, prm)] = P.type_aliases.get(d, d)
    P.type_hooks["BuildpackDescriptor"] = KindHook()

    def fn(name):
        ks = [k for k, f in P.funcs.items() if f is not None and (f.name == name or f.name.endswith("::" + name))]
        if len(ks) != 1:
            raise Inconclusive(f"function {name}: {len(ks)} candidates")
        return ks[0]
    f_exec = fn("package::command::execute") if [k for k, f in P.funcs.items() if f is not None and f.name.endswith("package::command::execute")] else fn("execute")
    f_graph = fn("create_dependency_graph")
    run.encoded(P, [f_exec, f_graph, fn("get_dependencies"), fn("package_buildpack"), fn("package_libcnb_buildpack"), fn("package_composite_buildpack"),
                    fn("assemble_buildpack_directory"), fn("determine_buildpack_kind"), fn("normalize_package_descriptor"), fn("create_packaged_buildpack_dir_resolver")])

    @P.summary("find_cargo_workspace_root_dir")
    def _root(ctx, c):
        return Ok(WS)

    @P.summary("build_libcnb_buildpacks_dependency_graph")
    def _graph(ctx, c):
        nodes = VecV([P.mk_struct("BuildpackDependencyGraphNode", buildpack_id=Adt("BuildpackId", None, [b["id"]]), path=b["dir"],
                                  dependencies=VecV([Adt("BuildpackId", None, [d]) for d in b["deps"]])) for b in ctx.ws])
        r = deref(P.call(ctx, f_graph, [nodes], tyenv={"T": "BuildpackDependencyGraphNode", "I": "BuildpackId", "E": "Infallible"}))
        if r.variant != "Ok":
            raise Unsupported(f"workspace graph rejected: {r!r}")
        return Ok(r.fields[0])

    @P.summary("MetadataCommand::new", "MetadataCommand::manifest_path")
    def _mc(ctx, c):
        if c.key.endswith("new"):
            return Opaque("MetadataCommand", None)
        mc = c.args[0]
        deref(mc).data = sval(c.args[1])
        return mc

    @P.summary("MetadataCommand::exec")
    def _mexec(ctx, c):
        return Ok(Opaque("Metadata", deref(c.args[0]).data))

    @P.summary("build_buildpack_binaries", "build::build_buildpack_binaries")
    def _bbb(ctx, c):
        proj = sval(c.args[0])
        prof = deref(c.args[2]).variant
        b = next(x for x in ctx.ws if x["dir"] == proj)
        tdir = f"{WS}/target/{TARGET}/{'debug' if prof == 'Dev' else 'release'}"
        add = AssocV(False)
        for n_ in b["bins"][1:]:
            summ_coll.insert(ctx, add, n_, f"{tdir}/{n_}")
        ctx.cargo_builds.append((proj, prof))
        return Ok(P.mk_struct("BuildpackBinaries", buildpack_target_binary_path=f"{tdir}/{b['bins'][0]}", additional_target_binary_paths=add))

    @P.summary("pathdiff::diff_paths", "diff_paths")
    def _diff(ctx, c):
        return NONE

    @P.summary("eprint_compiled_buildpack_success", "eprint_pack_command_hint")
    def _diag(ctx, c):
        return UNIT          # stderr diagnostics (directory size as f64, relative paths): no obligation in the property

    @P.summary("Metadata::len")
    def _mlen(ctx, c):
        return 0

    def stale_dir(ctx, w, d, kind, tag):
        """what an earlier or interrupted run can have left in output directory d"""
        w.add(d, DIR if kind != "absent" else ABSENT)
        s = lambda n_: z3.String(f"stale_{tag}_{n_}")
        nodes = {}
        if kind in ("complete-old-output", "partial-no-descriptor"):
            if kind == "complete-old-output":
                nodes[d + "/buildpack.toml"] = (FILE, s("descriptor"))
                nodes[d + "/package.toml"] = (FILE, s("package"))
            nodes[d + "/bin"] = (DIR, None)
            nodes[d + "/bin/build"] = (FILE, s("build"))
            nodes[d + "/bin/detect"] = (LINK, "build")
            nodes[d + "/.libcnb-cargo"] = (DIR, None)
            nodes[d + "/.libcnb-cargo/additional-bin"] = (DIR, None)
            nodes[d + "/.libcnb-cargo/additional-bin/old-helper"] = (FILE, s("helper"))
        if kind in ("foreign-only", "complete-old-output"):
            nodes[d + "/NOTES.txt"] = (FILE, s("notes"))
        for p_, (k, cnt) in nodes.items():
            if k == LINK:
                w.add(p_, LINK, targets=[cnt])
            else:
                w.add(p_, k, content=cnt)

    def make_ws(ctx):
        two_bins = ctx.choose([True, True], "a-bins") == 1
        has_b = ctx.choose([True, True], "buildpack-b") == 1
        has_c = ctx.choose([True, True], "composite") == 1
        ws = [dict(id="a/x", dir=f"{WS}/buildpacks/a", kind="libcnb", bins=["a-bp"] + (["helper"] if two_bins else []), deps=[])]
        if has_b:
            ws.append(dict(id="b/y", dir=f"{WS}/buildpacks/b", kind="libcnb", bins=["b-bp"], deps=[]))
        if has_c:
            ws.append(dict(id="c/z", dir=f"{WS}/meta/c", kind="composite", bins=[], deps=["a/x"]))
        return ws

    def setup_world(ctx, w, ws, profile, pkg_dir, stale):
        for d in ("/ws", f"{WS}/buildpacks", f"{WS}/meta", f"{WS}/target", f"{WS}/target/{TARGET}", f"{WS}/target/{TARGET}/debug", f"{WS}/target/{TARGET}/release", f"{WS}/other-bp"):
            w.add(d, DIR)
        w.add(f"{WS}/other-bp/buildpack.toml", FILE, content="not-libcnb")
        for b in ws:
            w.add(b["dir"], DIR)
            tree = TVal(b["id"], kind="table", entries=[], attrs={"descriptor": "component" if b["kind"] == "libcnb" else "composite"})
            n = w.add(b["dir"] + "/buildpack.toml", FILE, content=TomlText(True, tree))
            n.raw = z3.String("descriptor_" + b["id"].replace("/", "_"))
            if b["kind"] == "libcnb":
                w.add(b["dir"] + "/Cargo.toml", FILE, content="[package]")
                for n_ in b["bins"]:
                    for prof in ("debug", "release"):
                        w.add(f"{WS}/target/{TARGET}/{prof}/{n_}", FILE, content=z3.String(f"bin_{n_}_{prof}"))
            else:
                deps = [TVal("d0", kind="table", entries=[["uri", True, TVal("d0.uri", kind="str", scalar="libcnb:a/x")]]),
                        TVal("d1", kind="table", entries=[["uri", True, TVal("d1.uri", kind="str", scalar="../../other-bp")]]),
                        TVal("d2", kind="table", entries=[["uri", True, TVal("d2.uri", kind="str", scalar="docker://docker.io/heroku/procfile-cnb:2.0.0")]])]
                pt = TVal("pkg", kind="table", entries=[["buildpack", True, TVal("pkg.buildpack", kind="table", entries=[["uri", True, TVal("pkg.bp.uri", kind="str", scalar=".")]])],
                                                         ["dependencies", True, TVal("pkg.deps", kind="array", elems=deps)]])
                w.add(b["dir"] + "/package.toml", FILE, content=TomlText(True, pt))
        w.add(pkg_dir, ABSENT)
        w.add(f"{pkg_dir}/{TARGET}", ABSENT)
        outs = {}
        for b in ws:
            d = f"{pkg_dir}/{TARGET}/{profile}/{b['id'].replace('/', '_')}"
            outs[b["id"]] = d
        if any(k != "absent" for k in stale.values()):
            w.add(pkg_dir, DIR)
            w.add(f"{pkg_dir}/{TARGET}", DIR)
            w.add(f"{pkg_dir}/{TARGET}/{profile}", DIR)
        else:
            w.add(f"{pkg_dir}/{TARGET}/{profile}", ABSENT)
        for bid, d in outs.items():
            stale_dir(ctx, w, d, stale.get(bid, "absent"), bid.replace("/", "_"))
        return outs

    def run_once(ctx, w, args):
        ctx.world = w
        ctx.cargo_builds = []
        w.printed = []
        r = deref(P.call(ctx, f_exec, [Ref(Box(args))], tyenv={}))
        return r.variant, [t for k, t in w.printed if "eprint" not in k], list(ctx.cargo_builds)

    def entry(ctx):
        ws = make_ws(ctx)
        ctx.ws = ws
        inv = ctx.choose([True] * (2 + (1 if any(b["kind"] == "composite" for b in ws) else 0)), "invocation-dir")
        cwd = [WS, ws[0]["dir"], ws[-1]["dir"]][inv]
        release = ctx.choose([True, True], "profile") == 1
        custom = [None, "out-dir", "out dir"][ctx.choose([True] * 3, "package-dir")]
        profile = "release" if release else "debug"
        pkg_dir = f"{WS}/packaged" if not custom else posix_norm(cwd + "/" + custom)
        # which buildpacks get packaged (selected + dependencies)
        sel = [b["id"] for b in ws] if cwd == WS else ([ws[0]["id"]] if inv == 1 else ["c/z", "a/x"])
        sel = [s_ for s_ in sel if any(b["id"] == s_ for b in ws)]
        stale = {}
        if quick:
            which = ctx.choose([True] * len(sel), "stale-dir")
            stale[sel[which]] = STALE[1 + ctx.choose([True] * (len(STALE) - 1), "stale-kind")]
        else:
            for s_ in sel:
                stale[s_] = STALE[ctx.choose([True] * len(STALE), f"stale-{s_}")]
        ctx.cfg = dict(cwd=cwd, release=release, package_dir=custom, stale=stale, ws=[dict(b) for b in ws], profile=profile, pkg_dir=pkg_dir, selected=sel)
        args = P.mk_struct("PackageArgs", no_cross_compile_assistance=True, release=release, target=TARGET, package_dir=Some(custom) if custom else NONE)
        w_clean, w_stale = World(ctx), World(ctx)
        for w_ in (w_clean, w_stale):
            w_.cwd = cwd
            w_.env["CARGO"] = "/usr/bin/cargo"
        outs = setup_world(ctx, w_clean, ws, profile, pkg_dir, {})
        setup_world(ctx, w_stale, ws, profile, pkg_dir, stale)
        ctx.outs = outs
        r1 = run_once(ctx, w_clean, args)
        r2 = run_once(ctx, w_stale, args)
        return {"clean": r1, "stale": r2, "w_clean": w_clean, "w_stale": w_stale}

    res = run.explore(P, entry, lambda ctx: [], max_paths=3000000, max_depth=120)
    run.log(f"{len(res)} paths")
    pending = []
    results = {}
    n = 0
    for ctx, (kind, out) in res:
        if kind != "return":
            run.inconclusive.append(f"path ends with {kind}: {str(out)[:300]}")
            continue
        n += 1
        cfg = ctx.cfg
        results[out["clean"][0]] = results.get(out["clean"][0], 0) + 1
        viol, conds = [], []
        w1, w2 = out["w_clean"], out["w_stale"]
        if out["clean"][0] != "Ok":
            unsafe = cfg["package_dir"] is not None and " " in cfg["package_dir"] and "c/z" in cfg["selected"]
            viol.append(("package-dir-not-uri-safe:composite-packaging-fails" if unsafe else "packaging-into-empty-dir-failed",
                         f"execute returned {out['clean'][0]} for a valid workspace (package dir {cfg['pkg_dir']!r})", True))
            if unsafe:
                viol = viol[-1:]          # the rest of the obligations presuppose a successful clean run
        if out["stale"][0] != out["clean"][0]:
            viol.append(("result-depends-on-stale-output", f"clean run {out['clean'][0]}, run over stale output {out['stale'][0]}", True))
        if out["stale"][1] != out["clean"][1]:
            viol.append(("stdout-depends-on-stale-output", f"stdout {out['clean'][1]} vs {out['stale'][1]}", True))
        # layout of the clean run
        exp_stdout = sorted(ctx.outs[s_] for s_ in (cfg["selected"] if cfg["cwd"] == WS else cfg["selected"][:1]))
        got_stdout = sorted("".join(out["clean"][1]).split("\n")[:-1]) if out["clean"][1] else []
        if got_stdout != exp_stdout:
            viol.append(("stdout-not-the-selected-dirs", f"stdout {got_stdout} expected {exp_stdout}", True))
        for b in cfg["ws"]:
            d = ctx.outs[b["id"]]
            if b["id"] not in cfg["selected"]:
                if w1.get(d).kind != ABSENT:
                    viol.append(("unselected-buildpack-packaged", f"{d} written although {b['id']} was not selected", True))
                continue
            exp = expected_tree(ctx, w1, b, d, cfg)
            for p_, (k, cnt) in exp.items():
                nd = w1.get(p_)
                if nd.kind != k:
                    viol.append(("layout-incomplete", f"{p_}: kind {nd.kind} expected {k}", True))
                elif k == FILE and cnt is not None:
                    got = node_text(nd)
                    if got is None:
                        viol.append(("layout-content", f"{p_}: unexpected content {nd.content!r}", True))
                    elif isinstance(got, str) and isinstance(cnt, str):
                        if got != cnt:
                            viol.append(("layout-content", f"{p_}: content {got!r} expected {cnt!r}", True))
                    else:
                        conds.append(S(got) != S(cnt))
                elif k == LINK and nd.targets != [cnt]:
                    viol.append(("layout-content", f"{p_}: link target {nd.targets} expected {cnt}", True))
            if b["kind"] == "composite" and w1.get(d + "/package.toml").kind == FILE:
                # normalised package.toml: libcnb: -> the packaged location, relative path -> absolute w.r.t. the *source* package.toml, others verbatim
                doc = w1.get(d + "/package.toml").content
                want_deps = [ctx.outs["a/x"], posix_norm(b["dir"] + "/../../other-bp"), "docker://docker.io/heroku/procfile-cnb:2.0.0"]
                try:
                    tree = doc.tree
                    deps_tv = [v for k, p__, v in tree.entries if k == "dependencies"][0]
                    got_deps = [[vv for kk, pp, vv in e.entries if kk == "uri"][0].scalar for e in deps_tv.elems]
                    bp_uri = [vv for kk, pp, vv in [v for k, p__, v in tree.entries if k == "buildpack"][0].entries if kk == "uri"][0].scalar
                except Exception:
                    got_deps, bp_uri = None, None
                if got_deps is None or [sval(x) for x in got_deps] != want_deps or sval(bp_uri) != ".":
                    viol.append(("composite-package-toml-wrong", f"{d}/package.toml has dependencies {got_deps} (buildpack uri {bp_uri}), expected {want_deps}", True))
            extra = [p_ for p_ in w1.fs if p_.startswith(d + "/") and w1.fs[p_].kind != ABSENT and p_ not in exp]
            if extra:
                viol.append(("layout-extra-entries", f"unexpected entries {extra}", True))
        # the run over stale output leaves the same trees
        root = cfg["pkg_dir"]
        for p_ in sorted(set(w1.fs) | set(w2.fs)):
            if not (p_ == root or p_.startswith(root + "/")):
                continue
            a, b_ = w1.get(p_), w2.get(p_)
            ka, kb = a.kind, b_.kind
            if isinstance(ka, int) and isinstance(kb, int):
                if ka != kb:
                    viol.append(("tree-depends-on-stale-output", f"{p_}: kind {ka} after the clean run, {kb} over stale output ({cfg['stale']})", True))
                    continue
                if ka == FILE:
                    ta, tb = node_text(a), node_text(b_)
                    if ta is None or tb is None:
                        if repr(a.content) != repr(b_.content):
                            viol.append(("tree-depends-on-stale-output", f"{p_}: content differs", True))
                    elif isinstance(ta, str) and isinstance(tb, str):
                        if ta != tb:
                            viol.append(("tree-depends-on-stale-output", f"{p_}: content {ta!r} vs {tb!r}", True))
                    else:
                        conds.append(S(ta) != S(tb))
                elif ka == LINK and a.targets != b_.targets:
                    viol.append(("tree-depends-on-stale-output", f"{p_}: link target differs", True))
            else:
                conds.append(ka != kb)
        cs = [c for c in conds if not z3.is_false(z3.simplify(c))]
        if cs:
            viol.append(("tree-depends-on-stale-output", "file contents under the package directory differ between the clean run and the run over stale output", z3.Or(cs)))
        run.obligation(len(viol) + 1)
        want = [z3.String(nm) for nm in sorted(set(str(v) for nd in list(w1.fs.values()) + list(w2.fs.values()) for v in ([nd.content] if z3.is_expr(nd.content) and z3.is_string(nd.content) else [])))]
        found = None
        for sig, what, cond in viol:
            ans, m = run.check(ctx.pc + ([] if cond is True else [cond]), sig, want=want, timeout_ms=30000)
            if ans == "sat":
                found = (sig, what, m)
                break
        if found is None and n % (3 if quick else 7) == 0:
            ans, m = run.check(ctx.pc, "witness", want=want, timeout_ms=30000)
            if ans == "sat":
                found = (None, None, m)
        if found:
            pending.append((ctx, out, found))
    run.extra["results"] = results
    cands = [p for p in pending if p[2][0]]
    wit = [p for p in pending if not p[2][0]]
    seen, keep = {}, []
    for p in cands:
        if seen.setdefault(p[2][0], 0) < 3:
            seen[p[2][0]] += 1
            keep.append(p)
    pending = keep + wit[:40 if quick else 120]
    reqs = [request(ctx) for ctx, out, f_ in pending]
    if reqs:
        run.replay.build_cargo_libcnb()
    reals = run.replay.run(reqs, timeout=1800)
    for (ctx, out, (sig, what, m)), req, real in zip(pending, reqs, reals):
        if "error" in real or "panic" in real:
            run.mismatch(f"replay driver failed: {real} on {req}")
            continue
        pred = {"ok": out["clean"][0] == "Ok", "stdout": sorted("".join(out["clean"][1]).split("\n")[:-1]) if out["clean"][1] else [],
                "same": not any(s_ for s_, _, _ in ([] if sig is None else [(sig, 0, 0)]) if s_.startswith(("tree-", "result-", "stdout-depends")))}
        got = {"ok": real["clean"]["ok"], "stdout": sorted(real["clean"]["stdout"]), "same": real["same"]}
        run.stats["validated"] += 1
        if sig is None:
            if got != pred or real.get("layout_problems"):
                run.mismatch(f"model {pred}, real {got} layout {real.get('layout_problems')} for {req}")
            else:
                run.sample({"request": req, "stdout": real["clean"]["stdout"]}, limit=6)
        else:
            bad = (not real["same"]) or bool(real.get("layout_problems")) or not real["clean"]["ok"]
            run.candidate(sig, f"{what}; {req}; real: same={real['same']} diff={real.get('diff')} layout={real.get('layout_problems')}", req, bad)


def posix_norm(p):
    import posixpath
    return posixpath.normpath(p)


def node_text(n):
    """content of a file node as text term: raw descriptor text for buildpack.toml copies, strings as they are"""
    c = n.content
    if isinstance(c, str) or (z3.is_expr(c) and z3.is_string(c)):
        return c
    if isinstance(c, TomlText) and c.tree.attrs.get("descriptor"):
        return z3.String("descriptor_" + c.tree.name.replace("/", "_"))       # the descriptor file's bytes, carried by fs::copy
    return None


def expected_tree(ctx, w, b, d, cfg):
    """layout of the statement for buildpack b packaged into d"""
    prof = cfg["profile"]
    exp = {d: (DIR, None), d + "/buildpack.toml": (FILE, z3.String("descriptor_" + b["id"].replace("/", "_"))), d + "/package.toml": (FILE, None)}
    if b["kind"] == "libcnb":
        exp[d + "/package.toml"] = (FILE, "[buildpack]\nuri = \".\"\n")
        exp[d + "/bin"] = (DIR, None)
        exp[d + "/bin/build"] = (FILE, z3.String(f"bin_{b['bins'][0]}_{prof}"))
        exp[d + "/bin/detect"] = (LINK, "build")
        if len(b["bins"]) > 1:
            exp[d + "/.libcnb-cargo"] = (DIR, None)
            exp[d + "/.libcnb-cargo/additional-bin"] = (DIR, None)
            for n_ in b["bins"][1:]:
                exp[d + "/.libcnb-cargo/additional-bin/" + n_] = (FILE, z3.String(f"bin_{n_}_{prof}"))
    return exp


def request(ctx):
    cfg = ctx.cfg
    return {"op": "cargo-package", "cwd": cfg["cwd"], "release": cfg["release"], "package_dir": cfg["package_dir"], "stale": cfg["stale"],
            "workspace": [{"id": b["id"], "dir": b["dir"], "kind": b["kind"], "bins": b["bins"]} for b in cfg["ws"]], "selected": cfg["selected"]}


def finalize(run):
    r = run.extra.get("results", {})
    if not r.get("Ok"):
        run.inconclusive.append(f"vacuity: no successful packaging run ({r})")


def replay(run, scen):
    run.replay.build_cargo_libcnb()
    real = run.replay.run([scen["scenario"]], timeout=1800)[0]
    print(json.dumps(real))
    return 0
