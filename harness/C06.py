"""C06 — detect/build contexts faithfully reflect what the platform supplied.

Executed from MIR: libcnb_runtime (entry), libcnb_runtime_detect/build, read_buildpack_dir, read_buildpack_descriptor,
context_target, read_platform_env (directory scan, is_file through symlinks, read_to_string), GenericPlatform::from_path,
Env::{new, insert}, read_toml_file with the derived Deserialize of ComponentBuildpackDescriptor<GenericMetadata> (with
Buildpack, BuildpackId, BuildpackVersion, BuildpackApi), BuildpackPlan/Entry and Store.  The harness buildpack's
detect/build receive the context value; every field is compared with what the model platform supplied.
File names and contents in <platform>/env, the target variables' values, plan entry names and the identities of the
free-form metadata tables are solver variables.
"""
import json
import re
from mirsym import smt as z3
from mirsym.core import *
from mirsym import summ_core, summ_coll, summ_fs, summ_serde, summ_dyn
from mirsym.summ_core import Ok, Err, Some, NONE, VecV, sval, S, ListIt
from mirsym.summ_fs import World, Node, ABSENT, FILE, DIR, LINK
from mirsym.summ_dyn import DynDir
from mirsym.summ_serde import TVal, TomlText
from mirsym.run import Inconclusive
from harness import C09

SHARDS = {"quick": 12, "thorough": 14}
CRATES = ["libcnb", "libcnb-data", "libcnb-common"]
BP, PLAT, LAYERS, PLAN, BPLAN = "/bp", "/platform", "/L", "/out/plan.toml", "/in/buildpack-plan.toml"
ENVD = PLAT + "/env"
TARGET_VARS = ["CNB_TARGET_OS", "CNB_TARGET_ARCH", "CNB_TARGET_ARCH_VARIANT", "CNB_TARGET_DISTRO_NAME", "CNB_TARGET_DISTRO_VERSION"]
ENTRY_KINDS = ["file", "file-bad-utf8", "dir", "link-file", "link-dir", "link-dangling", "absent"]
RUST_STR = z3.Star(z3.Union(z3.Range("\x01", "\ud7ff"), z3.Range("\ue000", "\U0002ffff")))
FILE_NAME = z3.Plus(z3.Union(z3.Range("\x01", "."), z3.Range("0", "\ud7ff"), z3.Range("\ue000", "\U0002ffff")))      # no '/', no NUL


def prepare(run):
    run.program(CRATES)


class CWorld(World):
    def utf8_content(self, ctx, n):
        ok = getattr(n, "utf8", True)
        return ok if isinstance(ok, bool) else ctx.branch(ok, "utf8")


def main(run):
    quick = run.tier == "quick"
    NENT = 2
    run.bounds = {"platform env": f"<platform>/env missing, or a directory with {NENT} entries, each: regular file | file with invalid UTF-8 | directory | symlink to a file | symlink to a directory | dangling symlink | absent; names and contents SMT strings (contents may be empty / contain newlines)",
                  "target": "OS/ARCH/DISTRO_NAME/DISTRO_VERSION arbitrary strings, ARCH_VARIANT present or not",
                  "buildpack plan": "0..2 entries with symbolic names, metadata table present or not (identity-tracked)",
                  "descriptor": "id/version fixed, optional name, metadata table present or not (identity-tracked)",
                  "store": "store.toml absent | valid (metadata identity-tracked) | invalid UTF-8 | a directory | syntactically invalid",
                  "phase": "detect and build"}
    run.assumptions = ["free-form TOML tables are tracked by identity (their inner structure is the toml crate's business)", "file names: non-empty, no '/' or NUL, pairwise distinct",
                       "toml text layer abstracted"]
    run.outside = ["non-UTF-8 file *names* (OsString beyond strings)", "non-UTF-8 *values* of CNB_TARGET_* and other process environment variables (env values are Rust strings in the model; seed C06-3 lives there)", "I/O errors other than the modelled kinds", "custom Platform/Metadata types of a buildpack"]
    P = run.program(CRATES)
    summ_core.install(P)
    summ_coll.install(P)
    summ_fs.install(P)
    summ_dyn.install(P)
    summ_serde.install(P)
    C09.install_regex(P, [])
    for (st, prm), d in getattr(P, "type_defaults_src", {}).items():
        P.type_defaults[(st, prm)] = P.type_aliases.get(d, d)
    P.assoc_metadata = "Option<Table>"
    f_rt = [k for k, f in P.funcs.items() if f is not None and f.name == "libcnb_runtime"]
    if len(f_rt) != 1:
        raise Inconclusive("libcnb_runtime not found")
    f_rt = f_rt[0]
    names = ("libcnb_runtime_detect", "libcnb_runtime_build", "read_buildpack_dir", "read_buildpack_descriptor", "context_target", "platform::read_platform_env", "read_platform_env")
    run.encoded(P, [f_rt] + [k for k, f in P.funcs.items() if f is not None and f.name in names])
    plat_from = P.impl_index.get(("GenericPlatform", "Platform", "from_path"))
    if not plat_from:
        raise Inconclusive("GenericPlatform::from_path not found")

    @P.summary("env::args", "args")
    def _args(ctx, c):
        return ListIt(list(ctx.argv))

    @P.summary("Platform::from_path")
    def _from_path(ctx, c):
        return P.call(ctx, plat_from, list(c.args), tyenv={})

    @P.summary("Buildpack::detect")
    def _detect(ctx, c):
        ctx.calls.append("detect")
        ctx.context = deref(c.args[1])
        return Ok(Adt("DetectResult", None, [Adt("InnerDetectResult", "Fail", [])]))

    @P.summary("Buildpack::build")
    def _build(ctx, c):
        ctx.calls.append("build")
        ctx.context = deref(c.args[1])
        return Err(Adt("Error", "BuildpackError", [Opaque("UserError", "stop")]))

    @P.summary("Buildpack::on_error")
    def _on_error(ctx, c):
        ctx.calls.append("on_error")
        ctx.err = deref(c.args[1])
        return UNIT

    def entry(ctx):
        w = ctx.world
        ctx.calls, ctx.context, ctx.err = [], None, None
        phase = ["detect", "build"][ctx.choose([True, True], "phase")]
        ctx.phase = phase
        ctx.argv = ["detect", PLAT, PLAN] if phase == "detect" else ["build", LAYERS, PLAT, BPLAN]
        w.cwd = "/app"
        ctx.tvals = {}
        w.env["CNB_BUILDPACK_DIR"] = BP
        for v in TARGET_VARS:
            val = z3.String("val_" + v)
            ctx.assume(z3.InRe(val, RUST_STR))
            ctx.tvals[v] = val
            if v == "CNB_TARGET_ARCH_VARIANT":
                ctx.has_variant = z3.Bool("has_arch_variant")
                w.env[v] = (ctx.has_variant, val)
            else:
                w.env[v] = val
        # descriptor
        ctx.has_name, ctx.has_meta = z3.Bool("desc_has_name"), z3.Bool("desc_has_metadata")
        ctx.desc_name = z3.String("desc_name")
        ctx.desc_mid = z3.Int("desc_metadata_id")
        bp = TVal("bp.buildpack", kind="table", entries=[["id", True, TVal("bp.id", kind="str", scalar="demo/c06")], ["version", True, TVal("bp.version", kind="str", scalar="1.2.3")],
                                                          ["name", ctx.has_name, TVal("bp.name", kind="str", scalar=ctx.desc_name)]])
        tree = TVal("bp", kind="table", entries=[["api", True, TVal("bp.api", kind="str", scalar="0.10")], ["buildpack", True, bp],
                                                ["metadata", ctx.has_meta, TVal("bp.metadata", kind="table", ident=ctx.desc_mid)]])
        w.add(BP, DIR)
        w.add(BP + "/buildpack.toml", FILE, content=TomlText(True, tree))
        # platform env
        w.add(PLAT, DIR)
        w.add("/ext", DIR)
        w.add("/ext/dir", DIR)
        ctx.entries = []
        if ctx.choose([True, True], "env-dir?") == 1:
            w.add(ENVD, DIR)
            dd = DynDir()
            # quick tier: the platform directory is scanned by the same code in both phases - all entry kinds in detect, a reduced set in build
            nent = NENT if (phase == "detect" or not quick) else 1
            for i in range(nent):
                kinds_i = ENTRY_KINDS if (i == 0 or not quick) and not (quick and phase == "build") else ["file", "link-file", "dir"]
                kind = kinds_i[ctx.choose([True] * len(kinds_i), f"entry{i}")]
                name, val = z3.String(f"env_name{i}"), z3.String(f"env_val{i}")
                ctx.assume(z3.And(z3.InRe(name, FILE_NAME), z3.InRe(val, RUST_STR), name != z3.StringVal("."), name != z3.StringVal("..")))
                for (n2, _, _) in ctx.entries:
                    ctx.assume(name != n2)
                if kind in ("file", "file-bad-utf8"):
                    n = Node(FILE, content=val)
                    n.utf8 = kind == "file"
                elif kind == "dir":
                    n = Node(DIR)
                elif kind == "absent":
                    n = Node(ABSENT)
                else:
                    tgt = {"link-file": f"/ext/target{i}", "link-dir": "/ext/dir", "link-dangling": "/ext/nothing"}[kind]
                    if kind == "link-file":
                        w.add(tgt, FILE, content=val)
                    n = Node(LINK, targets=[tgt])
                dd.entries.append([name, n])
                ctx.entries.append((name, kind, val))
            w.dyn[ENVD] = dd
            ctx.env_dir = True
        else:
            ctx.env_dir = False
        w.add("/out", DIR)
        w.add("/in", DIR)
        w.add(LAYERS, DIR)
        ctx.plan, ctx.store = [], None
        if phase == "build":
            npl = ctx.choose([True] * 3, "plan-entries")
            elems = []
            for i in range(npl):
                nm, hm, mid = z3.String(f"plan_name{i}"), z3.Bool(f"plan_has_meta{i}"), z3.Int(f"plan_meta_id{i}")
                ctx.assume(z3.InRe(nm, RUST_STR))
                elems.append(TVal(f"plan[{i}]", kind="table", entries=[["name", True, TVal(f"plan[{i}].name", kind="str", scalar=nm)],
                                                                      ["metadata", hm, TVal(f"plan[{i}].metadata", kind="table", ident=mid)]]))
                ctx.plan.append((nm, hm, mid))
            w.add(BPLAN, FILE, content=TomlText(True, TVal("plan", kind="table", entries=[["entries", True if npl else z3.Bool("plan_has_entries_key"), TVal("plan.entries", kind="array", elems=elems)]])))
            sk = ["absent", "valid", "bad-utf8", "dir", "bad-syntax"][ctx.choose([True] * 5, "store")]
            ctx.store = sk
            ctx.store_mid = z3.Int("store_metadata_id")
            stree = TVal("store", kind="table", entries=[["metadata", True, TVal("store.metadata", kind="table", ident=ctx.store_mid)]])
            if sk == "dir":
                w.add(LAYERS + "/store.toml", DIR)
            elif sk != "absent":
                n = w.add(LAYERS + "/store.toml", FILE, content=TomlText(sk != "bad-syntax", stree))
                n.utf8 = sk != "bad-utf8"
        try:
            P.call(ctx, f_rt, [Ref(Box(Adt("TestBuildpack", None, [])))], tyenv={"B": "TestBuildpack"})
        except Exit as e:
            return e.code
        return "returned"

    res = run.explore(P, entry, lambda ctx: [], world_factory=lambda ctx: CWorld(ctx), max_paths=3000000, max_depth=80)
    run.log(f"{len(res)} paths")
    pending, classes = [], {}
    n = 0
    for ctx, (kind, code) in res:
        if kind != "return":
            run.inconclusive.append(f"path ends with {kind}: {str(code)[:200]}")
            continue
        n += 1
        viol = oracle(P, ctx, code)
        cls = f"{ctx.phase}:{'context' if ctx.context is not None else 'error'}"
        classes[cls] = classes.get(cls, 0) + 1
        want = list(ctx.tvals.values()) + [ctx.has_variant, ctx.has_name, ctx.has_meta, ctx.desc_name, ctx.desc_mid] + [x for (nm, k, v) in ctx.entries for x in (nm, v)]
        for nm, hm, mid in ctx.plan:
            want += [nm, hm, mid]
        if ctx.phase == "build":
            want.append(ctx.store_mid)
        run.obligation(len(viol) + 1)
        found = None
        for sig, what, cond in viol:
            ans, m = run.check(ctx.pc + ([] if cond is True else [cond]), "oracle:" + sig, want=want, timeout_ms=30000)
            if ans == "sat":
                found = (sig, what, m)
                break
        if found is None and n % (5 if quick else 2) == 0:
            ans, m = run.check(ctx.pc, "witness", want=want, timeout_ms=30000)
            if ans == "sat":
                found = (None, None, m)
        if found:
            pending.append((ctx, code, found))
    run.extra["classes"] = classes
    cands = [p for p in pending if p[2][0]]
    wit = [p for p in pending if not p[2][0]]
    seen, keep = {}, []
    for p in cands:
        if seen.setdefault(p[2][0], 0) < 4:
            seen[p[2][0]] += 1
            keep.append(p)
    pending = keep + wit[:150 if quick else 500]
    reqs = [request(ctx, m) for ctx, code, (sig, what, m) in pending]
    reals = run.replay.run(reqs, timeout=900)
    for (ctx, code, (sig, what, m)), req, real in zip(pending, reqs, reals):
        if "error" in real or "panic" in real:
            run.mismatch(f"replay driver failed: {real} on {req}")
            continue
        exp = expected_context(req)
        got = real.get("context")
        reached_model = ctx.context is not None
        if (got is not None) != reached_model or real["calls"] != ctx.calls or real["exit"] != code:
            run.mismatch(f"model: exit {code} calls {ctx.calls}; real: exit {real['exit']} calls {real['calls']} for {req}")
            continue
        run.stats["validated"] += 1
        diff = context_diff(exp, got, req)
        if sig is None:
            if diff:
                run.mismatch(f"real context differs from what was supplied ({diff}) where the model saw no violation: {req}")
            else:
                run.sample({"request": req, "reached": reached_model}, limit=8)
        else:
            run.candidate(sig, f"{what}; {req} -> exit {real['exit']}, calls {real['calls']}, context diff: {diff}", req, bool(diff))


def fld(P, adt, ty, name):
    return deref(deref(adt).fields[P.field_index(ty, name)])


def oracle(P, ctx, code):
    out = []
    c = ctx.context
    ents = ctx.entries
    # inputs that cannot be represented / read => the phase must not run and the error must be reported
    must_fail = any(k == "file-bad-utf8" for _, k, _ in ents) or ctx.store in ("bad-utf8", "dir", "bad-syntax")
    if must_fail:
        if c is not None:
            out.append(("unreadable-input-not-reported", f"{ctx.phase} ran although an input cannot be represented/read (env entries {[k for _, k, _ in ents]}, store {ctx.store})", True))
        elif ctx.calls != ["on_error"] or code in (0, 100):
            out.append(("error-not-reported", f"exit {code} calls {ctx.calls}", True))
        return out
    if c is None:
        out.append(("valid-inputs-rejected", f"{ctx.phase} never ran (exit {code}, calls {ctx.calls}, error {ctx.err!r}) although every input is readable", True))
        return out
    T_ = "DetectContext" if ctx.phase == "detect" else "BuildContext"
    conds = []
    if sval(fld(P, c, T_, "app_dir")) != "/app" or sval(fld(P, c, T_, "buildpack_dir")) != BP:
        out.append(("dirs-differ", f"app_dir/buildpack_dir = {fld(P, c, T_, 'app_dir')!r}/{fld(P, c, T_, 'buildpack_dir')!r}", True))
    if ctx.phase == "build" and sval(fld(P, c, T_, "layers_dir")) != LAYERS:
        out.append(("dirs-differ", f"layers_dir = {fld(P, c, T_, 'layers_dir')!r}", True))
    # target
    t = fld(P, c, T_, "target")
    for f_, v in (("os", "CNB_TARGET_OS"), ("arch", "CNB_TARGET_ARCH"), ("distro_name", "CNB_TARGET_DISTRO_NAME"), ("distro_version", "CNB_TARGET_DISTRO_VERSION")):
        conds.append(S(sval(fld(P, t, "Target", f_))) != ctx.tvals[v])
    av = fld(P, t, "Target", "arch_variant")
    if av.variant == "Some":
        conds.append(z3.Or(z3.Not(ctx.has_variant), S(sval(av.fields[0])) != ctx.tvals["CNB_TARGET_ARCH_VARIANT"]))
    else:
        conds.append(ctx.has_variant)
    # platform env: exactly the regular files (also via symlink)
    plat = fld(P, c, T_, "platform")
    env = deref(deref(plat).fields[0])
    inner = deref(env.fields[0]) if isinstance(env, Adt) else env
    got = [(sval(k), sval(v)) for k, v in inner.items]
    want = [(nm, val) for nm, k, val in ents if k in ("file", "link-file")]
    if len(got) != len(want):
        out.append(("platform-env-entry-count", f"{len(got)} variables for {len(want)} regular files (entries {[k for _, k, _ in ents]})", True))
    else:
        for nm, val in want:
            conds.append(z3.Not(z3.Or([z3.And(S(gk) == nm, S(gv) == val) for gk, gv in got] or [z3.BoolVal(False)])))
    # descriptor
    d = fld(P, c, T_, "buildpack_descriptor")
    bpk = fld(P, d, "ComponentBuildpackDescriptor", "buildpack")
    api = fld(P, d, "ComponentBuildpackDescriptor", "api")
    if [deref(x) for x in api.fields] != [0, 10]:
        out.append(("descriptor-differs", f"api {api!r}", True))
    if sval(deref(fld(P, bpk, "Buildpack", "id")).fields[0]) != "demo/c06":
        out.append(("descriptor-differs", f"id {fld(P, bpk, 'Buildpack', 'id')!r}", True))
    nm = fld(P, bpk, "Buildpack", "name")
    conds.append(z3.Or(z3.Not(ctx.has_name), S(sval(nm.fields[0])) != ctx.desc_name) if nm.variant == "Some" else ctx.has_name)
    md = fld(P, d, "ComponentBuildpackDescriptor", "metadata")
    conds.append(meta_differs(md, ctx.has_meta, ctx.desc_mid, optional=True))
    if ctx.phase == "build":
        plan = fld(P, fld(P, c, T_, "buildpack_plan"), "BuildpackPlan", "entries")
        items = [deref(x) for x in plan.items]
        if len(items) != len(ctx.plan):
            out.append(("plan-entry-count", f"{len(items)} plan entries for {len(ctx.plan)} supplied", True))
        else:
            for it, (pn, hm, mid) in zip(items, ctx.plan):
                conds.append(S(sval(fld(P, it, "Entry", "name"))) != pn)
                conds.append(meta_differs(fld(P, it, "Entry", "metadata"), hm, mid, optional=False))
        st = fld(P, c, T_, "store")
        if ctx.store == "absent":
            if st.variant != "None":
                out.append(("store-invented", f"store {st!r} although store.toml is absent", True))
        elif st.variant != "Some":
            out.append(("store-dropped", "store.toml present but context.store is None", True))
        else:
            conds.append(meta_differs(fld(P, deref(st.fields[0]), "Store", "metadata"), True, ctx.store_mid, optional=False))
    cs = [x for x in conds if not (isinstance(x, bool) and x is False) and not z3.is_false(z3.simplify(x if not isinstance(x, bool) else z3.BoolVal(x)))]
    if cs:
        out.append(("context-differs-from-supplied", f"{ctx.phase} context differs from what the platform supplied", z3.Or(cs)))
    return out


def meta_differs(v, present, ident, optional):
    """condition under which the free-form table in the context is not the supplied one"""
    v = deref(v)
    if optional:
        if isinstance(v, Adt) and v.ty == "Option":
            if v.variant == "None":
                return present if not isinstance(present, bool) else z3.BoolVal(present)
            return z3.Or(z3.Not(present) if not isinstance(present, bool) else z3.BoolVal(not present), table_id(v.fields[0]) != ident)
        return z3.BoolVal(True)
    tid = table_id(v)
    pres = present if not isinstance(present, bool) else z3.BoolVal(present)
    # an absent key defaults to the empty table (identity 0)
    return z3.Not(z3.If(pres, tid == ident, tid == 0))


def table_id(v):
    v = deref(v)
    tv = v.data if isinstance(v, Opaque) and v.tag == "toml" else v
    if isinstance(tv, TVal) and tv.ident is not None:
        return tv.ident
    raise Unsupported(f"free-form table without identity: {v!r}")


def request(ctx, m):
    ents = [{"name": m.str(nm), "kind": k, "value": m.str(val)} for nm, k, val in ctx.entries]
    return {"op": "runtime", "argv": ctx.argv, "behaviour": "fail" if ctx.phase == "detect" else "error",
            "env": dict([("CNB_BUILDPACK_DIR", True)] + [(v, True if v != "CNB_TARGET_ARCH_VARIANT" else m.bool(ctx.has_variant)) for v in TARGET_VARS]),
            "env_values": {v: m.str(t) for v, t in ctx.tvals.items()},
            "descriptor": {"present": True, "syntax_ok": True, "has_api": True, "api": "0.10", "rest_ok": True, "id": "demo/c06", "version": "1.2.3",
                           "name": m.str(ctx.desc_name) if m.bool(ctx.has_name) else None, "metadata_id": m.int(ctx.desc_mid) if m.bool(ctx.has_meta) else None},
            "platform_env": ctx.env_dir, "platform_entries": ents, "olds": {},
            "plan": [{"name": m.str(nm), "metadata_id": m.int(mid) if m.bool(hm) else None} for nm, hm, mid in ctx.plan],
            "store": ctx.store, "store_metadata_id": m.int(ctx.store_mid) if ctx.phase == "build" else None, "buildpack_plan_ok": True, "old_store_ok": True}


def expected_context(req):
    env = {e["name"]: e["value"] for e in req["platform_entries"] if e["kind"] in ("file", "link-file")} if req["platform_env"] else {}
    ev = req["env_values"]
    d = req["descriptor"]
    exp = {"env": env, "target": {"os": ev["CNB_TARGET_OS"], "arch": ev["CNB_TARGET_ARCH"], "arch_variant": ev["CNB_TARGET_ARCH_VARIANT"] if req["env"]["CNB_TARGET_ARCH_VARIANT"] else None,
                                  "distro_name": ev["CNB_TARGET_DISTRO_NAME"], "distro_version": ev["CNB_TARGET_DISTRO_VERSION"]},
           "descriptor": {"api": "0.10", "id": d["id"], "version": d["version"], "name": d["name"], "metadata": None if d["metadata_id"] is None else {"ident": d["metadata_id"]}}}
    if req["argv"][0] == "build":
        exp["plan"] = [{"name": p["name"], "metadata": {} if p["metadata_id"] is None else {"ident": p["metadata_id"]}} for p in req["plan"]]
        exp["store"] = None if req["store"] == "absent" else {"metadata": {"ident": req["store_metadata_id"]}}
    return exp


def context_diff(exp, got, req):
    if got is None:
        must_fail = any(e["kind"] == "file-bad-utf8" for e in req["platform_entries"]) or req["store"] in ("bad-utf8", "dir", "bad-syntax")
        return None if must_fail else "the phase never ran"
    out = []
    for k, v in exp.items():
        if got.get(k) != v:
            out.append(f"{k}: got {got.get(k)!r} expected {v!r}")
    if not got.get("app_dir", "").endswith("/app") or not got.get("buildpack_dir", "").endswith("/bp"):
        out.append("directories differ")
    return "; ".join(out) or None


def finalize(run):
    c = run.extra.get("classes", {})
    for need in ("detect:context", "build:context", "detect:error", "build:error"):
        if not c.get(need):
            run.inconclusive.append(f"vacuity: no path in class {need} (have {sorted(c)})")


def replay(run, scen):
    real = run.replay.run([scen["scenario"]])[0]
    print(json.dumps({"real": real, "diff": context_diff(expected_context(scen["scenario"]), real.get("context"), scen["scenario"])}))
    return 0
