"""C12 — a failed file operation in layer handling is reported.

The C01 operations (struct-API request; LayerRef writers) are executed from MIR with one injected fault: the k-th
registered mutating / data-reading file-system call of the path (open+write, read, mkdir, unlink, rmdir, chmod, opendir,
copy, recursive removal) fails with a non-NotFound I/O error, k being a solver variable over all positions.  On every
path where the fault hits, the call must return Err.  Counterexamples are replayed on the real build with an LD_PRELOAD
fault injector (faultshim/) that fails the corresponding libc call with EIO.
"""
import json
from mirsym import smt as z3
from mirsym.core import *
from mirsym.summ_fs import ABSENT, FILE, DIR
from mirsym.summ_core import Ok, Err, Some, NONE, VecV, ListIt
from mirsym.summ_serde import TVal, TomlText
from mirsym.run import Inconclusive
from harness.layers import *
from harness import C01, C02

SHARDS = {"quick": 14, "thorough": 15}
CRATES = C01.CRATES
SHIM_OP = {"write-data": "write", "write": "open_w", "read": "open_r", "mkdir": "mkdir", "unlink": "unlink", "rmdir": "rmdir", "chmod": "chmod",
           "opendir": "opendir", "rmtree": "rmdir", "copy": "open_r", "rename": "rename"}


PHASE_REQ = {"op": "runtime", "argv": [], "behaviour": {"launch": True, "store": "nonempty", "build_sboms": ["CycloneDxJson", "SpdxJson"], "launch_sboms": ["SyftJson"]},
             "env": {"CNB_BUILDPACK_DIR": True, "CNB_TARGET_OS": True, "CNB_TARGET_ARCH": True, "CNB_TARGET_ARCH_VARIANT": False, "CNB_TARGET_DISTRO_NAME": True, "CNB_TARGET_DISTRO_VERSION": True},
             "descriptor": {"present": True, "syntax_ok": True, "has_api": True, "api": "0.10", "rest_ok": True}, "platform_env": True, "olds": {"/L/store.toml": True}, "buildpack_plan_ok": True, "old_store_ok": True}


def prepare(run):
    run.program(CRATES)


def fault_spec(w):
    """shim spec 'op:suffix:n' of the op the injected fault hit on this path"""
    idx = next(i for i, (nm, p) in enumerate(w.ops) if i == w.fault_idx)
    nm, path = w.ops[idx]
    occ = 1 + sum(1 for (n2, p2) in w.ops[:idx] if SHIM_OP.get(n2) == SHIM_OP.get(nm) and p2 == path)
    return f"{SHIM_OP[nm]}:{path}:{occ}", nm, path


def main(run):
    rich = run.tier == "thorough"
    run.bounds = {"operations": "struct-API cached/uncached request (C01 universe), LayerRef::{write_metadata, write_sboms, write_exec_d_programs}, trait-API BuildContext::handle_layer "
                                "(C02's scripted Layer: every strategy / migration / create / update result shape incl. env in 4 scopes, exec.d, SBOM), and the phase entry point "
                                "libcnb_runtime as detect (pass with a plan) and as build (launch.toml, store.toml, three SBOM files, existing store.toml read)",
                  "fault position": "every registered file-system call of the path (solver variable), one fault per run",
                  "errno": "any non-NotFound error (the code only distinguishes NotFound)"}
    run.assumptions = C01_ASSUME + ["metadata probes (exists/is_dir/is_file) are not fault positions: std maps their errors to `false`"]
    run.outside = ["partial writes inside one write(2) call", "trait API: the rich (thorough) layer universe of C02; faults inside the buildpack's own callbacks"]
    P = run.program(CRATES)
    install_all(P)
    fns = {}
    for nm in ("cached_layer", "uncached_layer"):
        ks = [k for k, f in P.funcs.items() if f.name.endswith("::" + nm) and f.name.startswith("build::")]
        if len(ks) != 1:
            raise Inconclusive(f"BuildContext::{nm} not found uniquely in MIR")
        fns[nm] = ks[0]
    P.type_hooks["UserM"] = MHook(False)
    lr_fns = C01.writer_fns(P)
    wentry = C01.make_writer_entry(P, lr_fns)

    def arm(ctx, w):
        w.fault_at = z3.Int("fault_at")
        ctx.assume(w.fault_at >= 0)
        orig = w.fault

        def fault(name, path):
            before = w.fault_hit
            r = orig(name, path)
            if r and not before:
                w.fault_idx = len(w.ops) - 1
            return r
        w.fault = fault
        return w

    def world_req(ctx):
        return arm(ctx, C01.make_world(ctx, rich))

    def world_wr(ctx):
        return arm(ctx, C01.make_world_w(ctx))

    def entry_req(ctx):
        r = C01.request(ctx, P, fns)
        return {"class": C01.classify(P, r)[0]}

    def entry_wr(ctx):
        out = wentry(ctx)
        return {"class": out["res"]}

    # ---- phase outputs: libcnb_runtime as detect (pass + plan) and as build (launch, store, three SBOM files) with one injected fault
    f_rt = [k for k, f in P.funcs.items() if f is not None and f.name == "libcnb_runtime"]
    plat_from = P.impl_index.get(("GenericPlatform", "Platform", "from_path"))
    if len(f_rt) != 1 or not plat_from:
        raise Inconclusive("libcnb_runtime / GenericPlatform::from_path not found")
    P.summaries["env::args"] = P.summaries["args"] = lambda c2, c: ListIt(list(c2.argv))
    P.summaries["Platform::from_path"] = lambda c2, c: P.call(c2, plat_from, list(c.args), tyenv={})

    def _phase_detect(c2, c):
        c2.calls.append("detect")
        plan = P.mk_struct("BuildPlan", provides=VecV([P.mk_struct("Provide", name="thing")]), requires=VecV([]), **{"or": VecV([])})
        return Ok(Adt("DetectResult", None, [Adt("InnerDetectResult", "Pass", [Some(plan)])]))

    def _phase_build(c2, c):
        c2.calls.append("build")
        launch = P.mk_struct("Launch", labels=VecV([]), processes=VecV([]), slices=VecV([]))
        store = P.mk_struct("Store", metadata=Opaque("toml", TVal("store.metadata", kind="table", entries=[["k", True, TVal("k", kind="str", scalar="v")]], ident=z3.IntVal(9))))
        sb = lambda f: P.mk_struct("Sbom", format=Adt("SbomFormat", f, []), data=VecV(["sbom-" + f]))
        from harness.C05 import order_pass
        return Ok(Adt("BuildResult", None, [Adt("InnerBuildResult", "Pass", order_pass(P, Some(launch), Some(store), VecV([sb("CycloneDxJson"), sb("SpdxJson")]), VecV([sb("SyftJson")])))]))

    def _phase_on_error(c2, c):
        c2.calls.append("on_error")
        return UNIT
    P.summaries["Buildpack::detect"], P.summaries["Buildpack::build"], P.summaries["Buildpack::on_error"] = _phase_detect, _phase_build, _phase_on_error

    class _Desc:
        def deserialize(self, c2, ty, tv):
            return Ok(Opaque("descriptor", "bp"))

        def missing(self, c2, md):
            return Ok(Opaque("descriptor", "bp"))
    P.type_hooks["ComponentBuildpackDescriptor"] = _Desc()

    def world_phase(ctx):
        from mirsym.summ_fs import World
        w = World(ctx)
        for d in ("/bp", "/platform", "/platform/env", "/PL", "/in", "/out", "/app"):
            w.add(d, DIR)
        w.add("/platform/env/FOO", FILE, content="bar")
        w.cwd = "/app"
        for v in ("CNB_TARGET_OS", "CNB_TARGET_ARCH", "CNB_TARGET_DISTRO_NAME", "CNB_TARGET_DISTRO_VERSION"):
            w.env[v] = "v"
        w.env["CNB_BUILDPACK_DIR"] = "/bp"
        w.add("/bp/buildpack.toml", FILE, content=TomlText(True, TVal("bp", kind="table", entries=[["api", True, TVal("bp.api", kind="str", scalar="0.10")]])))
        w.add("/in/plan.toml", FILE, content=TomlText(True, TVal("plan", kind="table", entries=[["entries", True, TVal("plan.entries", kind="array", elems=[])]])))
        w.add("/PL/store.toml", FILE, content=TomlText(True, TVal("oldstore", kind="table", entries=[["metadata", True, TVal("oldstore.metadata", kind="table", entries=[], ident=z3.IntVal(3))]])))
        return arm(ctx, w)

    def entry_phase(ctx):
        ctx.calls = []
        ctx.phase = ["detect", "build"][ctx.choose([True, True], "phase")]
        ctx.argv = ["detect", "/platform", "/out/plan.toml"] if ctx.phase == "detect" else ["build", "/PL", "/platform", "/in/plan.toml"]
        try:
            P.call(ctx, f_rt[0], [Ref(Box(Adt("TestBuildpack", None, [])))], tyenv={"B": "TestBuildpack"})
        except Exit as e:
            code = e.code
        else:
            code = "returned"
        bad = code in (0, 100, "returned") or ctx.calls.count("on_error") > 1
        return {"class": ("Ok" if bad else "Err") + f":exit={code}:calls={','.join(ctx.calls)}"}

    # ---- trait API: BuildContext::handle_layer with C02's scripted Layer implementation (strategy / migration / create / update results)
    # quick: two result shapes (process-scope env; env + exec.d + SBOM), no `default` callback answers, no bystander layer; thorough: all seven shapes, every answer, bystander present
    trait_entry = C02.build_entry(run, P, results=None if rich else ["env-web", "full"], lean=not rich)

    def world_trait(ctx):
        ctx.thorough = False        # C02's quick universe (one SBOM format); the fault position is the subject here
        w = C02.make_world(ctx)
        if not rich:
            for nm in ("n2_dir", "n2_toml", "k_n2_f"):
                ctx.assume(z3.Int(nm) == ABSENT)
            ctx.assume(z3.Not(z3.Bool("n1_doc_has_unknown_key")))
        return arm(ctx, w)

    def entry_trait(ctx):
        out = trait_entry(ctx)
        return {"class": out["res"]}

    stats = {"faulted": 0, "unfaulted": 0, "positions": {}, "by_label": {}}
    pending = []
    for label, entry, wf in (("request", entry_req, world_req), ("writer", entry_wr, world_wr), ("phase", entry_phase, world_phase), ("trait", entry_trait, world_trait)):
        res = run.explore(P, entry, lambda ctx: [], wf, max_paths=2000000, max_depth=60)
        run.log(f"{label}: {len(res)} paths")
        for ctx, (kind, out) in res:
            if kind != "return":
                run.inconclusive.append(f"{label} path ends with {kind}: {out}")
                continue
            w = ctx.world
            if not w.fault_hit:
                stats["unfaulted"] += 1
                continue
            stats["faulted"] += 1
            stats["by_label"][label] = stats["by_label"].get(label, 0) + 1
            spec, nm, path = fault_spec(w)
            stats["positions"][nm] = stats["positions"].get(nm, 0) + 1
            want = (C01.model_terms(ctx) if label != "phase" else []) + [z3.Int("k_n1_exec_d_p2"), z3.Int("fault_at")]
            if label == "trait":
                want += C02.MODEL_TERMS()
            run.obligation()
            ok = out["class"].startswith("Err")
            ans, m = run.check(ctx.pc + [z3.BoolVal(not ok)], "fault-is-reported", want=want)
            if ans == "sat":
                pending.append((label, ctx, out, m, spec, "unreported"))
            elif label == "phase" or stats["faulted"] % (7 if run.tier == "quick" else 29) == 0:
                ans, m = run.check(ctx.pc, "witness", want=want)
                if ans == "sat":
                    pending.append((label, ctx, out, m, spec, None))
    run.extra["fault_stats"] = {"faulted": stats["faulted"], "unfaulted": stats["unfaulted"], "by_operation": stats["by_label"]}
    run.extra["fault_positions"] = stats["positions"]
    cands = [p for p in pending if p[5] is not None]
    wit = [p for p in pending if p[5] is None and p[0] not in ("phase", "trait")]
    wit_trait = [p for p in pending if p[5] is None and p[0] == "trait"]
    wit_phase = [p for p in pending if p[5] is None and p[0] == "phase"]
    # every fault replay is its own process (LD_PRELOAD injector): a bounded sample of witnesses, every candidate, every phase fault
    pending = cands + wit[::max(1, len(wit) // (40 if run.tier == "quick" else 120))] + wit_phase + wit_trait[::max(1, len(wit_trait) // (25 if run.tier == "quick" else 80))]
    for label, ctx, out, m, spec, sig in pending:
        if label == "phase":
            scn = dict(PHASE_REQ, argv=[a if a != "/PL" else "/L" for a in ctx.argv], behaviour="pass+plan" if ctx.phase == "detect" else PHASE_REQ["behaviour"], request="phase:" + ctx.phase, arm="child")
            if ctx.phase == "build":
                scn["argv"][3] = "/in/buildpack-plan.toml"
            spec_real = spec.replace("/PL/", "/L/").replace("/in/plan.toml", "/in/buildpack-plan.toml")
            real = run.replay.run_faulty(scn, spec_real)
            if "panic" in real or "error" in real:
                run.mismatch(f"faulty replay failed: {real} fault {spec_real}")
                continue
            real_err = real["exit"] not in (0, 100) and real["calls"].count("on_error") <= 1
            run.stats["validated"] += 1
            if sig is None:
                if not real_err:
                    run.mismatch(f"phase {ctx.phase}: fault {spec_real} predicted {out['class']} but the real process exited {real['exit']} with calls {real['calls']}")
                else:
                    run.sample({"operation": "phase:" + ctx.phase, "fault": spec_real, "exit": real["exit"]}, limit=10)
            else:
                run.candidate(f"phase:fault-not-reported:{spec.split(':')[0]}", f"{ctx.phase} with fault {spec_real} -> exit {real['exit']} calls {real['calls']}", {"scenario": scn, "fault": spec_real}, not real_err)
            continue
        if label == "trait":
            scn = C02.scenario_of(ctx, m)
            scn["arm"] = True
            real = run.replay.run_faulty(scn, spec)
            if "panic" in real or "error" in real:
                run.mismatch(f"faulty replay failed: {real} fault {spec} scenario {json.dumps(scn)[:900]}")
                continue
            real_err = real["result"].startswith("Err")
            run.stats["validated"] += 1
            if sig is None:
                if not real_err:
                    run.mismatch(f"trait: fault {spec} predicted {out['class']} but the real call returned {real['result']}; scenario {json.dumps(scn)[:600]}")
                else:
                    run.sample({"operation": "trait:" + ",".join(e["cb"] + "=" + e["answer"] for e in scn["script"]), "fault": spec, "result": real["result"]}, limit=14)
            else:
                run.candidate(f"trait:fault-not-reported:{spec.split(':')[0]}", f"handle_layer script {[(e['cb'], e['answer']) for e in scn['script']]} with fault {spec} -> {real['result']}", {"scenario": scn, "fault": spec}, not real_err)
            continue
        scn = C01.scenario_of(ctx, m) if label == "request" else C01.writer_scenario(ctx, m)
        if label == "writer":
            scn["arm"] = "writer"            # the injector counts calls from the writer on, as the symbolic path does
            scn["writers"][0]["arm"] = True
        real = run.replay.run_faulty(scn, spec)
        if "panic" in real or "error" in real:
            run.mismatch(f"faulty replay failed: {real} fault {spec} scenario {json.dumps(scn)[:900]}")
            continue
        if label == "request":
            real_cls = real["result"]
        else:
            if not real["result"].startswith("Ok:Restored"):
                continue      # the fault hit the request that only obtains the LayerRef for the writer: not this path
            real_cls = (real.get("writers") or ["?"])[0]
        real_err = real_cls.startswith("Err")
        if sig is None:
            if not real_err:
                run.mismatch(f"{label}: fault {spec} predicted {out['class']} but the real call returned {real_cls}; scenario {json.dumps(scn)[:400]}")
                continue
            run.stats["validated"] += 1
            run.sample({"operation": label + ":" + scn["request"], "fault": spec, "result": real_cls}, limit=10)
        else:
            run.stats["validated"] += 1
            run.candidate(f"{label}:fault-not-reported:{spec.split(':')[0]}", f"{scn['request']} with fault {spec} -> {real_cls}", {"scenario": scn, "fault": spec}, not real_err)


C01_ASSUME = ["layer invariant and metadata law as in C01", "file-system model mirsym/summ_fs.py; every mutating or data-reading call is a fault position"]


def finalize(run):
    fs_ = run.extra.get("fault_stats", {})
    if not fs_.get("faulted"):
        run.inconclusive.append("vacuity: no path with an injected fault")
    pos = run.extra.get("fault_positions", {})
    for need in ("request", "writer", "phase", "trait"):
        if not fs_.get("by_operation", {}).get(need):
            run.inconclusive.append(f"vacuity: no faulted path for operation {need}")
    for need in ("write", "read", "mkdir", "unlink", "rmdir", "chmod", "opendir"):
        if not pos.get(need):
            run.inconclusive.append(f"vacuity: no fault at a {need} call")


def replay(run, scen):
    s = scen["scenario"]
    real = run.replay.run_faulty(s["scenario"], s["fault"])
    print(json.dumps({"result": real.get("result"), "writers": real.get("writers"), "exit": real.get("exit"), "calls": real.get("calls")}))
    return 0
