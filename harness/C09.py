"""C09 — validated identifiers and versions accept exactly the spec grammar.

Executed from MIR: the four `libcnb_newtype!` expansions (`from_str`, `deserialize`, derived `serialize`, `Display::fmt`),
`BuildpackVersion::try_from` (+closure, `fmt`), `BuildpackApi::try_from` (+closures, `fmt`), and the decision logic of
`libcnb_proc_macros::verify_regex`.  Reference grammars: spec/grammars.py.
"""
import re
from mirsym import smt as z3
from mirsym.core import *
from mirsym import summ_core, rx
from mirsym.summ_core import S, sval, Ok, Err, Some, NONE, VecV, FormatterV, display, concat
from mirsym.run import enc_str, Inconclusive
from spec import grammars

BOUNDS = {"quick": dict(ver_len=8, api_len=7, pieces=9), "thorough": dict(ver_len=12, api_len=10, pieces=13)}
MODS = {"LayerName": "layer", "ProcessType": "launch", "BuildpackId": "id", "ExecDProgramOutputKey": "exec_d"}


class RegexV:
    type_tag = "Regex"

    def __init__(self, pattern, re_):
        self.pattern, self.re = pattern, re_


class StrDeser:
    """model serde Deserializer holding one string value"""
    def __init__(self, s):
        self.s = s


class NewtypeSer:
    """model serde Serializer recording serialize_newtype_struct / serialize_str"""
    def __init__(self):
        self.out = None


def install_regex(P, seen_patterns):
    @P.summary("Regex::new")
    def _rnew(ctx, c):
        pat = deref(c.args[0])
        if not isinstance(pat, str):
            raise Unsupported("symbolic regex pattern")
        seen_patterns.append(pat)
        return Ok(RegexV(pat, rx.to_z3(pat)))       # every literal in the repo compiles; an uncompilable one is Unsupported in rx

    @P.summary("Regex::is_match")
    def _rmatch(ctx, c):
        r, s = deref(c.args[0]), sval(c.args[1])
        return Ok(z3.InRe(S(s), r.re))


def install_serde_str(P):
    @P.summary("Deserialize::deserialize")
    def _deser(ctx, c):
        d = deref(c.args[0])
        st = (c.selfty or "")
        if st.endswith("String") and isinstance(d, StrDeser):
            return Ok(d.s)
        raise Unsupported("Deserialize::deserialize for " + st)

    @P.summary("Error::custom", "de::Error::custom")
    def _custom(ctx, c):
        return Opaque("DeError", "custom")

    @P.summary("Serializer::serialize_newtype_struct")
    def _snt(ctx, c):
        ser = deref(c.args[0])
        ser.out = ("newtype", deref(c.args[1]), sval(c.args[2]))
        return Ok(UNIT)


def fn_of(P, pattern):
    ks = [k for k, f in P.funcs.items() if re.search(pattern, f.name)]
    if len(ks) != 1:
        raise Inconclusive(f"expected exactly one MIR function matching {pattern!r}, found {len(ks)}")
    return ks[0]


def model_str(m, t):
    v = m.eval(t, model_completion=True)
    return v.as_string() if hasattr(v, "as_string") else str(v)


def py_str(zs):
    """z3 as_string() escapes non-printables as \\u{..}; decode"""
    return re.sub(r"\\u\{([0-9a-fA-F]+)\}", lambda mm: chr(int(mm.group(1), 16)), zs)


# ---------------------------------------------------------------------------------------------- newtypes
def check_newtype(run, P, ty, patterns):
    mod = MODS[ty]
    spec_re, domain = grammars.NEWTYPES[ty]
    spec_re = spec_re()
    from_str = fn_of(P, rf"^{mod}::<impl at libcnb-data/src/newtypes\.rs[^>]*>::from_str$")
    deser = fn_of(P, rf"^{mod}::<impl at libcnb-data/src/newtypes\.rs[^>]*>::deserialize$")
    ser = fn_of(P, rf"^{mod}::_::<impl at libcnb-data/src/newtypes\.rs[^>]*>::serialize$")
    fmts = [k for k, f in P.funcs.items() if re.search(rf"^{mod}::<impl at libcnb-data/src/newtypes\.rs[^>]*>::fmt$", f.name)
            and f"&{ty}," in f.header.replace(f"&{mod}::{ty}", f"&{ty}")]
    disp = [k for k in fmts if P.impl_index.get((ty, "Display", "fmt")) == k]
    if len(disp) != 1:
        raise Inconclusive(f"Display impl of {ty} not found")
    run.encoded(P, [from_str, deser, ser, disp[0]])

    def make_args(ctx):
        s = z3.String("s")
        ctx.s = s
        if domain is not None:
            ctx.assume(domain(s))
        return []

    def entry_for(which):
        def entry(ctx):
            if which == "from_str":
                r = deref(P.call(ctx, from_str, [ctx.s]))
            else:
                r = deref(P.call(ctx, deser, [StrDeser(ctx.s)]))
            out = {"accepted": r.variant == "Ok"}
            if r.variant == "Ok":
                v = r.fields[0]
                out["inner"] = sval(v)
                f = FormatterV()
                P.call(ctx, disp[0], [Ref(Box(v)), Ref(Box(f))])
                out["display"] = f.text()
                se = summ_core_ser()
                P.call(ctx, ser, [Ref(Box(v)), Ref(Box(se))])
                out["ser"] = se.out
            return out
        return entry

    def summ_core_ser():
        return NewtypeSer()

    witnesses = []
    for which in ("from_str", "deserialize"):
        res = run.explore(P, entry_for(which), make_args)
        outcomes = set()
        for ctx, (kind, out) in res:
            if kind != "return":
                run.inconclusive.append(f"{ty}::{which}: path ends with {kind} {out}")
                continue
            acc = out["accepted"]
            outcomes.add(acc)
            in_spec = z3.InRe(ctx.s, spec_re)
            clauses = {"accept-iff-spec": in_spec if acc else z3.Not(in_spec)}
            if acc:
                clauses["value-is-input"] = S(out["inner"]) == ctx.s
                clauses["display-is-input"] = S(out["display"]) == ctx.s
                so = out["ser"]
                clauses["serialises-as-input"] = (S(so[2]) == ctx.s) if so and so[0] == "newtype" else z3.BoolVal(False)
            for cname, cl in clauses.items():
                run.obligation()
                blocked = []
                for _ in range(4):   # enumerate distinct violation classes
                    ans, m = run.check(ctx.pc + [z3.Not(cl)] + blocked, f"{ty}.{which}.{cname}", want=[ctx.s] if hasattr(ctx, "s") else ctx.nums)
                    if ans == "unsat":
                        break
                    w = m.str(ctx.s)
                    cls, block = classify_newtype(ty, which, cname, acc, w, ctx.s)
                    witnesses.append((ty, which, cls, w, acc))
                    blocked.append(block)
            # path witness for translation validation
            ans, m = run.check(ctx.pc, f"{ty}.{which}.witness", want=[ctx.s] if hasattr(ctx, "s") else ctx.nums)
            if ans == "sat":
                witnesses.append((ty, which, None, m.str(ctx.s), acc))
        if outcomes != {True, False}:
            run.inconclusive.append(f"vacuity: {ty}::{which} reached outcomes {outcomes}")
    # unbounded-length language equality between the literal and the reference grammar (inside the domain)
    pats = set(patterns)
    return witnesses


def classify_newtype(ty, which, clause, accepted, w, s):
    if clause != "accept-iff-spec":
        return f"{ty}:{clause}", z3.BoolVal(True)
    if not accepted:
        if "\n" in w:
            return f"{ty}:rejects-valid:contains-newline", z3.Not(grammars.contains_char(s, "\n"))
        return f"{ty}:rejects-valid", z3.BoolVal(False)
    return f"{ty}:accepts-invalid", z3.BoolVal(False)


# ---------------------------------------------------------------------------------------------- proc macro
def check_verify_regex(run, PM, patterns_by_ty):
    vr = fn_of(PM, r"^verify_regex$")
    run.encoded(PM, [vr])
    wit = []

    class Lit:
        type_tag = "LitStr"

        def __init__(self, v):
            self.v = v

    class Tokens:
        def __init__(self):
            self.emitted = []

    @PM.summary("syn::parse")
    def _parse(ctx, c):
        return Ok(Adt("VerifyRegexInput", None, [Lit(ctx.pattern), Lit(ctx.s), Opaque("Expr", "matched"), Opaque("Expr", "unmatched")]))

    @PM.summary("LitStr::value")
    def _value(ctx, c):
        return deref(c.args[0]).v

    @PM.summary("LitStr::span")
    def _span(ctx, c):
        return Opaque("Span")

    @PM.summary("proc_macro2::TokenStream::new", "TokenStream::new")
    def _ts_new(ctx, c):
        return Tokens()

    @PM.summary("ToTokens::to_tokens")
    def _to_tokens(ctx, c):
        deref(c.args[1]).emitted.append(deref(c.args[0]).data)
        return UNIT

    @PM.summary("syn::Error::new")
    def _err_new(ctx, c):
        return Opaque("SynError")

    @PM.summary("syn::Error::to_compile_error", "Error::to_compile_error")
    def _tce(ctx, c):
        t = Tokens()
        t.emitted.append("compile_error")
        return t

    for ty, pat in patterns_by_ty.items():
        spec_re, domain = grammars.NEWTYPES[ty]
        spec_re = spec_re()

        def make_args(ctx, pat=pat, domain=domain):
            ctx.s = z3.String("s")
            ctx.pattern = pat
            if domain is not None:
                ctx.assume(domain(ctx.s))
            return [Opaque("TokenStream")]
        res = run.explore(PM, vr, make_args)
        outs = set()
        for ctx, (kind, out) in res:
            if kind != "return":
                run.inconclusive.append(f"verify_regex[{ty}]: path ends with {kind} {out}")
                continue
            em = deref(out).emitted
            outs.add(tuple(em))
            acc = em == ["matched"]
            if em not in (["matched"], ["unmatched"]):
                run.inconclusive.append(f"verify_regex[{ty}] emitted {em}")
                continue
            in_spec = z3.InRe(ctx.s, spec_re)
            run.obligation()
            blocked = []
            for _ in range(4):
                ans, m = run.check(ctx.pc + [in_spec != z3.BoolVal(acc)] + blocked, f"verify_regex.{ty}", want=[ctx.s] if hasattr(ctx, "s") else ctx.nums)
                if ans == "unsat":
                    break
                w = m.str(ctx.s)
                cls, block = classify_newtype(ty, "literal-macro", "accept-iff-spec", acc, w, ctx.s)
                wit.append((ty, "literal-macro", cls, w, acc))
                blocked.append(block)
        if outs != {("matched",), ("unmatched",)}:
            run.inconclusive.append(f"vacuity: verify_regex[{ty}] outcomes {outs}")
    return wit


# ---------------------------------------------------------------------------------------------- versions
def check_version(run, P, which, bounds):
    if which == "version":
        tf = fn_of(P, r"^version::<impl at libcnb-data/src/buildpack/version\.rs[^>]*>::try_from$")
        fm = P.impl_index.get(("BuildpackVersion", "Display", "fmt"))
        spec_re, maxlen, nfields = grammars.version(), bounds["ver_len"], 3
    else:
        tf = fn_of(P, r"^api::<impl at libcnb-data/src/buildpack/api\.rs[^>]*>::try_from$")
        fm = P.impl_index.get(("BuildpackApi", "Display", "fmt"))
        spec_re, maxlen, nfields = grammars.api(), bounds["api_len"], 2
    if not fm:
        raise Inconclusive(f"Display impl for {which} not found")
    run.encoded(P, [tf, fm])
    wit = []

    # (1) all strings up to maxlen: accept <=> spec, parsed numbers are the denoted ones, display(parse(s)) canonical
    def make_args(ctx):
        s = z3.String("s")
        ctx.assume(z3.Length(s) <= maxlen)
        ctx.s = s
        return []

    def entry(ctx):
        r = deref(P.call(ctx, tf, [ctx.s]))
        out = {"accepted": r.variant == "Ok"}
        if r.variant == "Ok":
            v = r.fields[0]
            out["nums"] = list(v.fields)
            f = FormatterV()
            P.call(ctx, fm, [Ref(Box(v)), Ref(Box(f))])
            out["display"] = f.text()
        return out
    res = run.explore(P, entry, make_args, bound_ok=True, max_paths=200000)
    outcomes = set()
    for ctx, (kind, out) in res:
        if kind == "bound":
            # more '.'-separated pieces than the split summary unrolls: must be infeasible under the length bound
            continue
        if kind != "return":
            run.inconclusive.append(f"{which}::try_from: path ends with {kind} {out}")
            continue
        acc = out["accepted"]
        outcomes.add(acc)
        in_spec = z3.InRe(ctx.s, spec_re)
        clauses = {"accept-iff-spec": in_spec if acc else z3.Not(in_spec)}
        if acc:
            # denoted numbers.  Versions: display(nums) == s below says that the decimal rendering of the parsed numbers is
            # the input text, i.e. the numbers are the denoted ones.  API versions may carry leading zeros, so the
            # denotation is stated directly on the first-dot split of s.
            if which == "api":
                from mirsym.summ_core import split_first
                hasdot = z3.Contains(ctx.s, z3.StringVal("."))
                a, b2 = split_first(ctx.s, ".")
                clauses["numbers-are-denoted"] = z3.Implies(in_spec, z3.If(
                    hasdot, z3.And(out["nums"][0] == z3.StrToInt(a), out["nums"][1] == z3.StrToInt(b2)),
                    z3.And(out["nums"][0] == z3.StrToInt(ctx.s), out["nums"][1] == 0)))
            if which == "version":
                clauses["display-is-input"] = S(out["display"]) == ctx.s
            clauses["in-u64"] = z3.And([z3.And(n >= 0, n < 2 ** 64) for n in out["nums"]])
        for cname, cl in clauses.items():
            run.obligation()
            blocked = []
            for _ in range(4):
                ans, m = run.check(ctx.pc + (ctx.defs if cname not in ("accept-iff-spec", "display-is-input") else []) + ((ctx.lemmas + ctx.render_defs) if cname == "display-is-input" else []) + [z3.Not(cl)] + blocked, f"{which}.{cname}", want=[ctx.s] if hasattr(ctx, "s") else ctx.nums)
                if ans == "unsat":
                    break
                w = m.str(ctx.s)
                cls, block = classify_version(which, cname, acc, w, ctx.s)
                wit.append((which, "try_from", cls, w, acc))
                blocked.append(block)
        ans, m = run.check(ctx.pc, f"{which}.witness", want=[ctx.s] if hasattr(ctx, "s") else ctx.nums)
        if ans == "sat":
            wit.append((which, "try_from", None, m.str(ctx.s), acc))
    for ctx, (kind, out) in res:
        if kind == "bound":
            ans, _ = run.check(ctx.pc, f"{which}.bound-feasible", want=[ctx.s] if hasattr(ctx, "s") else ctx.nums)
            run.obligation()
            if ans == "sat":
                run.inconclusive.append(f"{which}: split bound {bounds['pieces']} too small for length {maxlen}")
    if outcomes != {True, False}:
        run.inconclusive.append(f"vacuity: {which}::try_from outcomes {outcomes}")

    # (2) parse(display(v)) == v for all u64 tuples: display MIR on symbolic integers, then try_from MIR on the rendered text
    def make_args2(ctx):
        ctx.nums = [z3.Int(f"n{i}") for i in range(nfields)]
        for n in ctx.nums:
            ctx.assume(z3.And(n >= 0, n < 2 ** 64))
        return []

    def entry2(ctx):
        v = Adt("BuildpackVersion" if which == "version" else "BuildpackApi", None, list(ctx.nums))
        f = FormatterV()
        P.call(ctx, fm, [Ref(Box(v)), Ref(Box(f))])
        text = f.text()
        ctx.text = text
        r = deref(P.call(ctx, tf, [text]))
        return r
    res2 = run.explore(P, entry2, make_args2, bound_ok=True, max_paths=20000)
    ok_paths = 0
    for ctx, (kind, r) in res2:
        if kind == "bound":
            ans, _ = run.check(ctx.pc, f"{which}.roundtrip.bound", want=[ctx.s] if hasattr(ctx, "s") else ctx.nums)
            if ans == "sat":
                run.inconclusive.append(f"{which}: display text has more pieces than the split bound")
            continue
        if kind != "return":
            run.inconclusive.append(f"{which} display/parse: path ends {kind} {r}")
            continue
        run.obligation()
        if r.variant != "Ok":
            ans, m = run.check(ctx.pc, f"{which}.roundtrip.err-path", want=[ctx.s] if hasattr(ctx, "s") else ctx.nums)
            if ans == "sat":
                nums = [m.int(n) for n in ctx.nums]
                wit.append((which, "roundtrip", f"{which}:display-not-reparsed", ".".join(map(str, nums)), False))
            continue
        ok_paths += 1
        got = r.fields[0].fields
        ans, m = run.check(ctx.pc + ctx.defs + [z3.Not(z3.And([a == b for a, b in zip(got, ctx.nums)]))], f"{which}.roundtrip", want=ctx.nums)
        if ans == "sat":
            nums = [m.int(n) for n in ctx.nums]
            wit.append((which, "roundtrip", f"{which}:reparse-differs", ".".join(map(str, nums)), True))
    if ok_paths == 0:
        run.inconclusive.append(f"vacuity: {which} display/parse never reached Ok")
    return wit


def classify_version(which, clause, accepted, w, s):
    if clause == "accept-iff-spec" and accepted and "+" in w:
        return f"{which}:accepts-invalid:plus-sign", z3.Not(grammars.contains_char(s, "+"))
    if clause == "display-is-input" and "+" in w:
        return f"{which}:accepts-invalid:plus-sign", z3.Not(grammars.contains_char(s, "+"))
    if clause == "display-is-input":
        return f"{which}:display-is-input", z3.BoolVal(False)
    if clause == "accept-iff-spec":
        return f"{which}:{'accepts-invalid' if accepted else 'rejects-valid'}", z3.BoolVal(False)
    return f"{which}:{clause}", z3.BoolVal(False)


# ---------------------------------------------------------------------------------------------- driver
def replay_witnesses(run, wit):
    """replay every solver witness on the real crates; compare accept/reject with what the symbolic path predicted and
    confirm violation candidates"""
    reqs = []
    for (ty, which, cls, w, acc) in wit:
        if ty in ("version", "api"):
            reqs.append({"op": ty, "s": enc_str(w)})
        else:
            reqs.append({"op": "newtype", "ty": ty, "s": enc_str(w)})
    ans = run.replay.run(reqs)
    for (ty, which, cls, w, acc), a in zip(wit, ans):
        if which == "roundtrip":
            real_acc = a.get("ok") and a.get("reparse_ok")
            pred = acc
            if cls:
                run.candidate(cls, f"{ty} display/parse of {w!r}", {"op": ty, "s": enc_str(w)}, not real_acc)
            continue
        if which == "literal-macro":
            real_acc = a.get("ok")       # the literal macro uses the same fancy_regex call; replayed through from_str
        elif which == "deserialize":
            real_acc = a.get("deser_ok") if a.get("ok") else a.get("deser_ok")
        else:
            real_acc = a.get("ok")
        if "error" in a or "panic" in a:
            run.mismatch(f"replay driver failed on {ty} {w!r}: {a}")
            continue
        if bool(real_acc) != bool(acc):
            run.mismatch(f"{ty}::{which} on {w!r}: symbolic path predicts accepted={acc}, real code says {real_acc}")
            continue
        run.stats["validated"] += 1
        if cls:
            if cls.endswith("display-is-input") or cls.endswith("value-is-input") or cls.endswith("serialises-as-input"):
                key = {"display-is-input": "display", "value-is-input": "as_str", "serialises-as-input": "ser"}[cls.split(":")[-1]]
                confirmed = a.get(key) != w
            else:
                confirmed = True      # accept/reject already compared with the real code above
            req = {"op": ty, "s": enc_str(w)} if ty in ("version", "api") else {"op": "newtype", "ty": ty, "s": enc_str(w)}
            run.candidate(cls, f"{ty}::{which}({w!r}) -> {'accepted' if acc else 'rejected'}", req, confirmed)
        else:
            run.sample({"type": ty, "via": which, "input": w, "accepted": acc})


def source_guard(run):
    """the literal macros must validate against the same `$regex` the run-time parser uses"""
    src = open("/repo/libcnb-data/src/newtypes.rs").read()
    m = re.search(r"internals::verify_regex!\(\s*\$regex,\s*\$value,", src)
    if not m:
        run.inconclusive.append("libcnb_newtype! no longer passes `$regex, $value` to verify_regex!: literal-macro path not covered")
    if not re.search(r"Regex::new\(\$regex\)", src):
        run.inconclusive.append("libcnb_newtype!::from_str no longer compiles `$regex`")
    src2 = open("/repo/libcnb-data/src/internals.rs").read()
    if not re.search(r"pub use libcnb_proc_macros::verify_regex;", src2):
        run.inconclusive.append("libcnb_data::internals no longer re-exports verify_regex")


def main(run):
    b = BOUNDS[run.tier]
    run.bounds = {"identifier strings": "unbounded length (regex-language decision)", "version strings": f"<= {b['ver_len']} chars",
                  "api strings": f"<= {b['api_len']} chars", "split pieces": b["pieces"], "display/parse": "all u64 tuples"}
    run.assumptions = ["[[:alnum:]] is ASCII in the regex crate and in the CNB spec",
                       "LayerName domain: strings without '/' and NUL (single directory names)",
                       "fancy_regex matches its literal as translated by mirsym/rx.py (conformance-tested against the real crate by witness replay)",
                       "str::parse::<u64> accepts [+]?[0-9]+ below 2^64 (std contract)",
                       "serde String deserializer yields the document's string unchanged"]
    run.outside = ["toml text layer around the string", "proc-macro token parsing (syn) around verify_regex's decision"]
    P = run.program(["libcnb-data"])
    summ_core.install(P, max_split=b["pieces"] - 1)
    patterns = []
    install_regex(P, patterns)
    install_serde_str(P)
    wit = []
    pats_by_ty = {}
    import os
    for ty in (MODS if "nt" in os.environ.get("C09_PARTS", "nt") else []):
        before = len(patterns)
        wit += check_newtype(run, P, ty, patterns)
        used = set(patterns[before:])
        if len(used) != 1:
            run.inconclusive.append(f"{ty}: expected one regex literal, saw {used}")
        else:
            pats_by_ty[ty] = used.pop()
    run.extra["regex_literals"] = pats_by_ty
    run.log(f"newtypes done: {run.stats['paths']} paths")
    PM = run.program(["libcnb-proc-macros"])
    summ_core.install(PM)
    install_regex(PM, [])
    wit += check_verify_regex(run, PM, pats_by_ty)
    source_guard(run)
    run.log("verify_regex done")
    for which in ("version", "api"):
        wit += check_version(run, P, which, b)
        run.log(f"{which} done: {run.stats['paths']} paths")
    replay_witnesses(run, wit)


def replay(run, scen):
    s = scen["scenario"]
    a = run.replay.run([s])[0]
    print(json_dumps(a))
    return 0


def json_dumps(x):
    import json
    return json.dumps(x)
