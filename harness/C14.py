"""C14 — composite package descriptors are normalised without losing dependencies.

Executed from MIR: normalize_package_descriptor, replace_libcnb_uris, replace_libcnb_uri, absolutize_dependency_paths,
buildpack_id_from_libcnb_dependency (all closures), util::{absolutize_path, normalize_path},
PackageDescriptorDependency::try_from(PathBuf | &str), BuildpackId::from_str.  uriparse::URIReference is a model
(mirsym/summ_uri.py).  Descriptor shape (number, order and kinds of dependencies, the '.', '..' and separator structure of
relative paths, the location of package.toml) is chosen branch by branch; buildpack ids, map keys/values and the tails
of verbatim URIs are SMT strings, so "is this id in the map" is decided by the solver.
"""
import json
import posixpath
from mirsym import smt as z3
from mirsym.core import *
from mirsym import summ_core, summ_coll, summ_fs, summ_uri
from mirsym.summ_core import Ok, Err, Some, NONE, VecV, sval, S
from mirsym.summ_coll import AssocV
from mirsym.run import Inconclusive
from spec import grammars
from harness import C09

SHARDS = {"quick": 12, "thorough": 14}
CRATES = ["libcnb-package", "libcnb-data"]
SAFE = z3.Star(z3.Union(z3.Range("a", "z"), z3.Range("A", "Z"), z3.Range("0", "9"), z3.Re("."), z3.Re("_"), z3.Re("~"), z3.Re("-")))
SAFE_SLASH = z3.Star(z3.Union(z3.Range("a", "z"), z3.Range("A", "Z"), z3.Range("0", "9"), z3.Re("."), z3.Re("_"), z3.Re("~"), z3.Re("-"), z3.Re("/")))
LOCATIONS = ["/w/bp", "/", "/a", "/w/x-1/~bp.d"]
REL_ATOMS = [".", "..", "n", "m.d"]
MIXED_RELS = ["../n", "./n/../m.d/", "n//m.d", "../../../../n"]


def prepare(run):
    run.program(CRATES)


def rel_paths(maxlen):
    """relative paths: 1..maxlen components from REL_ATOMS, optionally a doubled separator and/or a trailing one"""
    out = []

    def rec(prefix):
        if prefix:
            out.append(prefix)
        if len(prefix) < maxlen:
            for a in REL_ATOMS:
                rec(prefix + [a])
    rec([])
    return out


def main(run):
    quick = run.tier == "quick"
    MAXD = 2
    MAXREL = 3 if quick else 4
    RELS = rel_paths(MAXREL)
    import itertools
    KINDS = ["libcnb", "rel", "abs", "docker", "https", "urn"]
    SHAPES = [("rel", loc) for loc in LOCATIONS]
    for n_ in range(MAXD + 1):
        for kinds in itertools.product(KINDS, repeat=n_):
            for loc in (LOCATIONS[:2] if quick else LOCATIONS):
                for nm_ in range(3):
                    for win_ in (False, True):
                        SHAPES.append(("mix", loc, nm_, win_, kinds))
    run.bounds = {"dependencies": f"0..{MAXD} dependencies, each any of: libcnb:<symbolic id>, relative path of 1..{MAXREL} components from {REL_ATOMS} "
                                  "(optionally with a doubled and/or trailing separator), absolute path, docker://, https://, urn: with symbolic URI-safe tails",
                  "map": "0..2 entries with symbolic ids as keys (equal or different from the referenced ids - decided by the solver) and symbolic absolute paths as values",
                  "structure": f"either one relative dependency in every bounded shape at each of {LOCATIONS}, or a mixed descriptor at one of {LOCATIONS[:2] if quick else LOCATIONS} whose relative dependencies are from {MIXED_RELS}", "platform": "linux | windows"}
    run.assumptions = ["uriparse::URIReference per mirsym/summ_uri.py (RFC 3986 reference syntax; text, scheme and path preserved)",
                       "symbolic pieces consist of unreserved URI characters [A-Za-z0-9._~-] (plus '/' in paths, no empty segments)"]
    run.outside = ["URIs with query/fragment/percent-escapes", "Windows path prefixes", "reading/writing package.toml (C08/C07) and the copy of buildpack.toml"]
    P = run.program(CRATES)
    summ_core.install(P)
    summ_coll.install(P)
    summ_fs.install(P)
    summ_uri.install(P)
    seen = []
    C09.install_regex(P, seen)
    f_norm = [k for k, f in P.funcs.items() if f is not None and f.name == "normalize_package_descriptor"]
    if len(f_norm) != 1:
        raise Inconclusive("normalize_package_descriptor not found")
    f_norm = f_norm[0]
    run.encoded(P, [f_norm] + [k for k, f in P.funcs.items() if f is not None and f.name in ("replace_libcnb_uris", "replace_libcnb_uri", "absolutize_dependency_paths",
                                                                                          "buildpack_id_from_libcnb_dependency", "absolutize_path", "normalize_path")])

    def safe(ctx, name, slash=False, nonempty=False):
        v = z3.String(name)
        ctx.uri_safe.add(name)
        ctx.assume(z3.InRe(v, SAFE_SLASH if slash else SAFE))
        if slash:
            ctx.assume(z3.And(z3.Not(z3.PrefixOf(z3.StringVal("/"), v)), z3.Not(z3.Contains(v, z3.StringVal("//")))))
        if nonempty:
            ctx.assume(z3.Length(v) > 0)
        return v

    def uri(ctx, text):
        u = summ_uri.parse(ctx, text)
        if u is None:
            raise PathInfeasible()
        return u

    def entry(ctx):
        ctx.uri_safe = set()
        # one wide first decision (balanced shards): the descriptor's shape
        shape = SHAPES[ctx.choose([True] * len(SHAPES), "shape")]
        cls = 1 if shape[0] == "rel" else 0
        if cls == 1:
            nd, nm, win, loc, kinds = 1, 0, False, shape[1], ("rel",)
        else:
            _, loc, nm, win, kinds = shape
            nd = len(kinds)
        bmap = AssocV(True)
        entries = []
        for j in range(nm):
            k = z3.String(f"key{j}")
            ctx.assume(z3.InRe(k, grammars.buildpack_id()))
            v = summ_core.concat(["/", safe(ctx, f"val{j}", slash=True)])
            summ_coll.insert(ctx, bmap, Adt("BuildpackId", None, [k]), v)
        entries = [(deref(k).fields[0], v) for k, v in bmap.items]       # the map's content (a repeated key keeps the last value)
        deps, info = [], []
        for i in range(nd):
            kind = kinds[i]
            if kind == "libcnb":
                d = z3.String(f"id{i}")
                ctx.uri_safe.add(f"id{i}")
                # ids as they can appear after `libcnb:` in a valid URI reference: unreserved characters and '/'
                ctx.assume(z3.And(z3.InRe(d, SAFE_SLASH), z3.Length(d) > 0))
                text = summ_core.concat(["libcnb:", d])
                info.append(("libcnb", d, text))
            elif kind == "rel" and cls == 0:
                text = MIXED_RELS[ctx.choose([True] * len(MIXED_RELS), f"dep{i}-rel")]
                info.append(("rel", text, text))
            elif kind == "rel":
                comps = RELS[ctx.choose([True] * len(RELS), f"dep{i}-rel")]
                dbl = ctx.choose([True, True], f"dep{i}-doubled") == 1 and len(comps) > 1
                trail = ctx.choose([True, True], f"dep{i}-trailing") == 1
                text = ("//" if dbl else "/").join(comps[:2]) + ("/" + "/".join(comps[2:]) if len(comps) > 2 else "") if len(comps) > 1 else comps[0]
                text += "/" if trail else ""
                info.append(("rel", text, text))
            elif kind == "abs":
                text = summ_core.concat(["/", safe(ctx, f"abs{i}", slash=True)])
                info.append(("verbatim", None, text))
            else:
                head = {"docker": "docker://docker.io/", "https": "https://example.com/", "urn": "urn:cnb:registry:"}[kind]
                text = summ_core.concat([head, safe(ctx, f"tail{i}", slash=(kind != "urn"))])
                info.append(("verbatim", None, text))
            deps.append(P.mk_struct("PackageDescriptorDependency", uri=uri(ctx, text)))
        bp_uri = uri(ctx, ".")
        desc = P.mk_struct("PackageDescriptor", buildpack=P.mk_struct("PackageDescriptorBuildpackReference", uri=bp_uri), dependencies=VecV(deps),
                           platform=P.mk_struct("Platform", os=Adt("PlatformOs", "Windows" if win else "Linux", [])))
        dpath = (loc.rstrip("/") + "/package.toml")
        ctx.info = dict(loc=loc, entries=entries, deps=info, win=win, dpath=dpath)
        r = P.call(ctx, f_norm, [Ref(Box(desc)), dpath, Ref(Box(bmap))], tyenv={})
        return deref(r)

    res = run.explore(P, entry, lambda ctx: [], max_paths=3000000, max_depth=60)
    run.log(f"{len(res)} paths")
    pending = []
    outcomes = {}
    idre = grammars.buildpack_id()
    n = 0
    for ctx, (kind, out) in res:
        if kind != "return":
            run.inconclusive.append(f"path ends with {kind}: {str(out)[:200]}")
            continue
        n += 1
        inf = ctx.info
        outcomes[out.variant] = outcomes.get(out.variant, 0) + 1
        # expectation
        miss = []
        for k, d, text in inf["deps"]:
            if k == "libcnb":
                miss.append(z3.Or(z3.Not(z3.InRe(d, idre)), z3.And([d != key for key, _ in inf["entries"]] or [z3.BoolVal(True)])))
        exp_err = z3.Or(miss) if miss else z3.BoolVal(False)
        want = [z3.String(nm) for nm in sorted(ctx.uri_safe)] + [key for key, _ in inf["entries"]]
        sig = None
        if out.variant == "Err":
            cl = exp_err
            sig = "error-although-every-reference-resolvable"
        else:
            d2 = deref(out.fields[0])
            fld = lambda name: deref(d2.fields[P.field_index("PackageDescriptor", name)])
            outs = [deref(x) for x in fld("dependencies").items]
            cs = [z3.Not(exp_err)]
            sig = "normalised-descriptor-differs"
            if len(outs) != len(inf["deps"]):
                cs.append(z3.BoolVal(False))
                sig = "dependency-count-changed"
            else:
                for (k, d, text), o in zip(inf["deps"], outs):
                    ot = deref(o.fields[0]).text
                    if k == "libcnb":
                        cs.append(z3.And([z3.Implies(d == key, S(ot) == S(val)) for key, val in inf["entries"]] or [z3.BoolVal(True)]))
                        cs.append(z3.Not(z3.PrefixOf(z3.StringVal("libcnb:"), S(ot))))
                    elif k == "rel":
                        cs.append(S(ot) == z3.StringVal(posixpath.normpath(posixpath.join(inf["loc"], text))))
                    else:
                        cs.append(S(ot) == S(text))
            bp = deref(deref(fld("buildpack")).fields[0]).text
            osv = deref(deref(fld("platform")).fields[0]).variant
            cs.append(z3.BoolVal(bp == "." and osv == ("Windows" if inf["win"] else "Linux")))
            cl = z3.And(cs)
        run.obligation()
        ans, m = run.check(ctx.pc + [z3.Not(cl)], f"{out.variant}.matches-specification", want=want, timeout_ms=30000)
        if ans == "sat":
            pending.append((ctx, m, out, sig))
        elif n % (7 if quick else 3) == 0:
            ans, m = run.check(ctx.pc, "witness", want=want, timeout_ms=30000)
            if ans == "sat":
                pending.append((ctx, m, out, None))
    run.extra["outcomes"] = outcomes
    cands = [p for p in pending if p[3]]
    wit = [p for p in pending if not p[3]]
    pending = cands[:30] + wit[:150 if quick else 600]
    reqs = []
    for ctx, m, out, sig in pending:
        inf = ctx.info
        ev = lambda t: summ_core.eval_str(ctx, m, t)
        reqs.append({"op": "normalize-descriptor", "location": inf["loc"], "windows": inf["win"], "deps": [ev(text) for _, _, text in inf["deps"]],
                     "map": [[ev(k), ev(v)] for k, v in inf["entries"]]})
    reals = run.replay.run(reqs)
    for (ctx, m, out, sig), req, real in zip(pending, reqs, reals):
        if "panic" in real or "error" in real:
            run.mismatch(f"replay driver failed: {real} on {req}")
            continue
        ev = lambda t: summ_core.eval_str(ctx, m, t)
        if out.variant == "Err":
            pred = {"ok": False}
        else:
            d2 = deref(out.fields[0])
            outs = [deref(x) for x in deref(d2.fields[P.field_index("PackageDescriptor", "dependencies")]).items]
            pred = {"ok": True, "deps": [ev(deref(o.fields[0]).text) for o in outs]}
        if pred["ok"] and real.get("prefix"):
            # not chrooted: the real package.toml lives under a temp prefix; relative dependencies are compared against that location
            pred["deps"] = [posixpath.normpath(posixpath.join(real["prefix"] + req["location"], ev(text))) if k == "rel" else pd
                            for (k, _, text), pd in zip(ctx.info["deps"], pred["deps"])]
        if real.get("ok") != pred["ok"] or (pred["ok"] and real.get("deps") != pred["deps"]):
            run.mismatch(f"predicted {pred} real {real} for {req}")
            continue
        run.stats["validated"] += 1
        viol = concrete_violation(req, real)
        if sig is None:
            if viol:
                run.mismatch(f"real run violates ({viol}) where the model saw none: {req}")
            else:
                run.sample({"request": req, "result": real}, limit=8)
        else:
            run.candidate(sig, f"{req} -> {real}: {viol}", req, bool(viol))


def concrete_violation(req, real):
    import re
    ids = dict((k, v) for k, v in req["map"])
    loc = real.get("prefix", "") + req["location"]
    exp, err = [], False
    for d in req["deps"]:
        if d.startswith("libcnb:"):
            i = d[len("libcnb:"):]
            if i not in ids or not valid_id(i):
                err = True
            else:
                exp.append(ids[i])
        elif re.match(r"^[A-Za-z][A-Za-z0-9+.-]*:", d) or d.startswith("/"):
            exp.append(d)
        else:
            exp.append(posixpath.normpath(posixpath.join(loc, d)))
    if err:
        return None if not real["ok"] else f"a libcnb: reference without a known location was accepted; output {real.get('deps')}"
    if not real["ok"]:
        return f"normalisation failed although every reference resolves: {real.get('err')}"
    if real["deps"] != exp:
        return f"dependencies {real['deps']} expected {exp}"
    if real.get("buildpack") != "." or real.get("os") != ("windows" if req["windows"] else "linux"):
        return f"buildpack uri / platform changed: {real.get('buildpack')} {real.get('os')}"
    return None


def valid_id(s):
    """CNB buildpack id: [[:alnum:]./-]+, not `config` or `app` (libcnb also excludes `sbom`)"""
    import re
    return bool(re.fullmatch(r"[A-Za-z0-9./-]+", s)) and s not in ("app", "config", "sbom")


def finalize(run):
    o = run.extra.get("outcomes", {})
    for need in ("Ok", "Err"):
        if not o.get(need):
            run.inconclusive.append(f"vacuity: no path ends with {need}")


def replay(run, scen):
    real = run.replay.run([scen["scenario"]])[0]
    print(json.dumps({"real": real, "violation": concrete_violation(scen["scenario"], real)}))
    return 0
