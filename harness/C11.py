"""C11 — deleting or recreating a layer never touches anything outside that layer.

Executed from MIR: `BuildContext::uncached_layer` -> `handle_layer` -> `read_layer`, `delete_layer`,
`remove_dir_recursively` (recursion, chmod, read_dir, unlink, rmdir), `default_on_not_found`, `create_layer`,
`write_layer` -- over a file-system model with owner permission bits and symbolic links (mirsym/summ_fs.py, perms on).
"""
import json
from mirsym import smt as z3
from mirsym.core import *
from mirsym.summ_core import Ok, Err, Some, NONE, VecV, sval, S
from mirsym.summ_fs import World, Node, ABSENT, FILE, DIR, LINK, MODES
from mirsym.summ_serde import TVal, TomlText
from mirsym.run import Inconclusive
from harness.layers import L, install_all, MHook, SBOM_EXT
from harness import C01

SHARDS = {"quick": 14, "thorough": 15}
CRATES = ["libcnb", "libcnb-common", "libcnb-data"]
DIR_MODES = [0o755, 0o555, 0o666, 0o000]
# symlink targets: outside file, outside dir, sibling layer, a path inside the layer, itself (loop), dangling, relative escape
LINK_TARGETS = ["/C/f", "/C", "/L/n2", "/L/n1/b", "@self", "/nowhere", "../n2"]
TOP_TARGETS = ["/C", "/C/f", "/L/n2", "/nowhere"]


def prepare(run):
    run.program(CRATES)


def sym_int(ctx, name, allowed):
    v = z3.Int(name)
    ctx.assume(z3.Or([v == a for a in allowed]))
    return v


def make_world(ctx, deep):
    w = World(ctx, perms=True)
    w.add("/", DIR, mode=0o755)
    w.add(L, DIR, mode=0o755)
    # canary tree beside the layers directory
    w.add("/C", DIR, mode=sym_int(ctx, "m_C", [0o755, 0o555, 0o000]))
    w.add("/C/f", FILE, content="canary", mode=0o644)
    w.add("/C/d", DIR, mode=sym_int(ctx, "m_Cd", [0o755, 0o555]))
    w.add("/C/d/g", FILE, content="canary2", mode=0o644)
    # sibling layer
    w.add("/L/n2", DIR, mode=sym_int(ctx, "m_n2", [0o755, 0o555]))
    w.add("/L/n2/f", FILE, content="sibling", mode=0o644)
    w.add("/L/n2.toml", FILE, content=TomlText(True, TVal("n2doc", kind="table", entries=[])), mode=0o644)
    # a sibling layer whose name extends the subject's name (layer names may contain dots), with its own SBOM file
    w.add("/L/n1.x", DIR, mode=0o755)
    w.add("/L/n1.x.toml", FILE, content=TomlText(True, TVal("n1xdoc", kind="table", entries=[])), mode=0o644)
    w.add("/L/n1.x.sbom.cdx.json", FILE, content="sibling-sbom", mode=0o644)
    # the layer itself
    k1 = sym_int(ctx, "k_n1", [ABSENT, DIR, LINK])
    w.add("/L/n1", k1, mode=sym_int(ctx, "m_n1", DIR_MODES), targets=list(TOP_TARGETS), sel=sym_int(ctx, "t_n1", range(len(TOP_TARGETS))))
    kt = sym_int(ctx, "k_toml", [ABSENT, FILE])
    w.add("/L/n1.toml", kt, content=TomlText(True, TVal("doc", kind="table", entries=[])), mode=0o644)
    ks = sym_int(ctx, "k_sbom", [ABSENT, FILE])
    w.add("/L/n1.sbom.cdx.json", ks, content="sbom", mode=0o644)
    ctx.assume(z3.Implies(ks != ABSENT, k1 != ABSENT))
    names = ["a", "b"]
    for nm in names:
        p = f"/L/n1/{nm}"
        k = sym_int(ctx, f"k_{nm}", [ABSENT, FILE, DIR, LINK])
        tg = [t if t != "@self" else p for t in LINK_TARGETS]
        w.add(p, k, mode=sym_int(ctx, f"m_{nm}", DIR_MODES), content="inner", targets=tg, sel=sym_int(ctx, f"t_{nm}", range(len(tg))))
        ctx.assume(z3.Implies(k != ABSENT, k1 == DIR))
        if nm == "a" or deep:
            # one child below a directory entry: file, or a symlink to the outside file
            q = p + "/x"
            kx = sym_int(ctx, f"k_{nm}x", [ABSENT, FILE, LINK])
            w.add(q, kx, content="deep", mode=0o644, targets=["/C/f", "/C/d"], sel=sym_int(ctx, f"t_{nm}x", [0, 1]))
            ctx.assume(z3.Implies(kx != ABSENT, k == DIR))
    ctx.protected = ["/C", "/C/f", "/C/d", "/C/d/g", "/L/n2", "/L/n2/f", "/L/n2.toml", "/L", "/L/n1.x", "/L/n1.x.toml", "/L/n1.x.sbom.cdx.json"]
    ctx.own = [p for p in w.fs if p.startswith("/L/n1/")]
    return w


def model_terms(ctx):
    names = ["m_C", "m_Cd", "m_n2", "k_n1", "m_n1", "t_n1", "k_toml", "k_sbom", "k_a", "m_a", "t_a", "k_b", "m_b", "t_b", "k_ax", "t_ax", "k_bx", "t_bx",
             "req_launch", "req_build"]
    return [z3.Int(n) for n in names if not n.startswith("req")] + [z3.Bool("req_launch"), z3.Bool("req_build")]


def scenario_of(ctx, m, deep):
    iv = lambda n: m.int(z3.Int(n))
    tree = [{"path": "L", "kind": "dir"},
            {"path": "C", "kind": "dir", "mode": iv("m_C")}, {"path": "C/f", "kind": "file", "content": "canary", "mode": 0o644},
            {"path": "C/d", "kind": "dir", "mode": iv("m_Cd")}, {"path": "C/d/g", "kind": "file", "content": "canary2", "mode": 0o644},
            {"path": "L/n2", "kind": "dir", "mode": iv("m_n2")}, {"path": "L/n2/f", "kind": "file", "content": "sibling", "mode": 0o644},
            {"path": "L/n2.toml", "kind": "file", "content": "", "mode": 0o644},
            {"path": "L/n1.x", "kind": "dir", "mode": 0o755}, {"path": "L/n1.x.toml", "kind": "file", "content": "", "mode": 0o644},
            {"path": "L/n1.x.sbom.cdx.json", "kind": "file", "content": "sibling-sbom", "mode": 0o644}]

    def tgt(t):
        return "@" + t[1:] if t.startswith("/") else t
    k1 = iv("k_n1")
    if k1 == DIR:
        tree.append({"path": "L/n1", "kind": "dir", "mode": iv("m_n1")})
    elif k1 == LINK:
        tree.append({"path": "L/n1", "kind": "symlink", "target": tgt(TOP_TARGETS[iv("t_n1")])})
    if iv("k_toml") == FILE:
        tree.append({"path": "L/n1.toml", "kind": "file", "content": ""})
    if iv("k_sbom") == FILE:
        tree.append({"path": "L/n1.sbom.cdx.json", "kind": "file", "content": "sbom"})
    for nm in ("a", "b"):
        k = iv(f"k_{nm}")
        p = f"L/n1/{nm}"
        if k == FILE:
            tree.append({"path": p, "kind": "file", "content": "inner"})
        elif k == DIR:
            tree.append({"path": p, "kind": "dir", "mode": iv(f"m_{nm}")})
            if nm == "a" or deep:
                kx = iv(f"k_{nm}x")
                if kx == FILE:
                    tree.append({"path": p + "/x", "kind": "file", "content": "deep"})
                elif kx == LINK:
                    tree.append({"path": p + "/x", "kind": "symlink", "target": tgt(["/C/f", "/C/d"][iv(f"t_{nm}x")])})
        elif k == LINK:
            t = LINK_TARGETS[iv(f"t_{nm}")]
            tree.append({"path": p, "kind": "symlink", "target": tgt("/" + p) if t == "@self" else tgt(t)})
    # build the tree parents-first; modes are applied by the driver after everything exists
    return {"op": "layer-struct", "request": "uncached", "launch": m.bool(z3.Bool("req_launch")), "build": m.bool(z3.Bool("req_build")),
            "answers": [], "tree": tree, "writers": []}


def main(run):
    deep = run.tier == "thorough"
    run.bounds = {"layer path": "absent | directory (4 modes) | symlink to {outside dir, outside file, sibling layer, dangling}",
                  "entries": "a, b: absent | file | dir (4 modes, one child: file | symlink to outside file/dir) | symlink to 7 kinds of target "
                             "(outside file, outside dir, sibling layer, inside path, itself, dangling, relative escape)",
                  "canary": "/C (3 modes), /C/d (2 modes), sibling layer n2 (2 modes)", "operation": "uncached_layer (delete + recreate)"}
    run.assumptions = ["process runs as the owner of every node, not as root (EACCES from owner bits)", "POSIX semantics as in mirsym/summ_fs.py",
                       "layers dir itself is writable"]
    run.outside = ["trees deeper than 2 levels / more than 2 entries per directory", "concurrent modification of the tree"]
    P = run.program(CRATES)
    install_all(P)
    fn = [k for k, f in P.funcs.items() if f.name.endswith("::uncached_layer") and f.name.startswith("build::")]
    if len(fn) != 1:
        raise Inconclusive("BuildContext::uncached_layer not found")
    rr = [k for k, f in P.funcs.items() if f.name.endswith("remove_dir_recursively")]
    run.encoded(P, fn + rr)

    def entry(ctx):
        w = ctx.world
        ctx.pre = {p: (n.kind, n.mode, n.content, n.sel) for p, n in w.fs.items()}
        launch, build = z3.Bool("req_launch"), z3.Bool("req_build")
        bc = P.mk_struct("BuildContext", layers_dir=L)
        d = P.mk_struct("UncachedLayerDefinition", build=build, launch=launch)
        r = P.call(ctx, fn[0], [Ref(Box(bc)), Adt("LayerName", None, ["n1"]), d], tyenv={})
        return {"class": C01.classify(P, r)}

    res = run.explore(P, entry, lambda ctx: [], lambda ctx: make_world(ctx, deep), max_paths=3000000, max_depth=80)
    run.log(f"{len(res)} paths")
    pending = []
    classes = {}
    b2 = C01.b2
    for ctx, (kind, out) in res:
        if kind != "return":
            run.inconclusive.append(f"path ends with {kind}: {out}")
            continue
        cls = out["class"][0]
        ckey = cls.split(":")[0] + ":" + cls.split(":")[1]
        classes[ckey] = classes.get(ckey, 0) + 1
        w = ctx.world
        want = model_terms(ctx)
        outside = []
        for p in ctx.protected:
            k0, m0, c0, s0 = ctx.pre[p]
            n = w.fs[p]
            outside.append(b2(n.kind == k0))
            if p != "/L":
                outside.append(b2(n.mode == m0))
            if isinstance(c0, str):
                outside.append(b2(n.content == c0) if isinstance(n.content, str) else z3.BoolVal(False))
        run.obligation()
        path_violates = False
        ans, m = run.check(ctx.pc + [z3.Not(z3.And(outside))], "outside-untouched", want=want)
        if ans == "sat":
            path_violates = True
            pending.append((ctx, m, out, "outside-untouched"))
        if cls.startswith("Ok"):
            gone = [b2(w.fs[p].kind == ABSENT) for p in ctx.own] + [b2(w.fs["/L/n1"].kind == DIR), b2(w.fs["/L/n1.sbom.cdx.json"].kind == ABSENT)]
            run.obligation()
            ans, m = run.check(ctx.pc + [z3.Not(z3.And(gone))], "own-entries-gone", want=want)
            if ans == "sat":
                path_violates = True
                pending.append((ctx, m, out, "own-entries-gone"))
        ans, m = run.check(ctx.pc, "witness", want=want)
        if ans == "sat":
            pending.append((ctx, m, out, "witness-of-violating-path" if path_violates else None))
    run.extra["outcome_classes"] = classes
    if run.tier == "quick":
        cands = [p for p in pending if p[3] is not None]
        wit = [p for p in pending if p[3] is None]
        pending = cands + wit[::max(1, len(wit) // 150)]
    reqs = [scenario_of(ctx, m, deep) for ctx, m, out, sig in pending]
    reals = run.replay.run(reqs, unprivileged=True)
    for (ctx, m, out, sig), req, real in zip(pending, reqs, reals):
        if "panic" in real or "error" in real:
            run.mismatch(f"replay driver failed: {real} on {json.dumps(req)[:400]}")
            continue
        pred_cls = out["class"][0]
        if real["result"].split(":")[0:2] != pred_cls.split(":")[0:2]:
            run.mismatch(f"result predicted {pred_cls} real {real['result']} scenario {json.dumps(req['tree'])[:700]}")
            continue
        viol = real_violation(req, real)
        if sig == "witness-of-violating-path":
            run.stats["validated"] += 1      # result class agreed; property-level comparison belongs to the candidates of this path
            continue
        if sig is None:
            if viol:
                run.mismatch(f"real run violates the property where the symbolic path does not: {viol} scenario {json.dumps(req['tree'])[:700]}")
                continue
            run.stats["validated"] += 1
            run.sample({"tree": [(e["path"], e["kind"], e.get("target", e.get("mode"))) for e in req["tree"] if e["path"].startswith("L/n1")], "result": real["result"]}, limit=8)
        else:
            run.stats["validated"] += 1
            top = next((e for e in req["tree"] if e["path"] == "L/n1"), {"kind": "absent"})
            role = "layer-path-is-symlink" if top["kind"] == "symlink" else "layer-is-directory"
            run.candidate(f"{sig}:{role}", f"n1={top} -> {real['result']}; {viol}", req, bool(viol))


def real_violation(req, real):
    """compare the real post-state with the scenario's pre-state outside the layer"""
    post = {e["path"]: e for e in real["tree"]}
    for e in req["tree"]:
        p = e["path"]
        if p == "L" or p == "L/n1" or p.startswith("L/n1/") or p in ("L/n1.toml",) or (p.startswith("L/n1.sbom.")):
            continue
        q = post.get(p)
        if q is None:
            return f"{p} disappeared"
        if q["kind"] != e["kind"]:
            return f"{p} changed kind {e['kind']} -> {q['kind']}"
        if e["kind"] == "file" and q.get("content") != e.get("content"):
            return f"{p} content changed"
        if "mode" in e and q.get("mode") != e["mode"]:
            return f"{p} mode {oct(e['mode'])} -> {oct(q.get('mode', 0))}"
    if real["result"].startswith("Ok"):
        left = [p for p in post if p.startswith("L/n1/")] + [p for p in post if p.startswith("L/n1.sbom")]
        if left:
            return f"layer entries left: {left}"
        if post.get("L/n1", {}).get("kind") != "dir":
            return "layer path is not a directory after recreate"
    return None


def finalize(run):
    cl = run.extra.get("outcome_classes", {})
    if not any(c.startswith("Ok") for c in cl) or not any(c.startswith("Err") for c in cl):
        run.inconclusive.append(f"vacuity: outcome classes {cl}")


def replay(run, scen):
    real = run.replay.run([scen["scenario"]], unprivileged=True)[0]
    print(json.dumps({"result": real["result"], "violation": real_violation(scen["scenario"], real)}))
    return 0
