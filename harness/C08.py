"""C08 — CNB documents are parsed strictly.

The *derived* `Deserialize` MIR (`deserialize`, `visit_map`, `__FieldVisitor::visit_str`, the untagged
`BuildpackDescriptor`) of every struct in spec/schemas.py is executed on a symbolic document: for each key the schema
defines, and for one key it does not define, presence is a solver variable and the value's kind is the right one or a
wrong one; values of child types are abstracted to "accepted / rejected" (they are checked by their own run: the check is
compositional, a document is strict iff every level is).
"""
import json
import re
from mirsym import smt as z3
from mirsym.core import *
from mirsym import summ_core, summ_coll, summ_serde
from mirsym.summ_core import Ok, Err, Some, NONE, VecV, sval, S
from mirsym.summ_serde import TVal, TomlText, Deser, SerdeErr
from mirsym.run import Inconclusive
from spec import schemas

SHARDS = {"quick": 14, "thorough": 15}
CRATES = ["libcnb-data"]
WRONG = {"str": "int", "bool": "str", "table": "str", "arr_str": "str", "arr_table": "table"}


def prepare(run):
    run.program(CRATES)


class ChildHook:
    """a child type abstracted to accepted/rejected with an identity"""
    def __init__(self, name, wire):
        self.name, self.wire = name, wire

    def deserialize(self, ctx, ty, tv):
        k = tv.decide_kind(ctx)
        if k != self.wire:
            return Err(SerdeErr("invalid_type", (k, self.name)))
        ok = ctx.bad_child != tv.name        # single-point mutation: at most one child value is invalid
        ctx.child_ok[tv.name] = z3.BoolVal(ok)
        if ok:
            return Ok(Opaque("child:" + self.name, tv.name))
        return Err(SerdeErr("custom", f"invalid {self.name}"))

    def missing(self, ctx, md):
        return Err(SerdeErr("missing_field", md.field))


def mk_value(ctx, path, spec, nelems):
    """value for a key of the given schema kind; the single-point mutation chosen on this path may give it (or its
    element) a wrong kind"""
    kind = spec["kind"]
    right = {"str": "str", "bool": "bool", "table": "table", "arr_str": "array", "arr_table": "array"}[kind]
    tv = TVal(path, kind=(WRONG[kind] if ctx.mutation == ("kind", path) else right))
    if kind in ("arr_str", "arr_table") and tv.kind == "array":
        ek = "str" if kind == "arr_str" else "table"
        wrong_e = "int" if ek == "str" else "str"
        tv.elems = [TVal(f"{path}[{i}]", kind=(wrong_e if ctx.mutation == ("elem", path) and i == nelems - 1 else ek)) for i in range(nelems)]
    if tv.kind == "table" and right != "table":
        tv.entries = []
    ctx.values[path] = (tv, spec)
    return tv


def main(run):
    run.bounds = {"structs": sorted(schemas.SCHEMAS), "per struct": "every subset of present keys (symbolic) x one mutation point: none | unknown key | wrong kind at a key | wrong element "
                  "kind | invalid child value or element | empty array | two-element array", "extra": "one key the format does not define, at every table", "children": "abstracted to accepted/rejected (compositional)"}
    run.assumptions = ["toml crate delivers the document as a tree of tables/arrays/scalars (text layer outside)",
                       "serde data-model runtime as summarised in mirsym/summ_serde.py", "identifier/version grammars are C09's subject (abstracted here)"]
    run.outside = ["toml syntax errors", "free-form metadata contents", "LayerContentMetadata<M> (checked in C01/C02)", "the untagged derive of WorkingDirectory (abstracted: any string is a directory)"]
    P = run.program(CRATES)
    summ_core.install(P)
    summ_coll.install(P)
    summ_serde.install(P)
    for (st, prm), d in getattr(P, "type_defaults_src", {}).items():
        P.type_defaults[(st, prm)] = P.type_aliases.get(d, d)

    @P.summary("Deserializer::__deserialize_content", "Content::deserialize")
    def _content(ctx, c):
        d = deref(c.args[0])
        return Ok(Opaque("Content", d.tv))

    @P.summary("ContentVisitor::new")
    def _cv_new(ctx, c):
        return Opaque("ContentVisitor")

    @P.summary("DeserializeSeed::deserialize")
    def _seed(ctx, c):
        d = deref(c.args[1])
        return Ok(Opaque("Content", d.tv))

    @P.summary("ContentRefDeserializer::new")
    def _crd(ctx, c):
        return Deser(deref(c.args[0]).data)

    orig_deser = P.summaries["Deserialize::deserialize"]

    def deser(ctx, c):
        st = c.resolve(c.selfty or "")
        if st.endswith("Content") or "Content<" in st:
            return _content(ctx, c)
        return orig_deser(ctx, c)
    P.summaries["Deserialize::deserialize"] = deser

    structs = list(schemas.SCHEMAS)
    all_children = set(structs) | set(schemas.WIRE) | {sp["child"] for sc in schemas.SCHEMAS.values() for sp in sc.values() if sp["child"]}
    N = 2

    def world_for(struct):
        sch = schemas.SCHEMAS[struct]

        def make_args(ctx):
            ctx.values, ctx.child_ok, ctx.present = {}, {}, {}
            ents = []
            for key, spec in sch.items():
                p = z3.Bool(f"present:{key}")
                ctx.present[key] = p
                ents.append([key, p, None])
            p = z3.Bool("present:zz")
            ctx.present["zz"] = p
            ents.append(["zz", p, TVal("zz", kind="str", scalar="x")])
            ctx.ents = ents
            return []
        return make_args

    def run_struct(struct):
        sch = schemas.SCHEMAS[struct]
        # children other than the struct under test are abstracted
        P.type_hooks.clear()
        for ch in all_children:
            if ch != struct:
                P.type_hooks[ch] = ChildHook(ch, schemas.WIRE.get(ch, "table"))
        P.type_hooks["Map"] = ChildHook("FreeForm", "table")
        P.type_hooks["Table"] = ChildHook("FreeForm", "table")

        def entry(ctx):
            # one mutation point per path: none | unknown key | wrong kind at a key | wrong element kind | invalid child value |
            # invalid child element | empty array | two-element array
            muts = [("none", None), ("unknown", None)]
            for key, spec in sch.items():
                muts.append(("kind", key))
                if spec["kind"].startswith("arr"):
                    muts += [("elem", key), ("empty", key), ("two", key)]
                    if spec["child"] and spec["child"] != "FreeForm":
                        muts.append(("badchild", f"{key}[0]"))
                elif spec["child"] and spec["child"] != "FreeForm":      # free-form metadata cannot be invalid
                    muts.append(("badchild", key))
            ctx.mutation = muts[ctx.choose([True] * len(muts), "mutation")]
            ctx.bad_child = ctx.mutation[1] if ctx.mutation[0] == "badchild" else None
            ctx.assume(ctx.present["zz"] == z3.BoolVal(ctx.mutation[0] == "unknown"))
            if ctx.mutation[1] is not None:
                ctx.assume(ctx.present[ctx.mutation[1].split("[")[0]])       # the mutated key is present
            nel = {}
            for e in ctx.ents:
                key = e[0]
                if key == "zz":
                    continue
                spec = sch[key]
                n = 0
                if spec["kind"].startswith("arr"):
                    n = 0 if ctx.mutation == ("empty", key) else (2 if ctx.mutation == ("two", key) else 1)
                nel[key] = n
                e[2] = mk_value(ctx, key, spec, n)
            ctx.nel = nel
            doc = TVal("doc", kind="table", entries=ctx.ents)
            ty = struct
            r = deref(P.deser_type(ctx, ty, doc))
            return r
        res = run.explore(P, entry, world_for(struct), max_paths=3000000, max_depth=60)
        return res

    def oracle(ctx, struct, r):
        """accepted <=> no unknown key, required keys present, kinds right, children accepted; values/defaults faithful"""
        sch = schemas.SCHEMAS[struct]
        conds = [z3.Not(ctx.present["zz"])]
        for key, spec in sch.items():
            tv, _ = ctx.values[key]
            pres = ctx.present[key]
            right = {"str": "str", "bool": "bool", "table": "table", "arr_str": "array", "arr_table": "array"}[spec["kind"]]
            if spec["default"] == "req":
                conds.append(pres)
            # kind decided on this path?  an undecided kind means the value was never looked at
            if tv.kind is None:
                kind_ok = None
            else:
                kind_ok = tv.kind == right
            elems_ok = True
            child_terms = []
            if kind_ok and spec["kind"].startswith("arr"):
                ek = "str" if spec["kind"] == "arr_str" else "table"
                for e in tv.elems:
                    if e.kind is None:
                        elems_ok = None if elems_ok is not False else False
                    elif e.kind != ek:
                        elems_ok = False
                    if spec["child"] and e.name in ctx.child_ok:
                        child_terms.append(ctx.child_ok[e.name])
            if spec["child"] and tv.name in ctx.child_ok:
                child_terms.append(ctx.child_ok[tv.name])
            yield key, pres, kind_ok, elems_ok, child_terms

    pending = []
    totals = {}
    for struct in structs:
        fname = P.find_fn("deserialize", first_param="__D", ret=struct)
        if fname is None or isinstance(fname, tuple):
            run.inconclusive.append(f"derived Deserialize for {struct} not found ({fname})")
            continue
        run.encoded(P, [fname])
        res = run_struct(struct)
        acc = rej = 0
        for ctx, (kind, r) in res:
            if kind != "return":
                run.inconclusive.append(f"{struct}: path ends with {kind}: {str(r)[:160]}")
                continue
            accepted = r.variant == "Ok"
            acc += accepted
            rej += not accepted
            sch = schemas.SCHEMAS[struct]
            # spec acceptance as a formula over the path's symbolic facts; kinds/children concrete on the path
            spec_terms = [z3.Not(ctx.present["zz"])]
            undetermined = False
            for key, pres, kind_ok, elems_ok, child_terms in oracle(ctx, struct, r):
                spec = sch[key]
                if spec["default"] == "req":
                    spec_terms.append(pres)
                if kind_ok is None or elems_ok is None:
                    # the implementation never inspected this value: fine only if the key is absent on this path
                    spec_terms.append(z3.Not(pres) if accepted else z3.BoolVal(True))
                    undetermined = undetermined or not accepted
                    continue
                ok_here = z3.BoolVal(bool(kind_ok and elems_ok))
                spec_terms.append(z3.Implies(pres, z3.And(ok_here, *child_terms)))
            spec_accept = z3.And(spec_terms)
            run.obligation()
            want = list(ctx.present.values()) + list(ctx.child_ok.values())
            if accepted:
                ans, m = run.check(ctx.pc + [z3.Not(spec_accept)], f"{struct}.accepts-only-conforming", want=want)
                if ans == "sat":
                    pending.append((struct, ctx, m, r, "accepts-nonconforming"))
                    continue
                # value fidelity: every field equals the document's value or the spec default
                fid = fidelity(P, ctx, struct, r)
                run.obligation()
                ans, m = run.check(ctx.pc + [z3.Not(fid)], f"{struct}.values-faithful", want=want)
                if ans == "sat":
                    pending.append((struct, ctx, m, r, "values-differ"))
                    continue
            elif not undetermined:
                ans, m = run.check(ctx.pc + [spec_accept], f"{struct}.rejects-only-nonconforming", want=want)
                if ans == "sat":
                    pending.append((struct, ctx, m, r, "rejects-conforming"))
                    continue
            if (acc + rej) % (11 if run.tier == "quick" else 1) == 0:
                ans, m = run.check(ctx.pc, "witness", want=want)
                if ans == "sat":
                    pending.append((struct, ctx, m, r, None))
        totals[struct + ":accepted"] = acc
        totals[struct + ":rejected"] = rej
        run.log(f"{struct}: {acc} accepting, {rej} rejecting paths")
    run.extra["struct_paths"] = totals
    descriptor_kind(run, P, pending, totals)
    # replay
    if run.tier == "quick":
        cands = [p for p in pending if p[4] is not None]
        wit = [p for p in pending if p[4] is None]
        pending = cands[:60] + wit[::max(1, len(wit) // 120)]
    reqs = [{"op": "serde-doc", "struct": struct, "toml": render(struct, ctx, m)} for struct, ctx, m, r, sig in pending]
    reals = run.replay.run(reqs)
    for (struct, ctx, m, r, sig), req, real in zip(pending, reqs, reals):
        if "panic" in real or "error" in real:
            run.mismatch(f"replay driver failed: {real} on {req}")
            continue
        accepted = r.variant == "Ok" if hasattr(r, "variant") else r
        if bool(real["ok"]) != bool(accepted):
            run.mismatch(f"{struct}: predicted accepted={accepted}, real {real}; document:\n{req['toml']}")
            continue
        run.stats["validated"] += 1
        if sig is None:
            run.sample({"struct": struct, "accepted": bool(accepted), "toml": req["toml"]}, limit=8)
        else:
            run.candidate(f"{struct}:{sig}", f"{struct} {'accepts' if accepted else 'rejects'}:\n{req['toml']}", req, True)


GOOD = {"ProcessType": '"web"', "WorkingDirectory": '"sub/dir"', "BuildpackApi": '"0.10"', "BuildpackId": '"a/b"', "BuildpackVersion": '"1.2.3"', "SbomFormat": '"application/spdx+json"', "PlatformOs": '"linux"'}
BAD = {"ProcessType": '"w b"', "WorkingDirectory": None, "BuildpackApi": '"x"', "BuildpackId": '"app"', "BuildpackVersion": '"1.2"', "SbomFormat": '"nope"', "PlatformOs": '"beos"'}
GOOD_TABLE = {"Buildpack": 'id = "a/b"\nversion = "1.2.3"', "License": 'type = "MIT"', "Order": '[[{p}.group]]\nid = "a/b"\nversion = "1.2.3"', "Group": 'id = "a/b"\nversion = "1.2.3"',
              "BuildpackTarget": 'os = "linux"', "Distro": 'name = "u"\nversion = "1"', "Stack": 'id = "*"', "Entry": 'name = "n"', "FreeForm": 'k = "v"',
              "PackageDescriptorBuildpackReference": 'uri = "."', "PackageDescriptorDependency": 'uri = "docker://x/y"', "Platform": 'os = "linux"',
              "Label": 'key = "k"\nvalue = "v"', "Process": 'type = "web"\ncommand = ["c"]', "Slice": 'paths = ["a"]'}
BAD_TABLE = {k: 'zz_unknown = 1' for k in GOOD_TABLE}
BAD_TABLE["FreeForm"] = None


def render(struct, ctx, m):
    """concrete TOML text for a model of one path"""
    if struct == "BuildpackDescriptor":
        sch = dict(schemas.SCHEMAS["ComponentBuildpackDescriptor"])
        sch.update(schemas.SCHEMAS["CompositeBuildpackDescriptor"])
    else:
        sch = schemas.SCHEMAS[struct]
    scal, tabs = [], []
    pres = lambda k: m.bool(ctx.present[k])
    if pres("zz"):
        scal.append('zz = "x"')
    for key, spec in sch.items():
        if not pres(key):
            continue
        tv, _ = ctx.values[key]
        kind = tv.kind or {"str": "str", "bool": "bool", "table": "table", "arr_str": "array", "arr_table": "array"}[spec["kind"]]
        child = spec["child"]

        def child_ok(name):
            t = ctx.child_ok.get(name)
            return True if t is None else m.bool(t)

        def scalar(k_, name):
            if k_ == "str":
                if child in GOOD:
                    return GOOD[child] if child_ok(name) else BAD[child]
                return '"s"'
            return {"int": "7", "bool": "true"}[k_]
        if kind in ("str", "int", "bool"):
            scal.append(f'{json.dumps(key) if "-" in key else key} = {scalar(kind, tv.name)}')
        elif kind == "table":
            body = (GOOD_TABLE.get(child, 'k = "v"') if child_ok(tv.name) else (BAD_TABLE.get(child) or 'k = "v"')).replace("{p}", key)
            tabs.append(f"[{key}]\n{body}")
        else:
            elems = tv.elems or []
            ek = [e.kind or ("str" if spec["kind"] == "arr_str" else "table") for e in elems]
            if all(k_ != "table" for k_ in ek):
                scal.append(f'{json.dumps(key) if "-" in key else key} = [' + ", ".join(scalar(k_, e.name) for k_, e in zip(ek, elems)) + "]")
            elif all(k_ == "table" for k_ in ek):
                for e in elems:
                    body = (GOOD_TABLE.get(child, 'k = "v"') if child_ok(e.name) else (BAD_TABLE.get(child) or 'k = "v"')).replace("{p}", key)
                    tabs.append(f"[[{key}]]\n{body}")
            else:
                items = []
                for k_, e in zip(ek, elems):
                    if k_ == "table":
                        body = GOOD_TABLE.get(child, 'k = "v"') if child_ok(e.name) else (BAD_TABLE.get(child) or 'k = "v"')
                        items.append("{ " + ", ".join(body.replace("{p}", key).split("\n")) + " }")
                    else:
                        items.append(scalar(k_, e.name))
                scal.append(f'{json.dumps(key) if "-" in key else key} = [' + ", ".join(items) + "]")
    return "\n".join(scal + tabs) + "\n"


def fidelity(P, ctx, struct, r):
    """the parsed struct's fields equal the document's values, absent optional keys take the spec defaults"""
    sch = schemas.SCHEMAS[struct]
    v = deref(r.fields[0])
    conds = []
    src_names = {"clear-env": "clear_env", "sbom-formats": "sbom_formats", "type": "type"}
    for key, spec in sch.items():
        fname = src_names.get(key, key.replace("-", "_"))
        try:
            idx = P.field_index(struct, fname)
        except Unsupported:
            try:
                idx = P.field_index(struct, "r#" + fname)
            except Unsupported:
                continue
        fv = deref(v.fields[idx])
        tv, _ = ctx.values[key]
        pres = ctx.present[key]
        d = spec["default"]
        if spec["kind"] in ("str", "bool") and not spec["child"]:
            if isinstance(fv, Adt) and fv.ty == "Option":
                conds.append(z3.BoolVal(fv.variant == "Some") == pres)
                if fv.variant == "Some" and tv.scalar is not None:
                    x = deref(fv.fields[0])
                    conds.append((S(x) == S(tv.scalar)) if spec["kind"] == "str" else (x == tv.scalar if is_sym(x) or is_sym(tv.scalar) else z3.BoolVal(x == tv.scalar)))
            else:
                if spec["kind"] == "bool":
                    dv = d if isinstance(d, bool) else False
                    conds.append(z3.If(pres, (fv if is_sym(fv) else z3.BoolVal(fv)) == (tv.scalar if tv.scalar is not None else z3.BoolVal(dv)),
                                       (fv if is_sym(fv) else z3.BoolVal(fv)) == z3.BoolVal(dv)))
                elif tv.scalar is not None:
                    conds.append(z3.Implies(pres, S(fv) == S(tv.scalar)))
        elif spec["kind"].startswith("arr") and isinstance(fv, VecV):
            conds.append(z3.If(pres, z3.BoolVal(len(fv.items) == len(tv.elems or [])), z3.BoolVal(len(fv.items) == 0)))
        elif spec["kind"].startswith("arr") and hasattr(fv, "items"):
            conds.append(z3.Implies(z3.Not(pres), z3.BoolVal(len(fv.items) == 0)))
        elif spec["kind"] == "table" and isinstance(fv, Adt) and fv.ty == "Option":
            conds.append(z3.BoolVal(fv.variant == "Some") == pres)
    return z3.And(conds) if conds else z3.BoolVal(True)


def descriptor_kind(run, P, pending, totals):
    """BuildpackDescriptor (untagged): composite iff `order` present; `order` together with `stacks`/`targets` rejected"""
    fname = P.find_fn("deserialize", first_param="__D", ret="BuildpackDescriptor<BM>") or P.find_fn("deserialize", first_param="__D", ret="BuildpackDescriptor")
    if fname is None or isinstance(fname, tuple):
        run.inconclusive.append(f"BuildpackDescriptor deserialize not found ({fname})")
        return
    run.encoded(P, [fname])
    P.type_hooks.clear()
    for ch in ("BuildpackApi", "Buildpack", "Stack", "BuildpackTarget", "Order"):
        P.type_hooks[ch] = ChildHook(ch, schemas.WIRE.get(ch, "table"))
    P.type_hooks["Map"] = ChildHook("FreeForm", "table")
    keys = ["api", "buildpack", "stacks", "targets", "order", "metadata"]
    specs = dict(schemas.SCHEMAS["ComponentBuildpackDescriptor"])
    specs.update(schemas.SCHEMAS["CompositeBuildpackDescriptor"])

    def make_args(ctx):
        ctx.values, ctx.child_ok, ctx.present = {}, {}, {}
        ctx.bad_child, ctx.mutation = None, ("none", None)
        ents = []
        for key in keys + ["zz"]:
            ctx.present[key] = z3.Bool(f"present:{key}")
            ents.append([key, ctx.present[key], None])
        ctx.ents = ents
        return []

    def entry(ctx):
        for e in ctx.ents:
            if e[0] == "zz":
                e[2] = TVal("zz", kind="str", scalar="x")
                continue
            spec = specs[e[0]]
            right = {"str": "str", "table": "table", "arr_table": "array"}[spec["kind"]]
            tv = TVal(e[0], kind=right)          # kinds are right here (kind errors are covered per struct)
            if right == "array":
                n = ctx.choose([True, True], f"len:{e[0]}")        # empty or one element
                tv.elems = [TVal(f"{e[0]}[0]", kind="table")] * n
            ctx.values[e[0]] = (tv, spec)
            e[2] = tv
        doc = TVal("doc", kind="table", entries=ctx.ents)
        return deref(P.deser_type(ctx, "BuildpackDescriptor", doc))
    res = run.explore(P, entry, make_args, max_paths=1000000, max_depth=60)
    n = 0
    for ctx, (kind, r) in res:
        if kind != "return":
            run.inconclusive.append(f"BuildpackDescriptor: path ends with {kind}: {str(r)[:160]}")
            continue
        n += 1
        pr = ctx.present
        children = z3.And(list(ctx.child_ok.values())) if ctx.child_ok else z3.BoolVal(True)
        base = z3.And(z3.Not(pr["zz"]), pr["api"], pr["buildpack"])
        comp_ok = z3.And(base, z3.Not(pr["order"]))
        cpst_ok = z3.And(base, pr["order"], z3.Not(pr["stacks"]), z3.Not(pr["targets"]))
        want = list(pr.values()) + list(ctx.child_ok.values())
        run.obligation()
        if r.variant == "Ok":
            which = deref(r.fields[0]).variant
            cl = comp_ok if which == "Component" else cpst_ok
            # children that were looked at on this path were accepted (else no Ok); the classification must follow `order`
            ans, m = run.check(ctx.pc + [z3.Not(cl)], "descriptor.classification", want=want)
            if ans == "sat":
                pending.append(("BuildpackDescriptor", ctx, m, r, f"misclassified-as-{which}"))
        else:
            # rejected although the document is a conforming component or composite descriptor (children accepted)
            unseen = [k for k in keys if f"{k}" not in ctx.child_ok and not any(c.startswith(k) for c in ctx.child_ok)]
            ans, m = run.check(ctx.pc + [z3.Or(comp_ok, cpst_ok), children] + [ctx_ok_all(ctx)], "descriptor.rejects-conforming", want=want)
            if ans == "sat":
                pending.append(("BuildpackDescriptor", ctx, m, r, "rejects-conforming"))
    totals["BuildpackDescriptor:paths"] = n


def ctx_ok_all(ctx):
    return z3.BoolVal(True)


def finalize(run):
    t = run.extra.get("struct_paths", {})
    for s_ in schemas.SCHEMAS:
        if not t.get(s_ + ":accepted") or not t.get(s_ + ":rejected"):
            run.inconclusive.append(f"vacuity: {s_} accepted={t.get(s_ + ':accepted')} rejected={t.get(s_ + ':rejected')}")
    if not t.get("BuildpackDescriptor:paths"):
        run.inconclusive.append("vacuity: BuildpackDescriptor never explored")


def replay(run, scen):
    real = run.replay.run([scen["scenario"]])[0]
    print(json.dumps(real))
    return 0
