"""C07 — written TOML decodes under an independent reader to the intended spec document (serde data-model level).

Executed from MIR: BuildPlanBuilder::{new, provides, requires, or, build}, Require::new / From<S>, LaunchBuilder::{new,
process, label, slice, build}, ProcessBuilder::{new, arg, default, working_directory, build}, the derived / hand-written
Serialize of BuildPlan, Or, Provide, Require, Launch, Process, WorkingDirectory, Label, Slice, Store,
ExecDProgramOutput(+Key), write_toml_file, write_exec_d_program_output, and - for the types libcnb reads back - the derived
Deserialize through read_toml_file.  Builder call sequences are chosen step by step, every string payload is an SMT
string, booleans are solver variables.  The document the model serializer produced (a tree: the toml crate's text layer is
not part of the claim) is decoded by an independent reader that applies the CNB spec's field names and defaults
(spec_read_* below) and the solver decides that it equals the constructed value.
"""
import json
from mirsym import smt as z3
from mirsym.core import *
from mirsym import summ_core, summ_coll, summ_fs, summ_serde
from mirsym.summ_core import Ok, Err, Some, NONE, VecV, sval, S
from mirsym.summ_coll import AssocV
from mirsym.summ_fs import World, FILE, DIR, ABSENT
from mirsym.summ_serde import TVal, TomlText
from mirsym.run import Inconclusive
from spec import grammars
from harness import C09

SHARDS = {"quick": 12, "thorough": 14}
CRATES = ["libcnb-data", "libcnb-common", "libcnb"]
OUT = "/out/doc.toml"
RUST_STR = z3.Star(z3.Union(z3.Range("\x00", "\ud7ff"), z3.Range("\ue000", "\U0002ffff")))      # any Unicode scalar value


def prepare(run):
    run.program(CRATES)


def main(run):
    quick = run.tier == "quick"
    LP = 4 if quick else 5          # build-plan builder calls
    LL = 3                          # launch builder calls (quick: representative process shapes; thorough: the full product of shapes)
    run.bounds = {"build plan": f"every BuildPlanBuilder call sequence of length 0..{LP} over {{provides, requires, requires with metadata, or}} (so empty groups in every position), names SMT strings",
                  "launch": f"every LaunchBuilder call sequence of length 0..{LL} over {{process (command of 1..2 words, 0..1 args, default flag symbolic, working directory app | symbolic path), label, slice (1..2 globs)}}, all payloads SMT strings",
                  "store": "metadata table (identity-tracked)", "exec.d": "0..2 key/value pairs, keys in the key grammar, values arbitrary strings"}
    run.assumptions = ["free-form tables tracked by identity", "reading back: the #[serde(untagged)] derive of WorkingDirectory is a hook (string -> Directory), serde's private Content buffering is not executed", "strings are sequences of Unicode scalar values (any, incl. quotes, backslashes, control characters, NUL, empty)"]
    run.outside = ["the toml crate's tree -> text step (escaping, TOML 1.0 validity of the bytes): witnesses are replayed through the real toml::to_string and Python's tomllib, "
                   "but no for-all claim is made about the text layer", "LayerContentMetadata (C01/C02), package descriptors (C14)"]
    P = run.program(CRATES)
    summ_core.install(P)
    summ_coll.install(P)
    summ_fs.install(P)
    summ_serde.install(P)
    C09.install_regex(P, [])
    for (st, prm), d in getattr(P, "type_defaults_src", {}).items():
        P.type_defaults[(st, prm)] = P.type_aliases.get(d, d)

    class WdHook:
        """#[serde(untagged)] WorkingDirectory: serde buffers the value (private Content machinery) and tries the variants in
        order - the unit variant App matches only a unit value (TOML has none), Directory(PathBuf) matches a string"""
        def deserialize(self, ctx, ty, tv):
            if tv.decide_kind(ctx) == "str":
                if tv.scalar is None:
                    tv.scalar = ctx.fresh(tv.name, z3.StringSort())
                return Ok(Adt("WorkingDirectory", "Directory", [tv.scalar]))
            return Err(summ_serde.SerdeErr("custom", "data did not match any variant of untagged enum WorkingDirectory"))
    P.type_hooks["WorkingDirectory"] = WdHook()

    def m_(ty, name, trait=None):
        k = P.impl_index.get((ty, trait, name))
        if not k:
            raise Inconclusive(f"{ty}::{name} not found in MIR")
        return k
    bp_new, bp_prov, bp_req, bp_or, bp_build = (m_("BuildPlanBuilder", n) for n in ("new", "provides", "requires", "or", "build"))
    lb_new, lb_proc, lb_label, lb_slice, lb_build = (m_("LaunchBuilder", n) for n in ("new", "process", "label", "slice", "build"))
    pb_new, pb_arg, pb_default, pb_wd, pb_build = (m_("ProcessBuilder", n) for n in ("new", "arg", "default", "working_directory", "build"))
    f_write = [k for k, f in P.funcs.items() if f is not None and f.name == "write_toml_file"]
    f_read = [k for k, f in P.funcs.items() if f is not None and f.name == "read_toml_file"]
    f_execd = [k for k, f in P.funcs.items() if f is not None and f.name == "write_exec_d_program_output"]
    if len(f_write) != 1 or len(f_read) != 1 or len(f_execd) != 1:
        raise Inconclusive("write_toml_file/read_toml_file/write_exec_d_program_output not found")
    f_write, f_read, f_execd = f_write[0], f_read[0], f_execd[0]
    run.encoded(P, [bp_new, bp_prov, bp_req, bp_or, bp_build, lb_new, lb_proc, lb_label, lb_slice, lb_build, pb_new, pb_arg, pb_default, pb_wd, pb_build, f_write, f_read, f_execd])

    @P.summary("File::from_raw_fd", "FromRawFd::from_raw_fd")
    def _from_raw_fd(ctx, c):
        fd = deref(c.args[0])
        p = f"/dev/fd/{fd}"
        ctx.world.add(p, FILE, content="")
        return P.file_value(ctx, p) if hasattr(P, "file_value") else summ_fs_file(ctx, p)

    def summ_fs_file(ctx, p):
        r = P.summaries["File::create"](ctx, type("C", (), {"args": [p], "key": "File::create", "callee": "File::create", "selfty": None, "gen": None, "tyenv": {}, "resolve": lambda self, t: t})())
        return deref(r).fields[0]

    def sstr(ctx, name):
        v = z3.String(name)
        ctx.assume(z3.InRe(v, RUST_STR))
        return v

    def write(ctx, value, ty):
        r = P.call(ctx, f_write, [Ref(Box(value)), OUT], tyenv={"T": ty, "impl AsRef<Path>": "&str"})
        r = deref(r)
        if r.variant != "Ok":
            return None
        n = ctx.world.fs[OUT]
        if not isinstance(n.content, TomlText):
            raise Unsupported(f"written content is not a document: {n.content!r}")
        return n.content.tree

    def entry(ctx):
        w = ctx.world
        w.add("/out", DIR)
        w.add("/dev", DIR)
        w.add("/dev/fd", DIR)
        doc = ["build-plan", "launch", "store", "exec.d"][ctx.choose([True] * 4, "document")]
        ctx.doc = doc
        if doc == "build-plan":
            n = ctx.choose([True] * (LP + 1), "calls")
            b = P.call(ctx, bp_new, [], tyenv={})
            ops = []
            for i in range(n):
                op = ["provides", "requires", "requires+metadata", "or"][ctx.choose([True] * 4, f"call{i}")]
                if op == "provides":
                    nm = sstr(ctx, f"name{i}")
                    b = P.call(ctx, bp_prov, [b, nm], tyenv={"impl AsRef<str>": "&str"})
                    ops.append(("provides", nm, None))
                elif op == "or":
                    b = P.call(ctx, bp_or, [b], tyenv={})
                    ops.append(("or", None, None))
                else:
                    nm = sstr(ctx, f"name{i}")
                    if op == "requires":
                        b = P.call(ctx, bp_req, [b, nm], tyenv={"impl Into<Require>": "&str"})
                        ops.append(("requires", nm, 0))
                    else:
                        mid = z3.Int(f"meta{i}")
                        ctx.assume(mid > 0)
                        req = P.mk_struct("Require", name=nm, metadata=Opaque("toml", TVal(f"meta{i}", kind="table", ident=mid)))
                        b = P.call(ctx, bp_req, [b, req], tyenv={"impl Into<Require>": "Require"})
                        ops.append(("requires", nm, mid))
            ctx.ops = ops
            plan = P.call(ctx, bp_build, [b], tyenv={})
            ctx.value = plan
            return {"tree": write(ctx, plan, "BuildPlan")}
        if doc == "launch":
            n = ctx.choose([True] * (LL + 1), "calls")
            lb = Ref(Box(P.call(ctx, lb_new, [], tyenv={})))
            ops = []
            for i in range(n):
                op = ["process", "label", "slice"][ctx.choose([True] * 3, f"call{i}")]
                if op == "label":
                    k, v = sstr(ctx, f"lk{i}"), sstr(ctx, f"lv{i}")
                    P.call(ctx, lb_label, [lb, P.mk_struct("Label", key=k, value=v)], tyenv={"L": "Label"})
                    ops.append(("label", k, v))
                elif op == "slice":
                    ng = 1 + ctx.choose([True, True], f"globs{i}")
                    gl = [sstr(ctx, f"glob{i}_{j}") for j in range(ng)]
                    P.call(ctx, lb_slice, [lb, P.mk_struct("Slice", path_globs=VecV(list(gl)))], tyenv={"S": "Slice"})
                    ops.append(("slice", gl, None))
                else:
                    ty = z3.String(f"ptype{i}")
                    ctx.assume(z3.InRe(ty, grammars.process_type()))
                    if quick:
                        # representative process shapes (the thorough tier takes the full product)
                        nc, has_arg, has_default, wdk = [(1, 0, 0, 0), (2, 1, 1, 2), (1, 1, 1, 1), (1, 0, 0, 2)][ctx.choose([True] * 4, f"shape{i}")]
                    else:
                        nc = 1 + ctx.choose([True, True], f"cmd{i}")
                        has_arg = ctx.choose([True, True], f"arg{i}")
                        has_default = ctx.choose([True, True], f"default-called{i}")
                        wdk = ctx.choose([True] * 3, f"wd{i}")
                    cmd = [sstr(ctx, f"cmd{i}_{j}") for j in range(nc)]
                    pb = Ref(Box(P.call(ctx, pb_new, [Adt("ProcessType", None, [ty]), VecV(list(cmd))], tyenv={"impl IntoIterator<Item = impl Into<String>>": "Vec<String>"})))
                    args = []
                    if has_arg:
                        a = sstr(ctx, f"arg{i}")
                        P.call(ctx, pb_arg, [pb, a], tyenv={"impl Into<String>": "&str"})
                        args.append(a)
                    dflt = None
                    if has_default:
                        dflt = z3.Bool(f"default{i}")
                        P.call(ctx, pb_default, [pb, dflt], tyenv={})
                    wd = None
                    if wdk == 1:
                        P.call(ctx, pb_wd, [pb, Adt("WorkingDirectory", "App", [])], tyenv={})
                    elif wdk == 2:
                        wd = sstr(ctx, f"wdir{i}")
                        P.call(ctx, pb_wd, [pb, Adt("WorkingDirectory", "Directory", [wd])], tyenv={})
                    proc = P.call(ctx, pb_build, [pb], tyenv={})
                    P.call(ctx, lb_proc, [lb, proc], tyenv={"P": "Process"})
                    ops.append(("process", dict(type=ty, command=cmd, args=args, default=dflt, wd=wd), None))
            ctx.ops = ops
            launch = P.call(ctx, lb_build, [lb], tyenv={})
            ctx.value = launch
            tree = write(ctx, launch, "Launch")
            back = None
            if tree is not None:
                back = deref(P.call(ctx, f_read, [OUT], tyenv={"A": "Launch", "impl AsRef<Path>": "&str"}))
            return {"tree": tree, "back": back}
        if doc == "store":
            mid = z3.Int("store_meta")
            ctx.assume(mid > 0)
            ctx.ops = [("store", mid, None)]
            st = P.mk_struct("Store", metadata=Opaque("toml", TVal("store.metadata", kind="table", ident=mid)))
            ctx.value = st
            tree = write(ctx, st, "Store")
            back = deref(P.call(ctx, f_read, [OUT], tyenv={"A": "Store", "impl AsRef<Path>": "&str"})) if tree is not None else None
            return {"tree": tree, "back": back}
        # exec.d
        n = ctx.choose([True] * 3, "pairs")
        m = AssocV(False)
        pairs = []
        for i in range(n):
            k, v = z3.String(f"ek{i}"), sstr(ctx, f"ev{i}")
            ctx.assume(z3.InRe(k, grammars.exec_d_key()))
            summ_coll.insert(ctx, m, Adt("ExecDProgramOutputKey", None, [k]), v)
            pairs.append((k, v))
        ctx.ops = [(deref(k).fields[0], v) for k, v in m.items]
        out = Adt("ExecDProgramOutput", None, [m])
        P.call(ctx, f_execd, [out], tyenv={"O": "ExecDProgramOutput"})
        n3 = ctx.world.fs.get("/dev/fd/3")
        if n3 is None or not isinstance(n3.content, TomlText):
            raise Unsupported(f"fd 3 received {getattr(n3, 'content', None)!r}")
        return {"tree": n3.content.tree}

    res = run.explore(P, entry, lambda ctx: [], world_factory=lambda ctx: World(ctx), max_paths=3000000, max_depth=80)
    run.log(f"{len(res)} paths")
    pending, docs = [], {}
    n = 0
    for ctx, (kind, out) in res:
        if kind != "return":
            run.inconclusive.append(f"path ends with {kind}: {str(out)[:200]}")
            continue
        n += 1
        docs[ctx.doc] = docs.get(ctx.doc, 0) + 1
        viol = oracle(P, ctx, out)
        want = wanted(ctx)
        run.obligation(len(viol) + 1)
        found = None
        for sig, what, cond in viol:
            ans, m = run.check(ctx.pc + ([] if cond is True else [cond]), f"{ctx.doc}:{sig}", want=want, timeout_ms=30000)
            if ans == "sat":
                found = (sig, what, m)
                break
        if found is None and n % (11 if quick else 5) == 0:
            ans, m = run.check(ctx.pc, "witness", want=want, timeout_ms=30000)
            if ans == "sat":
                found = (None, None, m)
        if found:
            pending.append((ctx, out, found))
    run.extra["docs"] = docs
    cands = [p for p in pending if p[2][0]]
    wit = [p for p in pending if not p[2][0]]
    seen, keep = {}, []
    for p in cands:
        if seen.setdefault((p[0].doc, p[2][0]), 0) < 3:
            seen[(p[0].doc, p[2][0])] += 1
            keep.append(p)
    pending = keep + wit[:150 if quick else 500]
    reqs = [request(ctx, m) for ctx, out, (sig, what, m) in pending]
    reals = run.replay.run(reqs, timeout=900)
    import tomllib
    for (ctx, out, (sig, what, m)), req, real in zip(pending, reqs, reals):
        if "error" in real or "panic" in real:
            run.mismatch(f"replay driver failed: {real} on {req}")
            continue
        try:
            parsed = tomllib.loads(real["text"])
        except Exception as e:      # the real text is not valid TOML: a text-layer defect, reported as such
            run.candidate("text-not-valid-toml", f"{req} -> {real['text']!r}: {e}", req, True)
            continue
        exp = expected_document(req)
        diff = None if parsed == exp else f"independent reader got {parsed!r}, constructed {exp!r}"
        pred = tree_to_py(ctx, m, out["tree"])
        if pred != parsed:
            run.mismatch(f"model document {pred!r} real document {parsed!r} for {req}")
            continue
        run.stats["validated"] += 1
        if sig is None:
            if diff:
                run.mismatch(f"real document differs from the constructed value where the model saw none: {diff}")
            else:
                run.sample({"request": req, "text": real["text"]}, limit=6)
        else:
            run.candidate(sig, f"{what}; {req} -> {real['text']!r}: {diff}", req, bool(diff))


def wanted(ctx):
    out = []
    for op in ctx.ops:
        for x in op:
            if isinstance(x, dict):
                for v in x.values():
                    out += [y for y in (v if isinstance(v, list) else [v]) if y is not None and z3.is_expr(y)]
            elif isinstance(x, list):
                out += [y for y in x if z3.is_expr(y)]
            elif x is not None and not isinstance(x, (str, int)) and z3.is_expr(x):
                out.append(x)
    return out


# ---------------------------------------------------------------------------------------------------------------------------
# independent reader: CNB spec field names and defaults applied to the written tree

def entries_of(ctx_pc_unused, tv):
    """[(key, present, TVal)] of a table"""
    if tv is None or tv.kind != "table" or tv.entries is None:
        raise Unsupported(f"reader: not an explicit table: {tv!r}")
    return tv.entries


def get(tv, key):
    hits = [(p, v) for k, p, v in entries_of(None, tv) if k == key]
    if len(hits) > 1:
        raise Unsupported(f"reader: key {key} written twice")
    return hits[0] if hits else (False, None)


def known_keys(tv, allowed):
    return [k for k, p, v in entries_of(None, tv) if k not in allowed and p is not False]


def arr(tv):
    if tv.kind != "array" or tv.elems is None:
        raise Unsupported(f"reader: not an array: {tv!r}")
    return tv.elems


def scalar(tv, kind):
    if tv.kind != kind or tv.scalar is None:
        raise Unsupported(f"reader: expected a {kind}: {tv!r}")
    return tv.scalar


def B(x):
    return z3.BoolVal(x) if isinstance(x, bool) else x


def read_group(tv):
    """provides/requires of a build plan or of one [[or]] table -> (provides names, requires (name, meta id))"""
    prov, req = [], []
    p, v = get(tv, "provides")
    if p is True:
        prov = [scalar(get(e, "name")[1], "str") for e in arr(v)]
    elif p is not False:
        raise Unsupported("reader: conditional key")
    p, v = get(tv, "requires")
    if p is True:
        for e in arr(v):
            mp, mv = get(e, "metadata")
            req.append((scalar(get(e, "name")[1], "str"), (mv.ident if mv.ident is not None else 0) if mp is True else 0))
    return prov, req


def oracle(P, ctx, out):
    res = []
    tree = out["tree"]
    if tree is None:
        return [("write-failed", "serialisation/writing failed for a value built through the public API", True)]
    conds = []
    if ctx.doc == "build-plan":
        # reference reading of the call sequence: `or` closes a group; the first group is the top level, each further one an [[or]] table
        groups, cur = [], ([], [])
        for op, nm, mid in ctx.ops:
            if op == "or":
                groups.append(cur)
                cur = ([], [])
            elif op == "provides":
                cur[0].append(nm)
            else:
                cur[1].append((nm, mid))
        groups.append(cur)
        extra = known_keys(tree, {"provides", "requires", "or"})
        if extra:
            res.append(("unknown-key", f"keys {extra} are not in the build plan schema", True))
        got = [read_group(tree)]
        p, v = get(tree, "or")
        if p is True:
            for e in arr(v):
                ex = known_keys(e, {"provides", "requires"})
                if ex:
                    res.append(("unknown-key", f"keys {ex} in an [[or]] table", True))
                got.append(read_group(e))
        # trailing/inner groups that are empty on both sides denote "nothing" and must still be present as alternatives
        if len(got) != len(groups):
            res.append(("alternative-count", f"{len(got) - 1} [[or]] tables written for {len(groups) - 1} or() calls (groups {[(len(a), len(b)) for a, b in groups]})", True))
        else:
            for (gp, gr), (ep, er) in zip(got, groups):
                if len(gp) != len(ep) or len(gr) != len(er):
                    res.append(("group-size", f"group sizes written {(len(gp), len(gr))} constructed {(len(ep), len(er))}", True))
                    continue
                conds += [S(a) != S(b) for a, b in zip(gp, ep)]
                for (a, am), (b, bm) in zip(gr, er):
                    conds.append(z3.Or(S(a) != S(b), (am != bm) if not (isinstance(am, int) and isinstance(bm, int)) else z3.BoolVal(am != bm)))
    elif ctx.doc == "launch":
        exp = {"process": [o[1] for o in ctx.ops if o[0] == "process"], "label": [(o[1], o[2]) for o in ctx.ops if o[0] == "label"], "slice": [o[1] for o in ctx.ops if o[0] == "slice"]}
        extra = known_keys(tree, {"labels", "processes", "slices"})
        if extra:
            res.append(("unknown-key", f"keys {extra} are not in the launch.toml schema", True))

        def lst(key):
            p, v = get(tree, key)
            if p is True:
                return arr(v)
            if p is False:
                return []
            raise Unsupported("reader: conditional key")
        procs, labels, slices = lst("processes"), lst("labels"), lst("slices")
        if (len(procs), len(labels), len(slices)) != (len(exp["process"]), len(exp["label"]), len(exp["slice"])):
            res.append(("entry-count", f"written {(len(procs), len(labels), len(slices))} processes/labels/slices, constructed {(len(exp['process']), len(exp['label']), len(exp['slice']))}", True))
        else:
            for tv, e in zip(procs, exp["process"]):
                ex = known_keys(tv, {"type", "command", "args", "default", "working-dir"})
                if ex:
                    res.append(("unknown-key", f"keys {ex} in a process table", True))
                conds.append(S(scalar(get(tv, "type")[1], "str")) != e["type"])
                cmd = [scalar(x, "str") for x in arr(get(tv, "command")[1])]
                if len(cmd) != len(e["command"]):
                    res.append(("command-length", "command length differs", True))
                else:
                    conds += [S(a) != b for a, b in zip(cmd, e["command"])]
                # args: default []
                ap, av = get(tv, "args")
                if ap is True:
                    a_ = [scalar(x, "str") for x in arr(av)]
                elif ap is False:
                    a_ = []
                else:
                    raise Unsupported("reader: conditional args key")
                if len(a_) != len(e["args"]):
                    res.append(("args-length", f"{len(a_)} args written, {len(e['args'])} constructed", True))
                else:
                    conds += [S(a) != b for a, b in zip(a_, e["args"])]
                # default: false when absent
                dp, dv = get(tv, "default")
                want_d = e["default"] if e["default"] is not None else z3.BoolVal(False)
                got_d = z3.If(B(dp), B(scalar(dv, "bool")), z3.BoolVal(False)) if dv is not None else z3.BoolVal(False)
                conds.append(got_d != want_d)
                # working-dir: the app directory when absent; "." denotes the app directory as well
                wp, wv = get(tv, "working-dir")
                if e["wd"] is None:
                    if wv is not None:
                        conds.append(z3.And(B(wp), S(scalar(wv, "str")) != z3.StringVal(".")))
                else:
                    if wv is None:
                        conds.append(e["wd"] != z3.StringVal("."))
                    else:
                        conds.append(z3.Not(z3.If(B(wp), S(scalar(wv, "str")) == e["wd"], e["wd"] == z3.StringVal("."))))
            for tv, (k, v) in zip(labels, exp["label"]):
                conds += [S(scalar(get(tv, "key")[1], "str")) != k, S(scalar(get(tv, "value")[1], "str")) != v]
            for tv, gl in zip(slices, exp["slice"]):
                g_ = [scalar(x, "str") for x in arr(get(tv, "paths")[1])]
                if len(g_) != len(gl):
                    res.append(("glob-count", "slice glob count differs", True))
                else:
                    conds += [S(a) != b for a, b in zip(g_, gl)]
        back = out.get("back")
        if back is None or back.variant != "Ok":
            res.append(("read-back-failed", f"libcnb cannot read back the launch.toml it wrote: {back!r}", True))
        else:
            eq = summ_core.val_eq(None, deref(back.fields[0]), deref(ctx.value))
            if eq is False:
                res.append(("read-back-differs", "the value read back differs structurally from the one written", True))
            elif eq is not True:
                conds.append(z3.Not(eq))
    elif ctx.doc == "store":
        mid = ctx.ops[0][1]
        p, v = get(tree, "metadata")
        if p is not True or v.ident is None:
            res.append(("store-metadata-missing", f"store.toml without the metadata table: {tree!r}", True))
        else:
            conds.append(v.ident != mid)
        back = out.get("back")
        if back is None or back.variant != "Ok":
            res.append(("read-back-failed", f"libcnb cannot read back the store.toml it wrote: {back!r}", True))
    else:
        pairs = ctx.ops
        ents = [(k, p, v) for k, p, v in entries_of(None, tree)]
        if len(ents) != len(pairs):
            res.append(("pair-count", f"{len(ents)} keys written for {len(pairs)} pairs", True))
        else:
            for k, v in pairs:
                conds.append(z3.Not(z3.Or([z3.And(S(gk) == k, S(scalar(gv, "str")) == v) for gk, gp, gv in ents] or [z3.BoolVal(False)])))
    cs = [c for c in conds if not z3.is_false(z3.simplify(c))]
    if cs:
        res.append(("document-differs-from-constructed", f"the written {ctx.doc} document does not decode to the constructed value", z3.Or(cs)))
    return res


# ---------------------------------------------------------------------------------------------------------------------------
def tree_to_py(ctx, m, tv):
    """concrete python value of the model document under model m (what tomllib should return for the real text)"""
    def val(t):
        if t.kind == "table":
            if t.entries is None:
                return {"ident": m.int(t.ident)} if t.ident is not None and m.int(t.ident) != 0 else {}
            out = {}
            for k, p, v in t.entries:
                if p is True or (p is not False and m.bool(p)):
                    out[k if isinstance(k, str) else m.str(k)] = val(v)
            return out
        if t.kind == "array":
            return [val(e) for e in t.elems]
        s = t.scalar
        if t.kind == "str":
            return s if isinstance(s, str) else summ_core.eval_str(ctx, m, s)
        if t.kind == "bool":
            return s if isinstance(s, bool) else m.bool(s)
        if t.kind == "int":
            return s if isinstance(s, int) else m.int(s)
        raise Unsupported(f"tree_to_py {t!r}")
    return val(tv)


def request(ctx, m):
    ev = lambda t: t if isinstance(t, str) else m.str(t)
    if ctx.doc == "build-plan":
        return {"op": "write-doc", "doc": "build-plan", "calls": [[op, ev(nm) if nm is not None else None, (mid if isinstance(mid, int) else m.int(mid)) if mid is not None else None] for op, nm, mid in ctx.ops]}
    if ctx.doc == "launch":
        calls = []
        for op, a, b in ctx.ops:
            if op == "label":
                calls.append(["label", ev(a), ev(b)])
            elif op == "slice":
                calls.append(["slice", [ev(x) for x in a]])
            else:
                calls.append(["process", {"type": ev(a["type"]), "command": [ev(x) for x in a["command"]], "args": [ev(x) for x in a["args"]],
                                          "default": None if a["default"] is None else m.bool(a["default"]), "wd": None if a["wd"] is None else ev(a["wd"])}])
        return {"op": "write-doc", "doc": "launch", "calls": calls}
    if ctx.doc == "store":
        return {"op": "write-doc", "doc": "store", "metadata_id": m.int(ctx.ops[0][1])}
    return {"op": "write-doc", "doc": "exec.d", "pairs": [[ev(k), ev(v)] for k, v in ctx.ops]}


def expected_document(req):
    """what an independent reader must obtain: the constructed value in the CNB document shape (defaults left out)"""
    if req["doc"] == "build-plan":
        groups, cur = [], {"provides": [], "requires": []}
        for op, nm, mid in req["calls"]:
            if op == "or":
                groups.append(cur)
                cur = {"provides": [], "requires": []}
            elif op == "provides":
                cur["provides"].append({"name": nm})
            else:
                cur["requires"].append({"name": nm, "metadata": {"ident": mid} if mid else {}})
        groups.append(cur)
        clean = lambda g: {k: v for k, v in g.items() if v}
        doc = clean(groups[0])
        if len(groups) > 1:
            doc["or"] = [clean(g) for g in groups[1:]]
        return doc
    if req["doc"] == "launch":
        doc = {}
        for c in req["calls"]:
            if c[0] == "label":
                doc.setdefault("labels", []).append({"key": c[1], "value": c[2]})
            elif c[0] == "slice":
                doc.setdefault("slices", []).append({"paths": c[1]})
            else:
                p = c[1]
                d = {"type": p["type"], "command": p["command"]}
                if p["args"]:
                    d["args"] = p["args"]
                if p["default"]:
                    d["default"] = True
                if p["wd"] is not None:
                    d["working-dir"] = p["wd"]
                doc.setdefault("processes", []).append(d)
        return doc
    if req["doc"] == "store":
        return {"metadata": {"ident": req["metadata_id"]}}
    return {k: v for k, v in req["pairs"]}


def finalize(run):
    d = run.extra.get("docs", {})
    for need in ("build-plan", "launch", "store", "exec.d"):
        if not d.get(need):
            run.inconclusive.append(f"vacuity: no path for {need}")


def replay(run, scen):
    real = run.replay.run([scen["scenario"]])[0]
    print(json.dumps(real))
    return 0
