//! C06: JSON dump of the context a buildpack receives (written by the test buildpack of ops_runtime).
use libcnb::build::BuildContext;
use libcnb::detect::DetectContext;
use libcnb::{Buildpack, Platform};
use serde_json::{Value, json};
use std::path::Path;

fn env_of<P: Platform>(p: &P) -> Value {
    let mut m = serde_json::Map::new();
    for (k, v) in p.env().iter() {
        m.insert(k.to_string_lossy().to_string(), json!(v.to_string_lossy().to_string()));
    }
    Value::Object(m)
}

fn target(t: &libcnb::Target) -> Value {
    json!({"os": t.os, "arch": t.arch, "arch_variant": t.arch_variant, "distro_name": t.distro_name, "distro_version": t.distro_version})
}

fn descriptor(d: &libcnb::data::buildpack::ComponentBuildpackDescriptor<libcnb::generic::GenericMetadata>) -> Value {
    json!({"api": d.api.to_string(), "id": d.buildpack.id.to_string(), "version": d.buildpack.version.to_string(), "name": d.buildpack.name,
        "metadata": d.metadata.as_ref().map(|t| serde_json::to_value(t).unwrap_or(Value::Null))})
}

pub fn dump_detect<B: Buildpack<Metadata = libcnb::generic::GenericMetadata>>(w: &Path, c: &DetectContext<B>) {
    let v = json!({"phase": "detect", "app_dir": c.app_dir, "buildpack_dir": c.buildpack_dir, "target": target(&c.target), "env": env_of(&c.platform),
        "descriptor": descriptor(&c.buildpack_descriptor)});
    let _ = std::fs::write(w.join("context.json"), v.to_string());
}

pub fn dump_build<B: Buildpack<Metadata = libcnb::generic::GenericMetadata>>(w: &Path, c: &BuildContext<B>) {
    let v = json!({"phase": "build", "app_dir": c.app_dir, "buildpack_dir": c.buildpack_dir, "layers_dir": c.layers_dir, "target": target(&c.target), "env": env_of(&c.platform),
        "descriptor": descriptor(&c.buildpack_descriptor),
        "plan": c.buildpack_plan.entries.iter().map(|e| json!({"name": e.name, "metadata": serde_json::to_value(&e.metadata).unwrap_or(Value::Null)})).collect::<Vec<_>>(),
        "store": c.store.as_ref().map(|s| serde_json::to_value(s).unwrap_or(Value::Null))});
    let _ = std::fs::write(w.join("context.json"), v.to_string());
}
