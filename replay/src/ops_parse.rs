use libcnb_data::buildpack::{BuildpackApi, BuildpackId, BuildpackVersion};
use libcnb_data::exec_d::ExecDProgramOutputKey;
use libcnb_data::launch::ProcessType;
use libcnb_data::layer::LayerName;
use serde_json::{Value, json};

fn s_of(req: &Value) -> String {
    // strings travel as arrays of code points so that control characters survive
    req["s"].as_array().map(|a| a.iter().map(|c| char::from_u32(c.as_u64().unwrap() as u32).unwrap()).collect()).unwrap_or_default()
}

pub fn run(op: &str, req: &Value) -> Value {
    let s = s_of(req);
    match op {
        "version" => match BuildpackVersion::try_from(s.clone()) {
            Ok(v) => {
                let shown = v.to_string();
                let de: Result<BuildpackVersion, _> = toml::from_str::<toml::Table>(&format!("v = {}", toml::Value::String(s.clone())))
                    .map_err(|e| e.to_string())
                    .and_then(|t| t["v"].clone().try_into::<BuildpackVersion>().map_err(|e| e.to_string()));
                json!({"ok": true, "v": [v.major.to_string(), v.minor.to_string(), v.patch.to_string()], "display": shown,
                       "reparse_ok": BuildpackVersion::try_from(shown.clone()).map(|w| w == v).unwrap_or(false),
                       "deser_ok": de.map(|w| w == v).unwrap_or(false)})
            }
            Err(_) => {
                let de = toml::Value::String(s.clone()).try_into::<BuildpackVersion>().is_ok();
                json!({"ok": false, "deser_ok": de})
            }
        },
        "api" => match BuildpackApi::try_from(s.clone()) {
            Ok(v) => {
                let shown = v.to_string();
                json!({"ok": true, "v": [v.major.to_string(), v.minor.to_string()], "display": shown,
                       "reparse_ok": BuildpackApi::try_from(shown.clone()).map(|w| w == v).unwrap_or(false),
                       "deser_ok": toml::Value::String(s.clone()).try_into::<BuildpackApi>().map(|w| w == v).unwrap_or(false)})
            }
            Err(_) => json!({"ok": false, "deser_ok": toml::Value::String(s.clone()).try_into::<BuildpackApi>().is_ok()}),
        },
        "newtype" => {
            macro_rules! nt {
                ($t:ty) => {{
                    let p = s.parse::<$t>();
                    let d = toml::Value::String(s.clone()).try_into::<$t>();
                    match p {
                        Ok(v) => json!({"ok": true, "display": v.to_string(), "as_str": v.as_str(),
                            "ser": toml::Value::try_from(&v).ok().and_then(|x| x.as_str().map(String::from)),
                            "deser_ok": d.map(|w| w == v).unwrap_or(false)}),
                        Err(_) => json!({"ok": false, "deser_ok": d.is_ok()}),
                    }
                }};
            }
            match req["ty"].as_str().unwrap_or("") {
                "LayerName" => nt!(LayerName),
                "ProcessType" => nt!(ProcessType),
                "BuildpackId" => nt!(BuildpackId),
                "ExecDProgramOutputKey" => nt!(ExecDProgramOutputKey),
                t => json!({"error": format!("unknown type {t}")}),
            }
        }
        _ => unreachable!(),
    }
}
