//! Layer scenarios (struct API and trait API) on a real temp directory.
use libcnb::build::{BuildContext, BuildResult};
use libcnb::data::layer::LayerName;
use libcnb::detect::{DetectContext, DetectResult};
use libcnb::generic::{GenericError, GenericMetadata, GenericPlatform};
use libcnb::layer::{
    CachedLayerDefinition, EmptyLayerCause, InvalidMetadataAction, LayerRef, LayerState, RestoredLayerAction,
    UncachedLayerDefinition,
};
use libcnb::layer_env::{LayerEnv, ModificationBehavior, Scope};
use libcnb::sbom::Sbom;
use libcnb::{Buildpack, Env, Target};
use serde::{Deserialize, Serialize};
use serde_json::{Value, json};
use std::cell::RefCell;
use std::collections::HashMap;
use std::os::unix::fs::PermissionsExt;
use std::path::{Path, PathBuf};

pub struct B;
impl Buildpack for B {
    type Platform = GenericPlatform;
    type Metadata = GenericMetadata;
    type Error = String;
    fn detect(&self, _c: DetectContext<Self>) -> libcnb::Result<DetectResult, String> {
        unimplemented!()
    }
    fn build(&self, _c: BuildContext<Self>) -> libcnb::Result<BuildResult, String> {
        unimplemented!()
    }
}
#[allow(dead_code)]
type Unused = GenericError;

/// the buildpack's own metadata type: one required string field; other keys of a stored table are ignored (C01's lossy-M scenarios)
#[derive(Serialize, Deserialize, Debug, Clone, PartialEq)]
pub struct M {
    pub v: String,
}

pub fn build_context(layers: &Path) -> BuildContext<B> {
    BuildContext {
        layers_dir: layers.into(),
        app_dir: layers.into(),
        buildpack_dir: layers.into(),
        target: Target { os: "linux".into(), arch: "amd64".into(), arch_variant: None, distro_name: "u".into(), distro_version: "1".into() },
        platform: GenericPlatform::new(Env::new()),
        buildpack_plan: toml::from_str("").unwrap(),
        buildpack_descriptor: toml::from_str("api = \"0.10\"\n[buildpack]\nid = \"a/b\"\nversion = \"0.0.1\"\n").unwrap(),
        store: None,
    }
}

/// tree spec: [{"path": "L/n1/f", "kind": "file"|"dir"|"symlink", "content": "...", "mode": 493, "target": "..."}]
pub fn build_tree(root: &Path, tree: &Value) {
    let mut chmods: Vec<(PathBuf, u32)> = vec![];
    for e in tree.as_array().unwrap() {
        let p = root.join(e["path"].as_str().unwrap());
        match e["kind"].as_str().unwrap() {
            "dir" => std::fs::create_dir_all(&p).unwrap(),
            "file" => {
                std::fs::create_dir_all(p.parent().unwrap()).unwrap();
                let content: Vec<u8> = match &e["content"] {
                    Value::String(s) => s.clone().into_bytes(),
                    Value::Array(a) => a.iter().map(|b| b.as_u64().unwrap() as u8).collect(),
                    _ => vec![],
                };
                std::fs::write(&p, content).unwrap();
            }
            "symlink" => {
                std::fs::create_dir_all(p.parent().unwrap()).unwrap();
                let t = e["target"].as_str().unwrap();
                let t = if t.starts_with("@") { root.join(&t[1..]) } else { PathBuf::from(t) };
                std::os::unix::fs::symlink(t, &p).unwrap();
            }
            _ => {}
        }
        if let Some(m) = e["mode"].as_u64() {
            chmods.push((p.clone(), m as u32));
        }
    }
    // deepest first so that restrictive parents do not block their children
    chmods.sort_by_key(|(p, _)| std::cmp::Reverse(p.components().count()));
    for (p, m) in chmods {
        std::fs::set_permissions(&p, std::fs::Permissions::from_mode(m)).unwrap();
    }
}

/// snapshot of everything under root (not following symlinks)
pub fn snapshot(root: &Path) -> Value {
    fn walk(root: &Path, dir: &Path, out: &mut Vec<Value>) {
        let mut ents: Vec<_> = match std::fs::read_dir(dir) {
            Ok(r) => r.filter_map(Result::ok).collect(),
            Err(_) => return,
        };
        ents.sort_by_key(std::fs::DirEntry::file_name);
        for e in ents {
            let p = e.path();
            let rel = p.strip_prefix(root).unwrap().to_string_lossy().to_string();
            let md = std::fs::symlink_metadata(&p).unwrap();
            let mode = md.permissions().mode() & 0o777;
            if md.file_type().is_symlink() {
                out.push(json!({"path": rel, "kind": "symlink", "target": std::fs::read_link(&p).unwrap().to_string_lossy()}));
            } else if md.is_dir() {
                out.push(json!({"path": rel, "kind": "dir", "mode": mode}));
                // make listable for the snapshot, restore afterwards
                let restore = if mode & 0o500 != 0o500 { std::fs::set_permissions(&p, std::fs::Permissions::from_mode(0o755)).ok().map(|_| mode) } else { None };
                walk(root, &p, out);
                if let Some(m) = restore {
                    let _ = std::fs::set_permissions(&p, std::fs::Permissions::from_mode(m));
                }
            } else {
                let data = std::fs::read(&p).unwrap_or_default();
                out.push(json!({"path": rel, "kind": "file", "mode": mode, "content": String::from_utf8_lossy(&data), "bytes": data}));
            }
        }
    }
    let mut out = vec![];
    walk(root, root, &mut out);
    Value::Array(out)
}

fn toml_view(p: &Path) -> Value {
    match std::fs::read_to_string(p) {
        Err(_) => Value::Null,
        Ok(s) => match toml::from_str::<toml::Value>(&s) {
            Ok(v) => serde_json::to_value(v).unwrap_or(Value::Null),
            Err(_) => json!({"__invalid_toml": s}),
        },
    }
}

fn cause_str<C: std::fmt::Debug>(c: &C) -> String {
    format!("{c:?}")
}

fn state_str<MAC: std::fmt::Debug, RAC: std::fmt::Debug>(s: &LayerState<MAC, RAC>) -> String {
    match s {
        LayerState::Restored { cause } => format!("Restored:{}", cause_str(cause)),
        LayerState::Empty { cause } => match cause {
            EmptyLayerCause::NewlyCreated => "Empty:NewlyCreated".to_string(),
            EmptyLayerCause::InvalidMetadataAction { cause } => format!("Empty:InvalidMetadataAction:{}", cause_str(cause)),
            EmptyLayerCause::RestoredLayerAction { cause } => format!("Empty:RestoredLayerAction:{}", cause_str(cause)),
        },
    }
}

fn err_str(e: &libcnb::Error<String>) -> String {
    match e {
        libcnb::Error::BuildpackError(_) => "Err:Buildpack".to_string(),
        libcnb::Error::LayerError(le) => format!("Err:Layer:{}", format!("{le:?}").split(['(', ' ', '{']).next().unwrap_or("")),
        other => format!("Err:Other:{other}"),
    }
}

fn result_str<MAC: std::fmt::Debug, RAC: std::fmt::Debug>(r: &Result<LayerRef<B, MAC, RAC>, libcnb::Error<String>>) -> String {
    match r {
        Ok(l) => format!("Ok:{}", state_str(&l.state)),
        Err(e) => err_str(e),
    }
}

/// answers: list of strings consumed in order by the callbacks: "form/action" where form in T|R|P|RP and action in
/// Keep|Delete|Replace|Err
struct Script {
    answers: RefCell<Vec<String>>,
    log: RefCell<Vec<Value>>,
}

impl Script {
    fn next(&self) -> (String, String) {
        let a = self.answers.borrow_mut().remove(0);
        let (f, act) = a.split_once('/').unwrap();
        (f.to_string(), act.to_string())
    }
}

fn apply_writer<MAC, RAC>(layer: &LayerRef<B, MAC, RAC>, w: &Value, root: &Path) -> String {
    if w["arm"].as_bool() == Some(true) {
        let _ = std::fs::remove_file("/__verif_arm__");
    }
    let r: Result<(), libcnb::Error<String>> = match w["kind"].as_str().unwrap_or("") {
        "metadata" => layer.write_metadata(M { v: w["v"].as_str().unwrap_or("new").to_string() }),
        "env" => {
            let mut env = LayerEnv::new();
            for e in w["entries"].as_array().unwrap() {
                let scope = match e["scope"].as_str().unwrap() {
                    "all" => Scope::All,
                    "build" => Scope::Build,
                    "launch" => Scope::Launch,
                    p => Scope::Process(p.to_string()),
                };
                let mb = match e["behavior"].as_str().unwrap() {
                    "append" => ModificationBehavior::Append,
                    "default" => ModificationBehavior::Default,
                    "delim" => ModificationBehavior::Delimiter,
                    "override" => ModificationBehavior::Override,
                    _ => ModificationBehavior::Prepend,
                };
                env.insert(scope, mb, e["name"].as_str().unwrap(), e["value"].as_str().unwrap());
            }
            layer.write_env(env)
        }
        "sboms" => {
            let sboms: Vec<Sbom> = w["formats"]
                .as_array()
                .unwrap()
                .iter()
                .map(|f| Sbom {
                    format: match f.as_str().unwrap() {
                        "cdx" => libcnb::data::sbom::SbomFormat::CycloneDxJson,
                        "spdx" => libcnb::data::sbom::SbomFormat::SpdxJson,
                        _ => libcnb::data::sbom::SbomFormat::SyftJson,
                    },
                    data: format!("new-{}", f.as_str().unwrap()).into_bytes(),
                })
                .collect();
            layer.write_sboms(&sboms)
        }
        "execd" => {
            let progs: HashMap<String, PathBuf> = w["programs"]
                .as_array()
                .unwrap()
                .iter()
                .map(|p| (p["name"].as_str().unwrap().to_string(), root.join(p["source"].as_str().unwrap())))
                .collect();
            layer.write_exec_d_programs(progs)
        }
        k => panic!("unknown writer {k}"),
    };
    match r {
        Ok(()) => "Ok".to_string(),
        Err(e) => err_str(&e),
    }
}

pub fn layer_struct(req: &Value) -> Value {
    let tmp = tempfile::tempdir().unwrap();
    let root = tmp.path();
    build_tree(root, &req["tree"]);
    let layers = root.join("L");
    std::fs::create_dir_all(&layers).unwrap();
    let ctx = build_context(&layers);
    // arms the LD_PRELOAD fault injector, if one is loaded (C12 replays): before the request, or only before the writers
    let arm_at_writer = req["arm"].as_str() == Some("writer");
    if !arm_at_writer {
        let _ = std::fs::remove_file("/__verif_arm__");
    }
    let name: LayerName = req["layer"].as_str().unwrap_or("n1").parse().unwrap();
    let launch = req["launch"].as_bool().unwrap_or(false);
    let build = req["build"].as_bool().unwrap_or(false);
    let script = Script {
        answers: RefCell::new(req["answers"].as_array().map(|a| a.iter().map(|s| s.as_str().unwrap().to_string()).collect()).unwrap_or_default()),
        log: RefCell::new(vec![]),
    };
    let mut writer_results = vec![];
    let result = match req["request"].as_str().unwrap() {
        "uncached" => {
            let r = ctx.uncached_layer(name.clone(), UncachedLayerDefinition { build, launch });
            if let Ok(l) = &r {
                for w in req["writers"].as_array().unwrap_or(&vec![]) {
                    writer_results.push(apply_writer(l, w, root));
                }
            }
            result_str(&r)
        }
        "cached_generic" => {
            // M = GenericMetadata, callbacks return (action, cause) wrapped in a Result
            let r = ctx.cached_layer(
                name.clone(),
                CachedLayerDefinition {
                    build,
                    launch,
                    invalid_metadata_action: &|m: &GenericMetadata| -> Result<(InvalidMetadataAction<GenericMetadata>, String), String> {
                        script.log.borrow_mut().push(json!({"cb": "invalid", "meta": serde_json::to_value(m).unwrap()}));
                        let (_f, act) = script.next();
                        match act.as_str() {
                            "Delete" => Ok((InvalidMetadataAction::DeleteLayer, "MAC".to_string())),
                            "Replace" => Ok((InvalidMetadataAction::ReplaceMetadata(None), "MAC".to_string())),
                            _ => Err("cb-error".to_string()),
                        }
                    },
                    restored_layer_action: &|m: &GenericMetadata, p: &Path| -> Result<(RestoredLayerAction, String), String> {
                        script.log.borrow_mut().push(json!({"cb": "restored", "meta": serde_json::to_value(m).unwrap(), "path": p.strip_prefix(root).unwrap().to_string_lossy()}));
                        let (_f, act) = script.next();
                        match act.as_str() {
                            "Keep" => Ok((RestoredLayerAction::KeepLayer, "RAC".to_string())),
                            "Delete" => Ok((RestoredLayerAction::DeleteLayer, "RAC".to_string())),
                            _ => Err("cb-error".to_string()),
                        }
                    },
                },
            );
            if let Ok(l) = &r {
                for w in req["writers"].as_array().unwrap_or(&vec![]) {
                    writer_results.push(apply_writer(l, w, root));
                }
            }
            result_str(&r)
        }
        _ => cached_m(&ctx, &name, build, launch, &script, root, req, &mut writer_results),
    };
    let _ = std::fs::remove_file("/__verif_disarm__");
    json!({
        "result": result,
        "log": Value::Array(script.log.borrow().clone()),
        "writers": writer_results,
        "toml": toml_view(&layers.join(format!("{name}.toml"))),
        "tree": snapshot(root),
    })
}

/// M = the struct above; the callback's return *form* (plain action, Result, tuple, Result of tuple) is chosen by the script
#[allow(clippy::too_many_arguments)]
fn cached_m(ctx: &BuildContext<B>, name: &LayerName, build: bool, launch: bool, script: &Script, root: &Path, req: &Value, wr: &mut Vec<String>) -> String {
    let forms: Vec<String> = req["answers"].as_array().map(|a| a.iter().map(|s| s.as_str().unwrap().split('/').next().unwrap().to_string()).collect()).unwrap_or_default();
    let log_inv = |m: &GenericMetadata| script.log.borrow_mut().push(json!({"cb": "invalid", "meta": serde_json::to_value(m).unwrap()}));
    let log_res = |m: &M, p: &Path| script.log.borrow_mut().push(json!({"cb": "restored", "meta": {"v": m.v}, "path": p.strip_prefix(root).unwrap().to_string_lossy()}));
    let inv_act = |act: &str| match act {
        "Delete" => InvalidMetadataAction::DeleteLayer,
        _ => InvalidMetadataAction::ReplaceMetadata(M { v: "replaced".to_string() }),
    };
    let res_act = |act: &str| if act == "Keep" { RestoredLayerAction::KeepLayer } else { RestoredLayerAction::DeleteLayer };
    // the form is fixed per scenario (first answer's form); four monomorphisations of the public API
    let form = forms.first().cloned().unwrap_or_else(|| "RP".to_string());
    macro_rules! run {
        ($inv:expr, $res:expr) => {{
            let r = ctx.cached_layer(name.clone(), CachedLayerDefinition { build, launch, invalid_metadata_action: &$inv, restored_layer_action: &$res });
            if let Ok(l) = &r {
                for w in req["writers"].as_array().unwrap_or(&vec![]) {
                    wr.push(apply_writer(l, w, root));
                }
            }
            result_str(&r)
        }};
    }
    match form.as_str() {
        "T" => run!(
            |m: &GenericMetadata| { log_inv(m); let (_f, a) = script.next(); inv_act(&a) },
            |m: &M, p: &Path| { log_res(m, p); let (_f, a) = script.next(); res_act(&a) }
        ),
        "R" => run!(
            |m: &GenericMetadata| -> Result<InvalidMetadataAction<M>, String> { log_inv(m); let (_f, a) = script.next(); if a == "Err" { Err("cb".into()) } else { Ok(inv_act(&a)) } },
            |m: &M, p: &Path| -> Result<RestoredLayerAction, String> { log_res(m, p); let (_f, a) = script.next(); if a == "Err" { Err("cb".into()) } else { Ok(res_act(&a)) } }
        ),
        "P" => run!(
            |m: &GenericMetadata| { log_inv(m); let (_f, a) = script.next(); (inv_act(&a), "MAC".to_string()) },
            |m: &M, p: &Path| { log_res(m, p); let (_f, a) = script.next(); (res_act(&a), "RAC".to_string()) }
        ),
        _ => run!(
            |m: &GenericMetadata| -> Result<(InvalidMetadataAction<M>, String), String> { log_inv(m); let (_f, a) = script.next(); if a == "Err" { Err("cb".into()) } else { Ok((inv_act(&a), "MAC".to_string())) } },
            |m: &M, p: &Path| -> Result<(RestoredLayerAction, String), String> { log_res(m, p); let (_f, a) = script.next(); if a == "Err" { Err("cb".into()) } else { Ok((res_act(&a), "RAC".to_string())) } }
        ),
    }
}

// ------------------------------------------------------------------------------------------------ trait API
#[allow(deprecated)]
mod trait_layer {
    use super::*;
    use libcnb::data::layer_content_metadata::LayerTypes;
    use libcnb::layer::{ExistingLayerStrategy, Layer, LayerData, LayerResult, LayerResultBuilder, MetadataMigration};

    pub struct Scripted<'a> {
        pub types: LayerTypes,
        pub script: &'a RefCell<Vec<Value>>,
        pub log: &'a RefCell<Vec<Value>>,
        pub root: PathBuf,
    }

    impl Scripted<'_> {
        fn next(&self, cb: &str) -> Value {
            let mut s = self.script.borrow_mut();
            if s.is_empty() {
                return json!({"cb": cb, "answer": "script-exhausted"});
            }
            s.remove(0)
        }

        fn result(&self, e: &Value, which: &str) -> Result<LayerResult<M>, String> {
            let shape = e["answer"].as_str().unwrap_or("bare");
            if shape == "Err" || shape == "script-exhausted" {
                return Err("cb-error".to_string());
            }
            let mut b = LayerResultBuilder::new(M { v: if which == "create" { "id500".into() } else { "id600".into() } });
            let scope = match shape {
                "env-all" => Some(Scope::All),
                "env-build" => Some(Scope::Build),
                "env-launch" | "full" => Some(Scope::Launch),
                "env-web" => Some(Scope::Process("web".into())),
                _ => None,
            };
            if let Some(sc) = scope {
                let mut env = LayerEnv::new();
                env.insert(sc, ModificationBehavior::Override, "X", e["value"].as_str().unwrap_or(""));
                b = b.env(env);
            }
            if shape == "full" {
                b = b.exec_d_program("p2", self.root.join("src/prog")).sbom(Sbom { format: libcnb::data::sbom::SbomFormat::CycloneDxJson, data: b"new-cdx".to_vec() });
            }
            if shape == "execd-missing" {
                b = b.exec_d_program("p2", self.root.join("src/missing"));
            }
            b.build()
        }
    }

    impl Layer for Scripted<'_> {
        type Buildpack = B;
        type Metadata = M;

        fn types(&self) -> LayerTypes {
            self.types
        }

        fn create(&mut self, _c: &BuildContext<B>, layer_path: &Path) -> Result<LayerResult<M>, String> {
            self.log.borrow_mut().push(json!({"cb": "create", "path": layer_path.strip_prefix(&self.root).unwrap().to_string_lossy()}));
            let e = self.next("create");
            self.result(&e, "create")
        }

        fn existing_layer_strategy(&mut self, c: &BuildContext<B>, ld: &LayerData<M>) -> Result<ExistingLayerStrategy, String> {
            self.log.borrow_mut().push(json!({"cb": "strategy", "meta": ld.content_metadata.metadata.v}));
            let e = self.next("strategy");
            match e["answer"].as_str().unwrap_or("") {
                "Keep" => Ok(ExistingLayerStrategy::Keep),
                "Update" => Ok(ExistingLayerStrategy::Update),
                "Recreate" => Ok(ExistingLayerStrategy::Recreate),
                "default" => DefaultLayer { types: self.types }.existing_layer_strategy(c, ld),
                _ => Err("cb-error".to_string()),
            }
        }

        fn update(&mut self, c: &BuildContext<B>, ld: &LayerData<M>) -> Result<LayerResult<M>, String> {
            self.log.borrow_mut().push(json!({"cb": "update", "meta": ld.content_metadata.metadata.v}));
            let e = self.next("update");
            if e["answer"].as_str() == Some("default") {
                return DefaultLayer { types: self.types }.update(c, ld);
            }
            self.result(&e, "update")
        }

        fn migrate_incompatible_metadata(&mut self, c: &BuildContext<B>, m: &GenericMetadata) -> Result<MetadataMigration<M>, String> {
            self.log.borrow_mut().push(json!({"cb": "migrate", "meta": serde_json::to_value(m).unwrap()}));
            let e = self.next("migrate");
            match e["answer"].as_str().unwrap_or("") {
                "RecreateLayer" => Ok(MetadataMigration::RecreateLayer),
                "ReplaceMetadata" => Ok(MetadataMigration::ReplaceMetadata(M { v: "id77".into() })),
                "default" => DefaultLayer { types: self.types }.migrate_incompatible_metadata(c, m),
                _ => Err("cb-error".to_string()),
            }
        }
    }

    /// only `types` and `create` implemented: gives access to the trait's default methods
    pub struct DefaultLayer {
        pub types: LayerTypes,
    }

    impl Layer for DefaultLayer {
        type Buildpack = B;
        type Metadata = M;
        fn types(&self) -> LayerTypes {
            self.types
        }
        fn create(&mut self, _c: &BuildContext<B>, _p: &Path) -> Result<LayerResult<M>, String> {
            unreachable!()
        }
    }

    pub fn run(req: &Value) -> Value {
        let tmp = tempfile::tempdir().unwrap();
        let root = tmp.path();
        build_tree(root, &req["tree"]);
        let layers = root.join("L");
        std::fs::create_dir_all(&layers).unwrap();
        let ctx = build_context(&layers);
        let name: LayerName = "n1".parse().unwrap();
        let script = RefCell::new(req["script"].as_array().cloned().unwrap_or_default());
        let log = RefCell::new(vec![]);
        let t = &req["types"];
        let types = LayerTypes { launch: t["launch"].as_bool().unwrap_or(false), build: t["build"].as_bool().unwrap_or(false), cache: t["cache"].as_bool().unwrap_or(false) };
        let layer = Scripted { types, script: &script, log: &log, root: root.to_path_buf() };
        // arms the LD_PRELOAD fault injector, if one is loaded (C12's trait-API fault replays)
        if req["arm"].as_bool() == Some(true) {
            let _ = std::fs::remove_file("/__verif_arm__");
        }
        let r = ctx.handle_layer(name, layer);
        let _ = std::fs::remove_file("/__verif_disarm__");
        let scopes = [("all", Scope::All), ("build", Scope::Build), ("launch", Scope::Launch), ("web", Scope::Process("web".into()))];
        let env_view = |e: &LayerEnv| -> Value {
            let mut m = serde_json::Map::new();
            for (n, sc) in &scopes {
                let applied = e.apply_to_empty(sc.clone());
                let mut kv: Vec<(String, String)> = applied.iter().map(|(k, v)| (k.to_string_lossy().to_string(), v.to_string_lossy().to_string())).collect();
                kv.sort();
                m.insert((*n).to_string(), json!(kv));
            }
            Value::Object(m)
        };
        let (result, returned_env) = match &r {
            Ok(d) => ("Ok".to_string(), Some(env_view(&d.env))),
            Err(e) => (err_str(e), None),
        };
        let disk_env = LayerEnv::read_from_layer_dir(layers.join("n1")).ok().map(|e| env_view(&e));
        json!({
            "result": result,
            "log": Value::Array(log.borrow().clone()),
            "toml": toml_view(&layers.join("n1.toml")),
            "returned_env": returned_env,
            "disk_env": if r.is_ok() { disk_env } else { None },
            "tree": snapshot(root),
        })
    }
}

pub fn layer_trait(req: &Value) -> Value {
    trait_layer::run(req)
}

/// C20: one fixed trait-API create with two process scopes, two exec.d programs and two SBOMs; returns the byte contents
/// of everything written (each call of the driver binary is a fresh process with a fresh hash seed)
#[allow(deprecated)]
pub fn layer_det(req: &Value) -> Value {
    let nested = req["names"].as_str() == Some("nested");
    use libcnb::data::layer_content_metadata::LayerTypes;
    use libcnb::layer::{Layer, LayerResult, LayerResultBuilder};
    struct Det(PathBuf, bool);
    impl Layer for Det {
        type Buildpack = B;
        type Metadata = M;
        fn types(&self) -> LayerTypes {
            LayerTypes { launch: true, build: true, cache: true }
        }
        fn create(&mut self, _c: &BuildContext<B>, _p: &Path) -> Result<LayerResult<M>, String> {
            let mut env = LayerEnv::new();
            for (p, n) in [("web", "X"), ("worker", "Y"), ("clock", "W"), ("release", "V")] {
                env.insert(Scope::Process(p.into()), ModificationBehavior::Override, n, "v");
            }
            env.insert(Scope::Launch, ModificationBehavior::Append, "Z", "z");
            let mut b = LayerResultBuilder::new(M { v: "id".into() }).env(env);
            if self.1 {
                b = b.exec_d_program("web/setup-env", self.0.join("src/prog")).exec_d_program("worker/setup-env", self.0.join("src/prog2"));
            } else {
                for n in ["p1", "p2", "p3", "p4", "p5"] {
                    b = b.exec_d_program(n, self.0.join("src/prog"));
                }
            }
            b.sbom(Sbom { format: libcnb::data::sbom::SbomFormat::CycloneDxJson, data: b"a".to_vec() })
                .sbom(Sbom { format: libcnb::data::sbom::SbomFormat::SpdxJson, data: b"b".to_vec() })
                .build()
        }
    }
    let tmp = tempfile::tempdir().unwrap();
    let root = tmp.path();
    std::fs::create_dir_all(root.join("L")).unwrap();
    std::fs::create_dir_all(root.join("src")).unwrap();
    std::fs::write(root.join("src/prog"), "prog").unwrap();
    std::fs::write(root.join("src/prog2"), "prog2-bytes").unwrap();
    let ctx = build_context(&root.join("L"));
    let r = ctx.handle_layer("n1".parse().unwrap(), Det(root.to_path_buf(), nested));
    let mut snap = snapshot(&root.join("L"));
    if let Value::Array(a) = &mut snap {
        for e in a.iter_mut() {
            if let Value::Object(o) = e {
                let keep = nested && o.get("path").and_then(|p| p.as_str()).is_some_and(|p| p.contains("exec.d"));
                if !keep {
                    o.remove("bytes");
                }
            }
        }
    }
    json!({"ok": r.is_ok(), "tree": snap})
}
