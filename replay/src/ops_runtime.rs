//! C05/C06: runs libcnb's real entry point `libcnb_runtime` in a child process whose argv[0], arguments, CNB_* environment,
//! working directory and input files are the requested ones, with a recording test buildpack.
use libcnb::build::{BuildContext, BuildResult, BuildResultBuilder};
use libcnb::data::launch::LaunchBuilder;
use libcnb::data::sbom::SbomFormat;
use libcnb::data::store::Store;
use libcnb::detect::{DetectContext, DetectResult, DetectResultBuilder};
use libcnb::generic::{GenericMetadata, GenericPlatform};
use libcnb::sbom::Sbom;
use libcnb::{Buildpack, Error};
use serde_json::{Value, json};
use std::fs;
use std::io::Write;
use std::os::unix::process::CommandExt;
use std::path::{Path, PathBuf};

const TARGET_VARS: [&str; 5] = ["CNB_TARGET_OS", "CNB_TARGET_ARCH", "CNB_TARGET_ARCH_VARIANT", "CNB_TARGET_DISTRO_NAME", "CNB_TARGET_DISTRO_VERSION"];

fn tag_of(p: &str) -> String {
    let base = p.rsplit('/').next().unwrap_or("");
    if base == "plan.toml" {
        return "plan".into();
    }
    if base == "launch.toml" {
        return "launch".into();
    }
    if base == "store.toml" {
        return "store".into();
    }
    let parts: Vec<&str> = base.split('.').collect();
    if parts.len() == 4 { format!("{}_{}", parts[0], parts[2]) } else { base.to_string() }
}

pub fn run(req: &Value) -> Value {
    let w = std::env::temp_dir().join(format!("verif-rt-{}-{}", std::process::id(), std::time::SystemTime::now().duration_since(std::time::UNIX_EPOCH).map(|d| d.as_nanos()).unwrap_or(0)));
    let _ = fs::remove_dir_all(&w);
    for d in ["bp", "platform", "L", "out", "in", "app"] {
        fs::create_dir_all(w.join(d)).unwrap();
    }
    let d = &req["descriptor"];
    if d["present"].as_bool().unwrap_or(false) {
        let mut text = String::new();
        if !d["syntax_ok"].as_bool().unwrap_or(true) {
            text.push_str("api = [broken\n");
        } else {
            if d["has_api"].as_bool().unwrap_or(false) {
                text.push_str(&format!("api = {}\n", toml::Value::String(d["api"].as_str().unwrap_or("").to_string())));
            }
            if d["rest_ok"].as_bool().unwrap_or(false) {
                text.push_str(&format!("\n[buildpack]\nid = {}\nversion = {}\n", toml::Value::String(d["id"].as_str().unwrap_or("demo/c05").to_string()), toml::Value::String(d["version"].as_str().unwrap_or("0.0.1").to_string())));
                if let Some(n) = d["name"].as_str() {
                    text.push_str(&format!("name = {}\n", toml::Value::String(n.to_string())));
                }
                if let Some(i) = d["metadata_id"].as_i64() {
                    text.push_str(&format!("\n[metadata]\nident = {i}\n"));
                }
            }
        }
        fs::write(w.join("bp/buildpack.toml"), text).unwrap();
    }
    if req["platform_env"].as_bool().unwrap_or(false) {
        fs::create_dir_all(w.join("platform/env")).unwrap();
        fs::create_dir_all(w.join("ext/dir")).unwrap();
        match req["platform_entries"].as_array() {
            None => fs::write(w.join("platform/env/FOO"), "bar").unwrap(),
            Some(ents) => {
                for (i, e) in ents.iter().enumerate() {
                    let p = w.join("platform/env").join(e["name"].as_str().unwrap_or("x"));
                    let val = e["value"].as_str().unwrap_or("");
                    match e["kind"].as_str().unwrap_or("") {
                        "file" => fs::write(&p, val).unwrap(),
                        "file-bad-utf8" => fs::write(&p, [b'a', 0xff, 0xfe]).unwrap(),
                        "dir" => fs::create_dir_all(&p).unwrap(),
                        "link-file" => {
                            let t = w.join(format!("ext/target{i}"));
                            fs::write(&t, val).unwrap();
                            std::os::unix::fs::symlink(&t, &p).unwrap();
                        }
                        "link-dir" => std::os::unix::fs::symlink(w.join("ext/dir"), &p).unwrap(),
                        "link-dangling" => std::os::unix::fs::symlink(w.join("ext/nothing"), &p).unwrap(),
                        _ => {}
                    }
                }
            }
        }
    }
    let mut plan_text = String::new();
    match req["plan"].as_array() {
        Some(entries) if !entries.is_empty() => {
            for e in entries {
                plan_text.push_str(&format!("[[entries]]\nname = {}\n", toml::Value::String(e["name"].as_str().unwrap_or("").to_string())));
                if let Some(i) = e["metadata_id"].as_i64() {
                    plan_text.push_str(&format!("[entries.metadata]\nident = {i}\n"));
                }
            }
        }
        _ => plan_text.push_str("entries = []\n"),
    }
    fs::write(w.join("in/buildpack-plan.toml"), if req["buildpack_plan_ok"].as_bool().unwrap_or(true) { plan_text.as_str() } else { "= [" }).unwrap();
    match req["store"].as_str() {
        Some("valid") => fs::write(w.join("L/store.toml"), format!("[metadata]\nident = {}\n", req["store_metadata_id"].as_i64().unwrap_or(0))).unwrap(),
        Some("bad-utf8") => fs::write(w.join("L/store.toml"), [b'[', b'm', 0xff, b']']).unwrap(),
        Some("bad-syntax") => fs::write(w.join("L/store.toml"), "= [").unwrap(),
        Some("dir") => fs::create_dir_all(w.join("L/store.toml")).unwrap(),
        _ => {}
    }
    let mut olds: Vec<(String, Option<Vec<u8>>)> = Vec::new();
    for (p, present) in req["olds"].as_object().cloned().unwrap_or_default() {
        let real = w.join(p.trim_start_matches('/'));
        let mut before = None;
        if present.as_bool().unwrap_or(false) {
            let content = if p.ends_with("store.toml") {
                if req["old_store_ok"].as_bool().unwrap_or(true) { "[metadata]\nold = true\n".to_string() } else { "= [".to_string() }
            } else {
                format!("OLD:{}", tag_of(&p))
            };
            fs::write(&real, &content).unwrap();
            before = Some(content.into_bytes());
        }
        olds.push((p, before));
    }
    let argv: Vec<String> = req["argv"].as_array().cloned().unwrap_or_default().iter().map(|a| a.as_str().unwrap_or("").to_string()).collect();
    let map = |a: &str| if a.starts_with('/') && !a.starts_with("/cnb/") { format!("{}{}", w.display(), a) } else { a.to_string() };
    let exe = std::env::current_exe().unwrap();
    let mut cmd = std::process::Command::new(exe);
    if let Some(a0) = argv.first() {
        cmd.arg0(a0);
    } else {
        cmd.arg0("");
    }
    for a in argv.iter().skip(1) {
        cmd.arg(map(a));
    }
    cmd.env("VERIF_RUNTIME", req.to_string()).env("VERIF_W", &w).current_dir(w.join("app"));
    cmd.env_remove("CNB_BUILDPACK_DIR");
    for v in TARGET_VARS {
        cmd.env_remove(v);
    }
    for (v, present) in req["env"].as_object().cloned().unwrap_or_default() {
        if present.as_bool().unwrap_or(false) {
            if v == "CNB_BUILDPACK_DIR" {
                cmd.env(&v, w.join("bp"));
            } else if let Some(val) = req["env_values"][&v].as_str() {
                cmd.env(&v, val);
            } else {
                cmd.env(&v, format!("val-{v}"));
            }
        }
    }
    let status = cmd.stdin(std::process::Stdio::null()).stdout(std::process::Stdio::null()).stderr(std::process::Stdio::null()).status().unwrap();
    let calls: Vec<String> = fs::read_to_string(w.join("calls")).unwrap_or_default().lines().map(str::to_string).collect();
    let mut files = serde_json::Map::new();
    for (p, before) in olds {
        let now = fs::read(w.join(p.trim_start_matches('/'))).ok();
        files.insert(p, json!(if now == before { "untouched" } else { "written" }));
    }
    let context = fs::read_to_string(w.join("context.json")).ok().and_then(|t| serde_json::from_str::<Value>(&t).ok()).unwrap_or(Value::Null);
    let mut contents = serde_json::Map::new();
    for f in ["out/plan.toml", "L/launch.toml", "L/store.toml"] {
        if let Ok(t) = fs::read_to_string(w.join(f)) {
            contents.insert(f.to_string(), json!(t));
        }
    }
    let _ = fs::remove_dir_all(&w);
    json!({"exit": status.code(), "calls": calls, "files": files, "context": context, "contents": contents})
}

struct TestBuildpack {
    req: Value,
    w: PathBuf,
}

#[derive(Debug)]
struct TestError;

impl TestBuildpack {
    fn record(&self, what: &str) {
        let mut f = fs::OpenOptions::new().create(true).append(true).open(self.w.join("calls")).unwrap();
        writeln!(f, "{what}").unwrap();
    }
}

fn fmt_of(name: &str) -> SbomFormat {
    match name {
        "CycloneDxJson" => SbomFormat::CycloneDxJson,
        "SpdxJson" => SbomFormat::SpdxJson,
        _ => SbomFormat::SyftJson,
    }
}

impl Buildpack for TestBuildpack {
    type Platform = GenericPlatform;
    type Metadata = GenericMetadata;
    type Error = TestError;

    fn detect(&self, context: DetectContext<Self>) -> libcnb::Result<DetectResult, Self::Error> {
        self.record("detect");
        crate::ops_context::dump_detect(&self.w, &context);
        match self.req["behaviour"].as_str().unwrap_or("") {
            "error" => Err(Error::BuildpackError(TestError)),
            "fail" => DetectResultBuilder::fail().build(),
            "pass+plan" => DetectResultBuilder::pass().build_plan(libcnb::data::build_plan::BuildPlanBuilder::new().provides("thing").build()).build(),
            _ => DetectResultBuilder::pass().build(),
        }
    }

    fn build(&self, context: BuildContext<Self>) -> libcnb::Result<BuildResult, Self::Error> {
        self.record("build");
        crate::ops_context::dump_build(&self.w, &context);
        let b = &self.req["behaviour"];
        if b.as_str() == Some("error") {
            return Err(Error::BuildpackError(TestError));
        }
        let mut r = BuildResultBuilder::new();
        if b["launch"].as_bool().unwrap_or(false) {
            r = r.launch(LaunchBuilder::new().build());
        } else if b["launch"].as_str() == Some("repeated-process-types") {
            use libcnb::data::launch::{Label, ProcessBuilder};
            let p = |t: &str, c: &str| ProcessBuilder::new(t.parse().unwrap(), [c]).build();
            r = r.launch(LaunchBuilder::new().label(Label { key: "k".into(), value: "v".into() }).process(p("web", "generic")).process(p("worker", "w")).process(p("web", "specific")).build());
        }
        match b["store"].as_str().unwrap_or("none") {
            "empty" => r = r.store(Store::default()),
            "nonempty" => {
                let mut s = Store::default();
                s.metadata.insert("k".to_string(), toml::Value::String("v".to_string()));
                r = r.store(s);
            }
            _ => {}
        }
        for f in b["build_sboms"].as_array().cloned().unwrap_or_default() {
            let n = f.as_str().unwrap_or("");
            r = r.build_sbom(Sbom::from_bytes(fmt_of(n), format!("b-{n}").into_bytes()));
        }
        for f in b["launch_sboms"].as_array().cloned().unwrap_or_default() {
            let n = f.as_str().unwrap_or("");
            r = r.launch_sbom(Sbom::from_bytes(fmt_of(n), format!("l-{n}").into_bytes()));
        }
        r.build()
    }

    fn on_error(&self, _error: Error<Self::Error>) {
        self.record("on_error");
    }
}

pub fn child(req: &str) -> ! {
    let req: Value = serde_json::from_str(req).expect("request");
    let w = PathBuf::from(std::env::var("VERIF_W").expect("VERIF_W"));
    let _ = Path::new(".");
    let bp = TestBuildpack { req, w };
    // C12: when the fault injector is preloaded, start counting file-system calls from here (the phase under test)
    if bp.req["arm"].as_str() == Some("child") {
        let _ = std::fs::remove_file("/__verif_arm__");
    }
    libcnb::libcnb_runtime(&bp);
    std::process::exit(97)
}
