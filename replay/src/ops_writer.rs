use libherokubuildpack::write::{line_mapped, mapped, mappers::add_prefix, tee};
use serde_json::{Value, json};
use std::io::Write;

fn ints(v: &Value) -> Vec<i64> {
    v.as_array().map(|a| a.iter().map(|x| x.as_i64().unwrap()).collect()).unwrap_or_default()
}

/// tagging mapper on bytes: BEGIN=0xF0 0x9F marker pair cannot be told from data in general, so the output is recorded
/// through a side channel (list of segments) and re-assembled with the harness' sentinels -1 / -2
pub fn run(req: &Value) -> Value {
    let data: Vec<u8> = ints(&req["data"]).into_iter().map(|x| x as u8).collect();
    let cuts: Vec<usize> = ints(&req["cuts"]).into_iter().map(|x| x as usize).collect();
    let marker = req["marker"].as_i64().unwrap_or(10) as u8;
    let mode = req["mode"].as_str().unwrap_or("");
    let chunks: Vec<&[u8]> = cuts.windows(2).map(|w| &data[w[0]..w[1]]).collect();
    if mode == "tee" {
        let (mut a, mut b) = (Vec::new(), Vec::new());
        {
            let mut t = tee(&mut a, &mut b);
            for c in &chunks {
                t.write_all(c).unwrap();
            }
            t.flush().unwrap();
        }
        return json!({"out": {"a": a, "b": b}});
    }
    if mode.starts_with("prefix") {
        let prefix: Vec<u8> = ints(&req["prefix"]).into_iter().map(|x| x as u8).collect();
        let mut out = Vec::new();
        {
            let mut w = mapped(&mut out, marker, add_prefix(prefix));
            for c in &chunks {
                w.write_all(c).unwrap();
            }
            w.flush().unwrap();
        }
        return json!({"out": out});
    }
    // tagging mapper: every call is recorded; the sink receives the mapped bytes; we return the call list re-assembled
    let calls = std::sync::Arc::new(std::sync::Mutex::new(Vec::<Vec<u8>>::new()));
    let c2 = calls.clone();
    let f = move |seg: Vec<u8>| {
        c2.lock().unwrap().push(seg.clone());
        seg
    };
    let mut sink = Vec::new();
    if mode.starts_with("line") {
        let mut w = line_mapped(&mut sink, f);
        for c in &chunks {
            w.write_all(c).unwrap();
        }
        w.flush().unwrap();
    } else if mode.ends_with("unwrap") {
        let mut w = mapped(&mut sink, marker, f);
        for c in &chunks {
            w.write_all(c).unwrap();
        }
        w.flush().unwrap();
        let _inner = w.unwrap();
    } else {
        let mut w = mapped(&mut sink, marker, f);
        for c in &chunks {
            w.write_all(c).unwrap();
        }
        w.flush().unwrap();
    }
    let mut out: Vec<i64> = vec![];
    for seg in calls.lock().unwrap().iter() {
        out.push(-1);
        out.extend(seg.iter().map(|b| i64::from(*b)));
        out.push(-2);
    }
    // the sink must have received exactly the concatenation of the (identity-)mapped segments
    let flat: Vec<u8> = calls.lock().unwrap().iter().flatten().copied().collect();
    json!({"out": out, "sink_consistent": flat == sink})
}
