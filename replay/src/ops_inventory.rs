use libherokubuildpack::inventory::Inventory;
use libherokubuildpack::inventory::artifact::{Arch, Artifact, Os};
use libherokubuildpack::inventory::checksum::{Checksum, Digest};
use libherokubuildpack::inventory::version::ArtifactRequirement;
use serde_json::{Value, json};
use std::cmp::Ordering;

#[derive(Debug, Clone)]
struct Sha;
impl Digest for Sha {
    fn name_compatible(name: &str) -> bool {
        name == "sha256"
    }
    fn length_compatible(len: usize) -> bool {
        len == 32
    }
}

/// total order by the first component
#[derive(Debug, Clone, PartialEq, Eq, PartialOrd, Ord)]
struct TVer(i64);
/// product (partial) order
#[derive(Debug, Clone, PartialEq)]
struct PVer(i64, i64);
impl PartialOrd for PVer {
    fn partial_cmp(&self, o: &Self) -> Option<Ordering> {
        if self == o {
            Some(Ordering::Equal)
        } else if self.0 <= o.0 && self.1 <= o.1 {
            Some(Ordering::Less)
        } else if self.0 >= o.0 && self.1 >= o.1 {
            Some(Ordering::Greater)
        } else {
            None
        }
    }
}

struct Req;
impl ArtifactRequirement<TVer, (usize, bool)> for Req {
    fn satisfies_metadata(&self, m: &(usize, bool)) -> bool {
        m.1
    }
    fn satisfies_version(&self, _v: &TVer) -> bool {
        true
    }
}
impl ArtifactRequirement<PVer, (usize, bool)> for Req {
    fn satisfies_metadata(&self, m: &(usize, bool)) -> bool {
        m.1
    }
    fn satisfies_version(&self, _v: &PVer) -> bool {
        true
    }
}

fn s_of(req: &Value) -> String {
    req["s"].as_array().map(|a| a.iter().map(|c| char::from_u32(c.as_u64().unwrap() as u32).unwrap()).collect()).unwrap_or_default()
}

macro_rules! small_digest {
    ($n:ident, $len:expr) => {
        #[derive(Debug, Clone)]
        struct $n;
        impl Digest for $n {
            fn name_compatible(name: &str) -> bool {
                name == "sha256"
            }
            fn length_compatible(len: usize) -> bool {
                len == $len
            }
        }
    };
}
small_digest!(D2, 2);
small_digest!(D4, 4);

pub fn checksum(req: &Value) -> Value {
    macro_rules! go {
        ($d:ty) => {
            match s_of(req).parse::<Checksum<$d>>() {
                Ok(c) => json!({"ok": true, "name": c.name, "len": c.value.len()}),
                Err(e) => json!({"ok": false, "err": e.to_string()}),
            }
        };
    }
    match req["nbytes"].as_u64().unwrap_or(32) {
        2 => go!(D2),
        4 => go!(D4),
        _ => go!(Sha),
    }
}

pub fn checksum_roundtrip(_req: &Value) -> Value {
    let c: Checksum<Sha> = format!("sha256:{}", "ab".repeat(32)).parse().unwrap();
    let text = toml::Value::try_from(&c).unwrap();
    let back: Result<Checksum<Sha>, _> = text.clone().try_into();
    json!({"ok": back.map(|b| b == c).unwrap_or(false), "text": text.as_str()})
}

pub fn inventory(req: &Value) -> Value {
    let os = |s: &str| s.parse::<Os>().unwrap();
    let arch = |s: &str| s.parse::<Arch>().unwrap();
    let cs = || format!("sha256:{}", "00".repeat(32)).parse::<Checksum<Sha>>().unwrap();
    let arts = req["artifacts"].as_array().unwrap();
    let (qo, qa) = (os(req["os"].as_str().unwrap()), arch(req["arch"].as_str().unwrap()));
    if req["mode"].as_str() == Some("resolve") {
        let mut inv: Inventory<TVer, Sha, (usize, bool)> = Inventory::new();
        for (i, a) in arts.iter().enumerate() {
            inv.push(Artifact { version: TVer(a["v"][0].as_i64().unwrap()), os: os(a["os"].as_str().unwrap()), arch: arch(a["arch"].as_str().unwrap()), url: "u".into(), checksum: cs(), metadata: (i, a["sat"].as_bool().unwrap()) });
        }
        json!({"result": inv.resolve(qo, qa, &Req).map(|a| a.metadata.0)})
    } else {
        let mut inv: Inventory<PVer, Sha, (usize, bool)> = Inventory::new();
        for (i, a) in arts.iter().enumerate() {
            inv.push(Artifact { version: PVer(a["v"][0].as_i64().unwrap(), a["v"][1].as_i64().unwrap()), os: os(a["os"].as_str().unwrap()), arch: arch(a["arch"].as_str().unwrap()), url: "u".into(), checksum: cs(), metadata: (i, a["sat"].as_bool().unwrap()) });
        }
        json!({"result": inv.partial_resolve(qo, qa, &Req).map(|a| a.metadata.0)})
    }
}

/// C18 round trip: Inventory<String, Sha, Option<String>> rendered with Display (toml) and parsed back with FromStr
pub fn inventory_roundtrip(req: &Value) -> Value {
    let txt = |v: &Value| -> String { v.as_array().map(|a| a.iter().map(|c| char::from_u32(c.as_u64().unwrap() as u32).unwrap_or('?')).collect()).unwrap_or_default() };
    let mut inv: Inventory<String, Sha, Option<String>> = Inventory::new();
    for a in req["artifacts"].as_array().unwrap() {
        let seed = a["seed"].as_u64().unwrap_or(0) as u8;
        let cs = format!("sha256:{}", format!("{:02x}", seed.wrapping_mul(37).wrapping_add(11)).repeat(32)).parse::<Checksum<Sha>>().unwrap();
        inv.push(Artifact {
            version: txt(&a["version"]),
            os: a["os"].as_str().unwrap().parse::<Os>().unwrap(),
            arch: a["arch"].as_str().unwrap().parse::<Arch>().unwrap(),
            url: txt(&a["url"]),
            checksum: cs,
            metadata: if a["metadata"].is_null() { None } else { Some(txt(&a["metadata"])) },
        });
    }
    let text = inv.to_string();
    match text.parse::<Inventory<String, Sha, Option<String>>>() {
        Ok(back) => json!({"equal": back.artifacts == inv.artifacts, "text": text}),
        Err(e) => json!({"equal": false, "text": text, "parse_error": e.to_string()}),
    }
}
