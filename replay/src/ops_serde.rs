use serde_json::{Value, json};

pub fn doc(req: &Value) -> Value {
    let text = req["toml"].as_str().unwrap_or("");
    macro_rules! p {
        ($t:ty) => {
            match toml::from_str::<$t>(text) {
                Ok(_) => json!({"ok": true}),
                Err(e) => json!({"ok": false, "err": e.to_string()}),
            }
        };
    }
    use libcnb_data::buildpack::*;
    match req["struct"].as_str().unwrap_or("") {
        "ComponentBuildpackDescriptor" => p!(ComponentBuildpackDescriptor),
        "CompositeBuildpackDescriptor" => p!(CompositeBuildpackDescriptor),
        "BuildpackDescriptor" => match toml::from_str::<BuildpackDescriptor>(text) {
            Ok(BuildpackDescriptor::Component(_)) => json!({"ok": true, "kind": "Component"}),
            Ok(BuildpackDescriptor::Composite(_)) => json!({"ok": true, "kind": "Composite"}),
            Err(e) => json!({"ok": false, "err": e.to_string()}),
        },
        "Buildpack" => p!(Buildpack),
        "License" => p!(License),
        "Order" => p!(Order),
        "Group" => p!(Group),
        "BuildpackTarget" => p!(BuildpackTarget),
        "Distro" => p!(Distro),
        "Stack" => p!(Stack),
        "BuildpackPlan" => p!(libcnb_data::buildpack_plan::BuildpackPlan),
        "Entry" => p!(libcnb_data::buildpack_plan::Entry),
        "LayerTypes" => p!(libcnb_data::layer_content_metadata::LayerTypes),
        "Store" => p!(libcnb_data::store::Store),
        "PackageDescriptor" => p!(libcnb_data::package_descriptor::PackageDescriptor),
        "Platform" => p!(libcnb_data::package_descriptor::Platform),
        "Launch" => p!(libcnb_data::launch::Launch),
        "Label" => p!(libcnb_data::launch::Label),
        "Process" => p!(libcnb_data::launch::Process),
        "Slice" => p!(libcnb_data::launch::Slice),
        s => json!({"error": format!("unknown struct {s}")}),
    }
}
