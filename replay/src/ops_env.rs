use libcnb::Env;
use libcnb::layer_env::{LayerEnv, ModificationBehavior, Scope};
use serde_json::{Value, json};

pub fn scope_of(s: &str) -> Scope {
    match s {
        "all" => Scope::All,
        "build" => Scope::Build,
        "launch" => Scope::Launch,
        p => Scope::Process(p.to_string()),
    }
}

pub fn behavior_of(s: &str) -> ModificationBehavior {
    match s {
        "append" => ModificationBehavior::Append,
        "default" => ModificationBehavior::Default,
        "delim" | "delimiter" => ModificationBehavior::Delimiter,
        "override" => ModificationBehavior::Override,
        _ => ModificationBehavior::Prepend,
    }
}

pub fn layer_env_of(entries: &Value) -> LayerEnv {
    let mut le = LayerEnv::new();
    for e in entries.as_array().unwrap() {
        le.insert(scope_of(e["scope"].as_str().unwrap()), behavior_of(e["behavior"].as_str().unwrap()), e["name"].as_str().unwrap(), e["value"].as_str().unwrap());
    }
    le
}

pub fn apply(req: &Value) -> Value {
    let le = layer_env_of(&req["entries"]);
    let mut env = Env::new();
    for (k, v) in req["start"].as_object().unwrap() {
        if let Some(s) = v.as_str() {
            env.insert(k, s);
        }
    }
    let before = env.clone();
    let out = le.apply(scope_of(req["query"].as_str().unwrap()), &env);
    let mut m = serde_json::Map::new();
    for (k, v) in &out {
        m.insert(k.to_string_lossy().to_string(), Value::String(v.to_string_lossy().to_string()));
    }
    json!({"env": m, "input_unchanged": before == env})
}

fn os(v: &Value) -> std::ffi::OsString {
    use std::os::unix::ffi::OsStringExt;
    std::ffi::OsString::from_vec(v.as_array().unwrap().iter().map(|b| b.as_u64().unwrap() as u8).collect())
}

fn layer_env_bytes(entries: &Value) -> LayerEnv {
    let mut le = LayerEnv::new();
    for e in entries.as_array().unwrap() {
        le.insert(scope_of(e["scope"].as_str().unwrap()), behavior_of(e["behavior"].as_str().unwrap()), os(&e["name"]), os(&e["value"]));
    }
    le
}

/// write(old) then write(new) into one layer dir, list the env files, read back and compare
pub fn roundtrip(req: &Value) -> Value {
    use std::os::unix::ffi::OsStrExt;
    let tmp = tempfile::tempdir().unwrap();
    let dir = tmp.path().join("n");
    std::fs::create_dir_all(&dir).unwrap();
    std::fs::write(dir.join("f"), "bystander").unwrap();
    let lat = |b: &[u8]| b.iter().map(|c| *c as char).collect::<String>();
    // what an earlier write left behind: env directories with a stale file each
    for st in req["stale"].as_array().unwrap_or(&vec![]) {
        let d = dir.join(st["dir"].as_str().unwrap());
        std::fs::create_dir_all(&d).unwrap();
        if st["file"].is_array() {
            std::fs::write(d.join(os(&st["file"])), os(&st["content"]).as_bytes()).unwrap();
        }
    }
    let new = layer_env_bytes(&req["new"]);
    if let Err(e) = new.write_to_layer_dir(&dir) {
        return json!({"write": format!("Err:{e}")});
    }
    let mut files = vec![];
    fn walk(root: &std::path::Path, d: &std::path::Path, out: &mut Vec<Value>, lat: &dyn Fn(&[u8]) -> String) {
        let mut ents: Vec<_> = std::fs::read_dir(d).unwrap().map(|e| e.unwrap().path()).collect();
        ents.sort();
        for p in ents {
            if p.is_dir() {
                walk(root, &p, out, lat);
            } else {
                let rel = p.strip_prefix(root).unwrap();
                out.push(json!({"path": lat(rel.as_os_str().as_bytes()), "content": lat(&std::fs::read(&p).unwrap())}));
            }
        }
    }
    for d in ["env", "env.build", "env.launch"] {
        if dir.join(d).is_dir() {
            walk(&dir, &dir.join(d), &mut files, &lat);
        }
    }
    let bystander = std::fs::read_to_string(dir.join("f")).unwrap_or_default();
    match LayerEnv::read_from_layer_dir(&dir) {
        Ok(back) => json!({"write": "Ok", "files": files, "bystander": bystander, "read": "Ok", "equal": back == new}),
        Err(e) => json!({"write": "Ok", "files": files, "bystander": bystander, "read": format!("Err:{e}")}),
    }
}

/// read side: a spec-shaped env directory that libcnb did not write (files given by raw name/content bytes, one optional
/// sub-directory), read with LayerEnv::read_from_layer_dir and compared with the expected environment built by inserts
pub fn read_side(req: &Value) -> Value {
    use std::os::unix::ffi::OsStrExt;
    let tmp = tempfile::tempdir().unwrap();
    let dir = tmp.path().join("n");
    let sub = req["dir"].as_str().unwrap_or("env");
    std::fs::create_dir_all(dir.join(sub)).unwrap();
    for f in req["files"].as_array().unwrap_or(&vec![]) {
        let p = dir.join(sub).join(os(&f["name"]));
        if f["kind"].as_str() == Some("dir") {
            std::fs::create_dir_all(&p).unwrap();
        } else {
            std::fs::write(&p, os(&f["content"]).as_bytes()).unwrap();
        }
    }
    let expected = layer_env_bytes(&req["expected"]);
    match LayerEnv::read_from_layer_dir(&dir) {
        Ok(back) => json!({"read": "Ok", "equal": back == expected, "debug": format!("{back:?}").chars().take(600).collect::<String>()}),
        Err(e) => json!({"read": format!("Err:{e}")}),
    }
}

/// implicit layer paths: build bin/lib/include/pkgconfig of the requested kinds, write explicit entries, read, apply,
/// then two read->write cycles comparing the env directories
pub fn paths(req: &Value) -> Value {
    let tmp = tempfile::tempdir().unwrap();
    let dir = tmp.path().join("n");
    std::fs::create_dir_all(&dir).unwrap();
    let tdir = tmp.path().join("T");
    std::fs::create_dir_all(tdir.join("dir")).unwrap();
    std::fs::write(tdir.join("file"), "t").unwrap();
    for (sub, kind) in req["subs"].as_object().unwrap() {
        let p = dir.join(sub);
        match kind.as_str().unwrap() {
            "dir" => std::fs::create_dir_all(&p).unwrap(),
            "file" => std::fs::write(&p, "f").unwrap(),
            "link-dir" => std::os::unix::fs::symlink(tdir.join("dir"), &p).unwrap(),
            "link-file" => std::os::unix::fs::symlink(tdir.join("file"), &p).unwrap(),
            "link-dangling" => std::os::unix::fs::symlink(tmp.path().join("nowhere"), &p).unwrap(),
            _ => {}
        }
    }
    if layer_env_of(&req["entries"]).write_to_layer_dir(&dir).is_err() {
        return json!({"stage": "write0-failed"});
    }
    let list = |d: &std::path::Path| -> Vec<(String, String)> {
        let mut out = vec![];
        for e in ["env", "env.build", "env.launch"] {
            if let Ok(rd) = std::fs::read_dir(d.join(e)) {
                for f in rd {
                    let p = f.unwrap().path();
                    out.push((format!("{e}/{}", p.file_name().unwrap().to_string_lossy()), std::fs::read_to_string(&p).unwrap_or_default()));
                }
            }
        }
        out.sort();
        out
    };
    let before = list(&dir);
    let Ok(le) = LayerEnv::read_from_layer_dir(&dir) else { return json!({"stage": "read-failed"}) };
    let layer = dir.to_string_lossy().to_string();
    let mut envs = vec![];
    for q in req["queries"].as_array().unwrap() {
        let mut env = Env::new();
        for (k, v) in q["start"].as_object().unwrap() {
            if let Some(s) = v.as_str() {
                env.insert(k, s);
            }
        }
        let out = le.apply(scope_of(q["query"].as_str().unwrap()), &env);
        let mut m = serde_json::Map::new();
        for (k, v) in &out {
            m.insert(k.to_string_lossy().to_string(), Value::String(v.to_string_lossy().replace(&layer, "<layer>")));
        }
        envs.push(Value::Object(m));
    }
    let mut cur = le;
    let mut after = before.clone();
    for _ in 0..2 {
        if cur.write_to_layer_dir(&dir).is_err() {
            return json!({"stage": "rewrite-failed"});
        }
        after = list(&dir);
        if after != before {
            break;
        }
        match LayerEnv::read_from_layer_dir(&dir) {
            Ok(x) => cur = x,
            Err(_) => return json!({"stage": "reread-failed"}),
        }
    }
    json!({"stage": "ok", "envs": envs, "files_before": before, "files_after": after})
}
