use libcnb::Env;
use libcnb::layer_env::{LayerEnv, ModificationBehavior, Scope};
use serde_json::{Value, json};

pub fn scope_of(s: &str) -> Scope {
    match s {
        "all" => Scope::All,
        "build" => Scope::Build,
        "launch" => Scope::Launch,
        p => Scope::Process(p.to_string()),
    }
}

pub fn behavior_of(s: &str) -> ModificationBehavior {
    match s {
        "append" => ModificationBehavior::Append,
        "default" => ModificationBehavior::Default,
        "delim" | "delimiter" => ModificationBehavior::Delimiter,
        "override" => ModificationBehavior::Override,
        _ => ModificationBehavior::Prepend,
    }
}

pub fn layer_env_of(entries: &Value) -> LayerEnv {
    let mut le = LayerEnv::new();
    for e in entries.as_array().unwrap() {
        le.insert(scope_of(e["scope"].as_str().unwrap()), behavior_of(e["behavior"].as_str().unwrap()), e["name"].as_str().unwrap(), e["value"].as_str().unwrap());
    }
    le
}

pub fn apply(req: &Value) -> Value {
    let le = layer_env_of(&req["entries"]);
    let mut env = Env::new();
    for (k, v) in req["start"].as_object().unwrap() {
        if let Some(s) = v.as_str() {
            env.insert(k, s);
        }
    }
    let before = env.clone();
    let out = le.apply(scope_of(req["query"].as_str().unwrap()), &env);
    let mut m = serde_json::Map::new();
    for (k, v) in &out {
        m.insert(k.to_string_lossy().to_string(), Value::String(v.to_string_lossy().to_string()));
    }
    json!({"env": m, "input_unchanged": before == env})
}
