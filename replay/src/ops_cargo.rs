//! C15: runs the real `cargo-libcnb` binary (built from /repo, path in VERIF_CARGO_LIBCNB) on a generated workspace for the
//! host target, once into an empty package directory and once over pre-seeded output directories, and compares.
use serde_json::{Value, json};
use std::collections::BTreeMap;
use std::fs;
use std::path::{Path, PathBuf};

const TARGET: &str = "x86_64-unknown-linux-gnu";

fn write(path: &Path, contents: &str) {
    fs::create_dir_all(path.parent().unwrap()).unwrap();
    fs::write(path, contents).unwrap();
}

fn snapshot(dir: &Path, root: &Path) -> BTreeMap<String, String> {
    fn walk(base: &Path, dir: &Path, root: &str, out: &mut BTreeMap<String, String>) {
        let Ok(rd) = fs::read_dir(dir) else { return };
        for e in rd.flatten() {
            let p = e.path();
            let rel = p.strip_prefix(base).unwrap().to_string_lossy().to_string();
            let md = fs::symlink_metadata(&p).unwrap();
            if md.file_type().is_symlink() {
                out.insert(rel, format!("link -> {}", fs::read_link(&p).unwrap().display()));
            } else if md.is_dir() {
                out.insert(rel, "dir".into());
                walk(base, &p, root, out);
            } else {
                let mut b = fs::read(&p).unwrap_or_default();
                if p.file_name().is_some_and(|n| n == "package.toml") {
                    // absolute paths inside a normalised package.toml name the scratch root: compare modulo that prefix
                    b = String::from_utf8_lossy(&b).replace(root, "/ws").into_bytes();
                }
                let sum = b.iter().fold(0xcbf2_9ce4_8422_2325u64, |h, x| (h ^ u64::from(*x)).wrapping_mul(0x0100_0000_01b3));
                out.insert(rel, format!("file {} {}", b.len(), sum));
            }
        }
    }
    let mut out = BTreeMap::new();
    walk(dir, dir, &root.to_string_lossy(), &mut out);
    out
}

fn generate(root: &Path, req: &Value) {
    let ws = req["workspace"].as_array().cloned().unwrap_or_default();
    let members: Vec<String> = ws.iter().filter(|b| b["kind"] == "libcnb").map(|b| format!("\"{}\"", b["dir"].as_str().unwrap().trim_start_matches("/ws/"))).collect();
    write(&root.join("Cargo.toml"), &format!("[workspace]\nresolver = \"2\"\nmembers = [{}]\n", members.join(", ")));
    write(&root.join(".ignore"), "packaged\nout dir\ntarget\n");
    write(&root.join("other-bp/buildpack.toml"), "api = \"0.10\"\n\n[buildpack]\nid = \"other/bp\"\nversion = \"0.0.1\"\n");
    for b in &ws {
        let dir = root.join(b["dir"].as_str().unwrap().trim_start_matches("/ws/"));
        let id = b["id"].as_str().unwrap();
        if b["kind"] == "libcnb" {
            let bins: Vec<String> = b["bins"].as_array().unwrap().iter().map(|x| x.as_str().unwrap().to_string()).collect();
            write(&dir.join("Cargo.toml"), &format!("[package]\nname = \"{}\"\nversion = \"0.0.0\"\nedition = \"2021\"\n", bins[0]));
            write(&dir.join("src/main.rs"), &format!("fn main() {{ println!(\"{} main\"); }}\n", bins[0]));
            for extra in bins.iter().skip(1) {
                write(&dir.join(format!("src/bin/{extra}.rs")), &format!("fn main() {{ println!(\"{extra}\"); }}\n"));
            }
            write(&dir.join("buildpack.toml"), &format!("api = \"0.10\"\n\n[buildpack]\nid = \"{id}\"\nversion = \"0.0.1\"\n"));
        } else {
            write(&dir.join("buildpack.toml"), &format!("api = \"0.10\"\n\n[buildpack]\nid = \"{id}\"\nversion = \"0.0.1\"\n\n[[order]]\n\n[[order.group]]\nid = \"a/x\"\nversion = \"0.0.1\"\n"));
            write(&dir.join("package.toml"), "[buildpack]\nuri = \".\"\n\n[[dependencies]]\nuri = \"libcnb:a/x\"\n\n[[dependencies]]\nuri = \"../../other-bp\"\n\n[[dependencies]]\nuri = \"docker://docker.io/heroku/procfile-cnb:2.0.0\"\n");
        }
    }
}

fn seed(dir: &Path, kind: &str) {
    if kind == "absent" {
        return;
    }
    fs::create_dir_all(dir).unwrap();
    if kind == "complete-old-output" || kind == "partial-no-descriptor" {
        if kind == "complete-old-output" {
            write(&dir.join("buildpack.toml"), "stale descriptor");
            write(&dir.join("package.toml"), "stale package");
        }
        write(&dir.join("bin/build"), "stale build");
        let _ = std::os::unix::fs::symlink("build", dir.join("bin/detect"));
        write(&dir.join(".libcnb-cargo/additional-bin/old-helper"), "stale helper");
    }
    if kind == "foreign-only" || kind == "complete-old-output" {
        write(&dir.join("NOTES.txt"), "foreign");
    }
}

fn package(bin: &str, root: &Path, cwd: &Path, req: &Value) -> (bool, Vec<String>, String) {
    let mut cmd = std::process::Command::new(bin);
    cmd.args(["libcnb", "package", "--no-cross-compile-assistance", "--target", TARGET]);
    if req["release"].as_bool().unwrap_or(false) {
        cmd.arg("--release");
    }
    if let Some(p) = req["package_dir"].as_str() {
        cmd.args(["--package-dir", p]);
    }
    let cargo = std::env::var("VERIF_CARGO").unwrap_or_else(|_| "cargo".into());
    let out = cmd.current_dir(cwd).env("CARGO_TARGET_DIR", root.join("target")).env("CARGO", cargo).env("CARGO_NET_OFFLINE", "true").env_remove("CI").output().unwrap();
    let prefix = root.to_string_lossy().to_string();
    let stdout: Vec<String> = String::from_utf8_lossy(&out.stdout).lines().map(|l| l.replace(&prefix, "/ws").replace(TARGET, "x86_64-unknown-linux-musl")).collect();
    (out.status.success(), stdout, String::from_utf8_lossy(&out.stderr).chars().rev().take(600).collect::<String>().chars().rev().collect())
}

pub fn run(req: &Value) -> Value {
    let Ok(bin) = std::env::var("VERIF_CARGO_LIBCNB") else { return json!({"error": "VERIF_CARGO_LIBCNB not set"}) };
    let tmp = std::env::temp_dir().canonicalize().and_then(tempfile::tempdir_in).unwrap();
    let mut results = Vec::new();
    for round in ["clean", "stale"] {
        let root = tmp.path().join(round).join("ws");
        fs::create_dir_all(&root).unwrap();
        generate(&root, req);
        let cwd = root.join(req["cwd"].as_str().unwrap_or("/ws").trim_start_matches("/ws").trim_start_matches('/'));
        let pkg_dir: PathBuf = match req["package_dir"].as_str() {
            Some(p) => cwd.join(p),
            None => root.join("packaged"),
        };
        let profile = if req["release"].as_bool().unwrap_or(false) { "release" } else { "debug" };
        if round == "stale" {
            for (id, kind) in req["stale"].as_object().cloned().unwrap_or_default() {
                seed(&pkg_dir.join(TARGET).join(profile).join(id.replace('/', "_")), kind.as_str().unwrap_or("absent"));
            }
        }
        let (ok, stdout, stderr) = package(&bin, &root, &cwd, req);
        let tree = snapshot(&pkg_dir, &root);
        results.push((ok, stdout, stderr, tree, pkg_dir, profile, root.clone()));
    }
    let (c, s) = (&results[0], &results[1]);
    let mut diff = Vec::new();
    for k in c.3.keys().chain(s.3.keys()) {
        if c.3.get(k) != s.3.get(k) && !diff.contains(k) {
            diff.push(k.clone());
        }
    }
    // layout of the clean run
    let mut problems = Vec::new();
    for b in req["workspace"].as_array().cloned().unwrap_or_default() {
        let id = b["id"].as_str().unwrap();
        let d = format!("{}/{}/{}", TARGET, c.5, id.replace('/', "_"));
        let selected = req["selected"].as_array().unwrap().iter().any(|x| x == id);
        if !selected {
            if c.3.contains_key(&d) {
                problems.push(format!("{d} written although not selected"));
            }
            continue;
        }
        let mut must = vec![format!("{d}/buildpack.toml"), format!("{d}/package.toml")];
        if b["kind"] == "libcnb" {
            must.push(format!("{d}/bin/build"));
            if c.3.get(&format!("{d}/bin/detect")).map(String::as_str) != Some("link -> build") {
                problems.push(format!("{d}/bin/detect is {:?}", c.3.get(&format!("{d}/bin/detect"))));
            }
            for extra in b["bins"].as_array().unwrap().iter().skip(1) {
                must.push(format!("{d}/.libcnb-cargo/additional-bin/{}", extra.as_str().unwrap()));
            }
        }
        if b["kind"] != "libcnb" {
            // normalised package.toml of the composite, parsed independently
            let text = fs::read_to_string(c.4.join(&d).join("package.toml")).unwrap_or_default();
            let root = c.4.to_string_lossy().to_string();
            let uris: Vec<String> = text.parse::<toml::Table>().ok().and_then(|t| t.get("dependencies").and_then(|x| x.as_array()).map(|a| a.iter().map(|e| e.get("uri").and_then(|u| u.as_str()).unwrap_or("").to_string()).collect())).unwrap_or_default();
            let ws_root = c.6.to_string_lossy().to_string();
            let want = vec![format!("{root}/{}/{}/a_x", TARGET, c.5), format!("{ws_root}/other-bp"), "docker://docker.io/heroku/procfile-cnb:2.0.0".to_string()];
            if c.0 && uris != want {
                problems.push(format!("{d}/package.toml dependencies {uris:?} expected {want:?}"));
            }
        }
        for m in must {
            if !c.3.get(&m).is_some_and(|v| v.starts_with("file")) {
                problems.push(format!("{m} missing"));
            }
        }
    }
    json!({"clean": {"ok": c.0, "stdout": c.1, "stderr_tail": if c.0 { String::new() } else { c.2.clone() }}, "stale": {"ok": s.0, "stdout": s.1},
        "same": c.0 == s.0 && c.1 == s.1 && diff.is_empty(), "diff": diff, "layout_problems": problems})
}
