//! Replay driver: runs solver witnesses against the real crates (public API only).
//! One JSON request per stdin line, one JSON answer per stdout line.
use serde_json::{Value, json};
use std::io::{BufRead, Write};

mod ops_argv;
mod ops_cargo;
mod ops_context;
mod ops_descriptor;
mod ops_doc;
mod ops_env;
mod ops_graph;
mod ops_inventory;
mod ops_layer;
mod ops_parse;
mod ops_runner;
mod ops_runtime;
mod ops_serde;
mod ops_writer;

fn main() {
    if let Ok(req) = std::env::var("VERIF_EXECD") {
        ops_doc::execd_child(&req);
    }
    if let Ok(req) = std::env::var("VERIF_RUNTIME") {
        ops_runtime::child(&req);
    }
    if let Ok(req) = std::env::var("VERIF_DESCRIPTOR") {
        ops_descriptor::child(&req);
    }
    if let Ok(scenario) = std::env::var("VERIF_SCENARIO") {
        ops_runner::child(&scenario);
    }
    let stdin = std::io::stdin();
    let stdout = std::io::stdout();
    for line in stdin.lock().lines() {
        let line = line.expect("stdin");
        if line.trim().is_empty() {
            continue;
        }
        let req: Value = serde_json::from_str(&line).expect("request json");
        let op = req["op"].as_str().unwrap_or("").to_string();
        let res = std::panic::catch_unwind(|| dispatch(&op, &req));
        let ans = match res {
            Ok(v) => v,
            Err(_) => json!({"panic": true}),
        };
        let mut o = stdout.lock();
        writeln!(o, "{}", ans).unwrap();
        o.flush().unwrap();
    }
}

fn dispatch(op: &str, req: &Value) -> Value {
    match op {
        "version" | "api" | "newtype" => ops_parse::run(op, req),
        "layer-struct" => ops_layer::layer_struct(req),
        "layer-trait" => ops_layer::layer_trait(req),
        "layer-det" => ops_layer::layer_det(req),
        "writer" => ops_writer::run(req),
        "checksum" => ops_inventory::checksum(req),
        "checksum-roundtrip" => ops_inventory::checksum_roundtrip(req),
        "inventory" => ops_inventory::inventory(req),
        "inventory-roundtrip" => ops_inventory::inventory_roundtrip(req),
        "serde-doc" => ops_serde::doc(req),
        "env-apply" => ops_env::apply(req),
        "env-roundtrip" => ops_env::roundtrip(req),
        "env-paths" => ops_env::paths(req),
        "env-read" => ops_env::read_side(req),
        "argv" => ops_argv::run(req),
        "runner-scenario" => ops_runner::run(req),
        "normalize-descriptor" => ops_descriptor::run(req),
        "runtime" => ops_runtime::run(req),
        "write-doc" => ops_doc::run(req),
        "cargo-package" => ops_cargo::run(req),
        "dep-graph" => ops_graph::run(req),
        "node-deps" => ops_graph::node_deps(req),
        _ => json!({"error": format!("unknown op {op}")}),
    }
}
