//! C14: package_composite_buildpack on a scratch tree.  To make the location of package.toml exactly the requested one
//! (including `/`), the operation runs in a child process chroot-ed into the scratch directory when that is permitted;
//! otherwise it runs un-chrooted and reports the prefix.
use libcnb_data::buildpack::BuildpackId;
use serde_json::{Value, json};
use std::collections::BTreeMap;
use std::fs;
use std::path::{Path, PathBuf};

const BUILDPACK_TOML: &str = "api = \"0.10\"\n\n[buildpack]\nid = \"demo/composite\"\nversion = \"0.0.1\"\n\n[[order]]\n\n[[order.group]]\nid = \"demo/a\"\nversion = \"0.0.1\"\n";

pub fn run(req: &Value) -> Value {
    let t = std::env::temp_dir().join(format!("verif-desc-{}-{}", std::process::id(), std::time::SystemTime::now().duration_since(std::time::UNIX_EPOCH).map(|d| d.as_nanos()).unwrap_or(0)));
    let _ = fs::remove_dir_all(&t);
    let loc = req["location"].as_str().unwrap_or("/");
    let src = t.join(loc.trim_start_matches('/'));
    fs::create_dir_all(&src).unwrap();
    fs::create_dir_all(t.join("__out")).unwrap();
    fs::write(src.join("buildpack.toml"), BUILDPACK_TOML).unwrap();
    let mut text = String::from("[buildpack]\nuri = \".\"\n");
    for d in req["deps"].as_array().cloned().unwrap_or_default() {
        text.push_str(&format!("\n[[dependencies]]\nuri = {}\n", toml::Value::String(d.as_str().unwrap_or("").to_string())));
    }
    text.push_str(&format!("\n[platform]\nos = \"{}\"\n", if req["windows"].as_bool().unwrap_or(false) { "windows" } else { "linux" }));
    fs::write(src.join("package.toml"), text).unwrap();
    let exe = std::env::current_exe().unwrap();
    let out = std::process::Command::new(exe)
        .env("VERIF_DESCRIPTOR", req.to_string())
        .env("VERIF_T", &t)
        .stdin(std::process::Stdio::null())
        .stderr(std::process::Stdio::null())
        .output()
        .unwrap();
    let _ = fs::remove_dir_all(&t);
    let line = String::from_utf8_lossy(&out.stdout).to_string();
    serde_json::from_str(line.trim()).unwrap_or_else(|_| json!({"error": format!("child gave no answer (status {:?})", out.status.code())}))
}

pub fn child(req: &str) -> ! {
    let req: Value = serde_json::from_str(req).expect("request");
    let t = PathBuf::from(std::env::var("VERIF_T").expect("VERIF_T"));
    let chrooted = std::os::unix::fs::chroot(&t).is_ok() && std::env::set_current_dir("/").is_ok();
    let prefix = if chrooted { String::new() } else { t.to_string_lossy().to_string() };
    let loc = req["location"].as_str().unwrap_or("/");
    let src = PathBuf::from(format!("{prefix}{loc}"));
    let dest = PathBuf::from(format!("{prefix}/__out"));
    let mut map: BTreeMap<BuildpackId, PathBuf> = BTreeMap::new();
    for kv in req["map"].as_array().cloned().unwrap_or_default() {
        if let Ok(id) = kv[0].as_str().unwrap_or("").parse::<BuildpackId>() {
            map.insert(id, PathBuf::from(kv[1].as_str().unwrap_or("")));
        }
    }
    let res = libcnb_package::package::package_composite_buildpack(Path::new(&src), &dest, &map);
    let ans = match res {
        Err(e) => json!({"ok": false, "err": e.to_string(), "prefix": prefix}),
        Ok(()) => {
            let text = fs::read_to_string(dest.join("package.toml")).unwrap_or_default();
            match text.parse::<toml::Table>() {
                Err(e) => json!({"ok": true, "reparses": false, "err": e.to_string(), "prefix": prefix}),
                Ok(v) => {
                    let deps: Vec<String> = v.get("dependencies").and_then(|d| d.as_array()).map(|a| a.iter().map(|x| x.get("uri").and_then(|u| u.as_str()).unwrap_or("<no uri>").to_string()).collect()).unwrap_or_default();
                    let bp = v.get("buildpack").and_then(|b| b.get("uri")).and_then(|u| u.as_str()).unwrap_or("<none>").to_string();
                    let os = v.get("platform").and_then(|b| b.get("os")).and_then(|u| u.as_str()).unwrap_or("<none>").to_string();
                    json!({"ok": true, "reparses": true, "deps": deps, "buildpack": bp, "os": os, "prefix": prefix})
                }
            }
        }
    };
    println!("{ans}");
    std::process::exit(0)
}
