//! C17: the command structs are `pub(crate)`; the driver compiles the repository's own source files of the two
//! modules (working tree of /repo) and calls the real `From<..> for Command` conversions.
use serde_json::{Value, json};
use std::path::PathBuf;
use std::process::Command;

#[allow(dead_code)]
#[path = "/repo/libcnb-test/src/docker.rs"]
mod docker;
#[allow(dead_code)]
#[path = "/repo/libcnb-test/src/pack.rs"]
mod pack;

fn strs(v: &Value) -> Vec<String> {
    v.as_array().map(|a| a.iter().map(|x| x.as_str().unwrap_or("").to_string()).collect()).unwrap_or_default()
}

fn argv(c: &Command) -> Value {
    let mut out = vec![c.get_program().to_string_lossy().to_string()];
    out.extend(c.get_args().map(|a| a.to_string_lossy().to_string()));
    json!({"argv": out})
}

pub fn run(req: &Value) -> Value {
    match req["kind"].as_str().unwrap_or("") {
        "docker-run" => {
            let mut c = docker::DockerRunCommand::new("img", "cname");
            if let Some(e) = req["entrypoint"].as_str() {
                c.entrypoint(e);
            }
            if let Some(p) = req["platform"].as_str() {
                c.platform(p);
            }
            for kv in req["env"].as_array().cloned().unwrap_or_default() {
                c.env(kv[0].as_str().unwrap_or(""), kv[1].as_str().unwrap_or(""));
            }
            for p in req["ports"].as_array().cloned().unwrap_or_default() {
                c.expose_port(p.as_u64().unwrap_or(0) as u16);
            }
            for m in req["mounts"].as_array().cloned().unwrap_or_default() {
                c.bind_mount(PathBuf::from(m[0].as_str().unwrap_or("")), PathBuf::from(m[1].as_str().unwrap_or("")));
            }
            if !req["command"].is_null() {
                c.command(strs(&req["command"]));
            }
            c.detach(req["detach"].as_bool().unwrap_or(false));
            c.remove(req["remove"].as_bool().unwrap_or(false));
            argv(&Command::from(c))
        }
        "docker-exec" => argv(&Command::from(docker::DockerExecCommand::new("cname", strs(&req["command"])))),
        "pack-build" => {
            let mut c = pack::PackBuildCommand::new(
                req["builder"].as_str().unwrap_or(""),
                PathBuf::from(req["path"].as_str().unwrap_or("")),
                "img",
                "bcache",
                "lcache",
            );
            for (b, k) in strs(&req["buildpacks"]).into_iter().zip(strs(&req["buildpack_kinds"])) {
                if k == "path" {
                    c.buildpack(PathBuf::from(b));
                } else {
                    c.buildpack(b);
                }
            }
            for kv in req["env"].as_array().cloned().unwrap_or_default() {
                c.env(kv[0].as_str().unwrap_or(""), kv[1].as_str().unwrap_or(""));
            }
            argv(&Command::from(c))
        }
        k => json!({"error": format!("unknown kind {k}")}),
    }
}
