use libcnb_package::buildpack_dependency_graph::build_libcnb_buildpacks_dependency_graph;
use libcnb_package::dependency_graph::get_dependencies;
use serde_json::{Value, json};

/// builds a temp workspace of composite buildpacks `names[i]` with id x/n<i> and libcnb: dependencies, then calls the
/// public graph construction and `get_dependencies`
pub fn run(req: &Value) -> Value {
    let n = req["n"].as_u64().unwrap() as usize;
    let tmp = tempfile::tempdir().unwrap();
    let ws = tmp.path();
    let unknown = req["unknown"].as_u64().map_or(n, |u| u as usize);
    let id = |i: usize| if i < n && i != unknown { format!("x/n{i}") } else { "x/unknown".to_string() };
    for i in 0..n {
        let dir = ws.join(req["names"][i].as_str().unwrap());
        std::fs::create_dir_all(&dir).unwrap();
        std::fs::write(
            dir.join("buildpack.toml"),
            format!("api = \"0.10\"\n\n[buildpack]\nid = \"{}\"\nversion = \"0.0.1\"\n\n[[order]]\n[[order.group]]\nid = \"heroku/procfile\"\nversion = \"1.0.0\"\n", id(i)),
        )
        .unwrap();
        let mut pkg = String::from("[buildpack]\nuri = \".\"\n");
        for d in req["deps"][i].as_array().unwrap() {
            pkg.push_str(&format!("\n[[dependencies]]\nuri = \"libcnb:{}\"\n", id(d.as_u64().unwrap() as usize)));
        }
        std::fs::write(dir.join("package.toml"), pkg).unwrap();
    }
    let graph = match build_libcnb_buildpacks_dependency_graph(ws) {
        Ok(g) => g,
        Err(e) => {
            let s = format!("{e:?}");
            let kind = if s.contains("MissingDependency") { "MissingDependency" } else { "Other" };
            return json!({"err": kind, "detail": s});
        }
    };
    let idx_of = |bid: &str| -> usize { bid.trim_start_matches("x/n").parse().unwrap_or(n) };
    let node_order: Vec<usize> = graph.node_weights().map(|w| idx_of(w.buildpack_id.as_str())).collect();
    let roots: Vec<_> = req["roots"]
        .as_array()
        .unwrap()
        .iter()
        .map(|r| graph.node_weights().find(|w| idx_of(w.buildpack_id.as_str()) == r.as_u64().unwrap() as usize).unwrap())
        .collect();
    match get_dependencies(&graph, &roots) {
        Ok(order) => json!({"order": order.iter().map(|w| idx_of(w.buildpack_id.as_str())).collect::<Vec<_>>(), "node_order": node_order}),
        Err(e) => json!({"err": format!("{e:?}"), "node_order": node_order}),
    }
}

/// C13 (edge extraction): a workspace with one composite buildpack `x/top` whose package.toml lists `uris` verbatim, plus one
/// composite buildpack per expected libcnb id; returns the dependencies of x/top's graph node as the real code extracted them
pub fn node_deps(req: &Value) -> Value {
    let tmp = tempfile::tempdir().unwrap();
    let ws = tmp.path();
    let composite = |dir: &std::path::Path, id: &str, pkg: &str| {
        std::fs::create_dir_all(dir).unwrap();
        std::fs::write(
            dir.join("buildpack.toml"),
            format!("api = \"0.10\"\n\n[buildpack]\nid = \"{id}\"\nversion = \"0.0.1\"\n\n[[order]]\n[[order.group]]\nid = \"heroku/procfile\"\nversion = \"1.0.0\"\n"),
        )
        .unwrap();
        std::fs::write(dir.join("package.toml"), pkg).unwrap();
    };
    let mut pkg = String::from("[buildpack]\nuri = \".\"\n");
    for u in req["uris"].as_array().unwrap() {
        pkg.push_str(&format!("\n[[dependencies]]\nuri = {}\n", serde_json::to_string(u.as_str().unwrap()).unwrap()));
    }
    composite(&ws.join("top"), "x/top", &pkg);
    let mut seen: Vec<String> = vec![];
    for (k, e) in req["expect"].as_array().unwrap().iter().enumerate() {
        let id = e.as_str().unwrap().to_string();
        if id != "x/top" && !seen.contains(&id) {
            composite(&ws.join(format!("dep{k}")), &id, "[buildpack]\nuri = \".\"\n");
            seen.push(id);
        }
    }
    match build_libcnb_buildpacks_dependency_graph(ws) {
        Ok(g) => {
            let top = g.node_weights().find(|w| w.buildpack_id.as_str() == "x/top").unwrap();
            json!({"deps": top.dependencies.iter().map(|d| d.to_string()).collect::<Vec<_>>()})
        }
        Err(e) => json!({"err": format!("{e:?}")}),
    }
}
