use libcnb_package::buildpack_dependency_graph::build_libcnb_buildpacks_dependency_graph;
use libcnb_package::dependency_graph::get_dependencies;
use serde_json::{Value, json};

/// builds a temp workspace of composite buildpacks `names[i]` with id x/n<i> and libcnb: dependencies, then calls the
/// public graph construction and `get_dependencies`
pub fn run(req: &Value) -> Value {
    let n = req["n"].as_u64().unwrap() as usize;
    let tmp = tempfile::tempdir().unwrap();
    let ws = tmp.path();
    let unknown = req["unknown"].as_u64().map_or(n, |u| u as usize);
    let id = |i: usize| if i < n && i != unknown { format!("x/n{i}") } else { "x/unknown".to_string() };
    for i in 0..n {
        let dir = ws.join(req["names"][i].as_str().unwrap());
        std::fs::create_dir_all(&dir).unwrap();
        std::fs::write(
            dir.join("buildpack.toml"),
            format!("api = \"0.10\"\n\n[buildpack]\nid = \"{}\"\nversion = \"0.0.1\"\n\n[[order]]\n[[order.group]]\nid = \"heroku/procfile\"\nversion = \"1.0.0\"\n", id(i)),
        )
        .unwrap();
        let mut pkg = String::from("[buildpack]\nuri = \".\"\n");
        for d in req["deps"][i].as_array().unwrap() {
            pkg.push_str(&format!("\n[[dependencies]]\nuri = \"libcnb:{}\"\n", id(d.as_u64().unwrap() as usize)));
        }
        std::fs::write(dir.join("package.toml"), pkg).unwrap();
    }
    let graph = match build_libcnb_buildpacks_dependency_graph(ws) {
        Ok(g) => g,
        Err(e) => {
            let s = format!("{e:?}");
            let kind = if s.contains("MissingDependency") { "MissingDependency" } else { "Other" };
            return json!({"err": kind, "detail": s});
        }
    };
    let idx_of = |bid: &str| -> usize { bid.trim_start_matches("x/n").parse().unwrap_or(n) };
    let node_order: Vec<usize> = graph.node_weights().map(|w| idx_of(w.buildpack_id.as_str())).collect();
    let roots: Vec<_> = req["roots"]
        .as_array()
        .unwrap()
        .iter()
        .map(|r| graph.node_weights().find(|w| idx_of(w.buildpack_id.as_str()) == r.as_u64().unwrap() as usize).unwrap())
        .collect();
    match get_dependencies(&graph, &roots) {
        Ok(order) => json!({"order": order.iter().map(|w| idx_of(w.buildpack_id.as_str())).collect::<Vec<_>>(), "node_order": node_order}),
        Err(e) => json!({"err": format!("{e:?}"), "node_order": node_order}),
    }
}
