//! C16/C17: runs a libcnb-test scenario (public API) in a child process with stand-in `docker`/`pack` executables first on
//! PATH that log their argv and exit with the planned code; reports the command log, how the scenario ended
//! (return | panic | abort) and what is left in TMPDIR.
use libcnb_test::{BuildConfig, BuildpackReference, ContainerConfig, ContainerContext, PackResult, TestContext, TestRunner};
use serde_json::{Value, json};
use std::cell::RefCell;
use std::fs;
use std::os::unix::fs::PermissionsExt;
use std::path::{Path, PathBuf};

const SCRIPT: &str = r#"#!/bin/sh
n=$(cat "$VERIF_W/count")
echo $((n+1)) > "$VERIF_W/count"
{
  printf '%s' "$(basename "$0")" | od -An -v -tx1 | tr -d ' \n'; echo
  for a in "$@"; do printf '%s' "$a" | od -An -v -tx1 | tr -d ' \n'; echo; done
  echo --
} >> "$VERIF_W/log"
code=$(sed -n "$((n+1))p" "$VERIF_W/codes")
if [ "$1" = port ]; then echo "127.0.0.1:32768"; fi
exit ${code:-0}
"#;

pub fn run(req: &Value) -> Value {
    let w = std::env::temp_dir().join(format!("verif-runner-{}-{}", std::process::id(), fastrand_like()));
    let _ = fs::remove_dir_all(&w);
    for d in ["bin", "tmp", "crate/fixture"] {
        fs::create_dir_all(w.join(d)).unwrap();
    }
    fs::write(w.join("crate/fixture/app.txt"), "fixture").unwrap();
    for name in ["docker", "pack"] {
        let p = w.join("bin").join(name);
        fs::write(&p, SCRIPT).unwrap();
        fs::set_permissions(&p, fs::Permissions::from_mode(0o755)).unwrap();
    }
    fs::write(w.join("count"), "0\n").unwrap();
    fs::write(w.join("log"), "").unwrap();
    let codes: Vec<String> = req["codes"].as_array().cloned().unwrap_or_default().iter().map(|c| c.as_i64().unwrap_or(0).to_string()).collect();
    fs::write(w.join("codes"), codes.join("\n") + "\n").unwrap();
    let exe = std::env::current_exe().unwrap();
    let path = format!("{}:{}", w.join("bin").display(), std::env::var("PATH").unwrap_or_default());
    let status = std::process::Command::new(exe)
        .env("VERIF_SCENARIO", req.to_string())
        .env("VERIF_W", &w)
        .env("PATH", path)
        .env("TMPDIR", w.join("tmp"))
        .env("CARGO_MANIFEST_DIR", w.join("crate"))
        .stdin(std::process::Stdio::null())
        .stdout(std::process::Stdio::null())
        .stderr(std::process::Stdio::null())
        .status()
        .unwrap();
    let end = match status.code() {
        Some(0) => "return",
        Some(3) => "panic",
        Some(_) => "other-exit",
        None => "abort",
    };
    let wtxt = w.to_string_lossy().to_string();
    let raw = fs::read_to_string(w.join("log")).unwrap_or_default();
    let mut commands = Vec::new();
    let mut cur: Vec<String> = Vec::new();
    for line in raw.lines() {
        if line == "--" {
            commands.push(std::mem::take(&mut cur));
            continue;
        }
        let bytes: Vec<u8> = (0..line.len() / 2).filter_map(|i| u8::from_str_radix(&line[2 * i..2 * i + 2], 16).ok()).collect();
        cur.push(String::from_utf8_lossy(&bytes).replace(&wtxt, ""));
    }
    let leftover: Vec<String> = fs::read_dir(w.join("tmp")).map(|rd| rd.filter_map(Result::ok).map(|e| e.file_name().to_string_lossy().to_string()).collect()).unwrap_or_default();
    let mut fixture: Vec<String> = fs::read_dir(w.join("crate/fixture")).map(|rd| rd.filter_map(Result::ok).map(|e| e.file_name().to_string_lossy().to_string()).collect()).unwrap_or_default();
    fixture.sort();
    let fixture_changed = fixture != vec!["app.txt".to_string()] || fs::read_to_string(w.join("crate/fixture/app.txt")).unwrap_or_default() != "fixture";
    let _ = fs::remove_dir_all(&w);
    json!({"end": end, "commands": commands, "leftover": leftover, "fixture_changed": fixture_changed})
}

fn fastrand_like() -> u128 {
    std::time::SystemTime::now().duration_since(std::time::UNIX_EPOCH).map(|d| d.as_nanos()).unwrap_or(0)
}

struct Cursor {
    container: Value,
    trace: Vec<String>,
    builds: Vec<Value>,
    pos: RefCell<usize>,
    bpos: RefCell<usize>,
}

impl Cursor {
    fn next(&self) -> String {
        let mut p = self.pos.borrow_mut();
        let s = self.trace.get(*p).cloned().unwrap_or_else(|| String::from("<end>"));
        *p += 1;
        s
    }

    fn next_build(&self) -> BuildConfig {
        let mut p = self.bpos.borrow_mut();
        let b = &self.builds[*p];
        *p += 1;
        let mut cfg = BuildConfig::new(b["builder"].as_str().unwrap_or(""), "fixture");
        let bps: Vec<BuildpackReference> = b["buildpacks"].as_array().cloned().unwrap_or_default().iter().map(|x| BuildpackReference::Other(x.as_str().unwrap_or("").to_string())).collect();
        cfg.buildpacks(bps);
        for kv in b["env"].as_array().cloned().unwrap_or_default() {
            cfg.env(kv[0].as_str().unwrap_or(""), kv[1].as_str().unwrap_or(""));
        }
        if b["preprocessor"].as_bool().unwrap_or(false) {
            cfg.app_dir_preprocessor(|p: PathBuf| {
                fs::write(p.join("added-by-preprocessor"), "x").unwrap();
            });
        }
        if b["expect_failure"].as_bool().unwrap_or(false) {
            cfg.expected_pack_result(PackResult::Failure);
        }
        cfg
    }
}

fn container_prog(cur: &Cursor, cc: ContainerContext) {
    loop {
        match cur.next().as_str() {
            "c:return" => return,
            "c:panic" => panic!("injected panic in the container closure"),
            "c:logs_now" => {
                let _ = cc.logs_now();
            }
            "c:logs_wait" => {
                let _ = cc.logs_wait();
            }
            "c:port" => {
                let _ = cc.address_for_port(8080);
            }
            "c:port-unexposed" => {
                let _ = cc.address_for_port(9999);
            }
            "c:shell_exec" => {
                let _ = cc.shell_exec("true");
            }
            other => panic!("trace out of step (container): {other}"),
        }
    }
}

fn build_prog(cur: &Cursor, tc: TestContext) {
    loop {
        match cur.next().as_str() {
            "b:return" => return,
            "b:panic" => panic!("injected panic in the build closure"),
            "b:start_container" => {
                let mut cfg = ContainerConfig::new();
                let c = &cur.container;
                if c.is_object() {
                    cfg.entrypoint(c["entrypoint"].as_str().unwrap_or(""));
                    cfg.command(c["command"].as_array().cloned().unwrap_or_default().iter().map(|x| x.as_str().unwrap_or("").to_string()).collect::<Vec<String>>());
                    for kv in c["env"].as_array().cloned().unwrap_or_default() {
                        cfg.env(kv[0].as_str().unwrap_or(""), kv[1].as_str().unwrap_or(""));
                    }
                    cfg.expose_port(c["port"].as_u64().unwrap_or(0) as u16);
                    cfg.bind_mount(PathBuf::from(c["mount"][0].as_str().unwrap_or("")), PathBuf::from(c["mount"][1].as_str().unwrap_or("")));
                } else {
                    cfg.expose_port(8080);
                }
                tc.start_container(cfg, |cc| container_prog(cur, cc));
            }
            "b:run_shell_command" => {
                let _ = tc.run_shell_command("true");
            }
            "b:download_sbom" => {
                let inner = cur.next();
                tc.download_sbom_files(|_files| {
                    assert!(inner != "s:panic", "injected panic in the sbom closure");
                });
            }
            "b:rebuild" => {
                let cfg = cur.next_build();
                tc.rebuild(cfg, |tc2| build_prog(cur, tc2));
                return;
            }
            other => panic!("trace out of step (build): {other}"),
        }
    }
}

/// child side: called from main() when VERIF_SCENARIO is set
pub fn child(scenario: &str) -> ! {
    let req: Value = serde_json::from_str(scenario).expect("scenario json");
    let cur = Cursor {
        container: req["container"].clone(),
        trace: req["trace"].as_array().cloned().unwrap_or_default().iter().map(|x| x.as_str().unwrap_or("").to_string()).collect(),
        builds: req["builds"].as_array().cloned().unwrap_or_default(),
        pos: RefCell::new(0),
        bpos: RefCell::new(0),
    };
    let _ = Path::new(".");
    let res = std::panic::catch_unwind(std::panic::AssertUnwindSafe(|| {
        let cfg = cur.next_build();
        TestRunner::default().build(cfg, |tc| build_prog(&cur, tc));
    }));
    std::process::exit(if res.is_ok() { 0 } else { 3 })
}
