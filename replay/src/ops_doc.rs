//! C07: builds documents through the public builders/types, writes them with libcnb's own writers and returns the text.
use libcnb::data::build_plan::{BuildPlanBuilder, Require};
use libcnb::data::exec_d::{ExecDProgramOutput, ExecDProgramOutputKey};
use libcnb::data::launch::{Label, LaunchBuilder, ProcessBuilder, ProcessType, Slice, WorkingDirectory};
use libcnb::data::store::Store;
use libcnb_common::toml_file::{read_toml_file, write_toml_file};
use serde_json::{Value, json};
use std::collections::HashMap;
use std::fs;
use std::path::PathBuf;

fn ident_table(id: i64) -> toml::value::Table {
    let mut t = toml::value::Table::new();
    if id != 0 {
        t.insert("ident".to_string(), toml::Value::Integer(id));
    }
    t
}

fn s(v: &Value) -> String {
    v.as_str().unwrap_or("").to_string()
}

pub fn run(req: &Value) -> Value {
    let tmp = tempfile::tempdir().unwrap();
    let path = tmp.path().join("doc.toml");
    match req["doc"].as_str().unwrap_or("") {
        "build-plan" => {
            let mut b = BuildPlanBuilder::new();
            for c in req["calls"].as_array().cloned().unwrap_or_default() {
                match c[0].as_str().unwrap_or("") {
                    "provides" => b = b.provides(s(&c[1])),
                    "or" => b = b.or(),
                    _ => {
                        let mut r = Require::new(s(&c[1]));
                        r.metadata = ident_table(c[2].as_i64().unwrap_or(0));
                        b = b.requires(r);
                    }
                }
            }
            let plan = b.build();
            if let Err(e) = write_toml_file(&plan, &path) {
                return json!({"error": format!("write failed: {e}")});
            }
            json!({"text": fs::read_to_string(&path).unwrap_or_default()})
        }
        "launch" => {
            let mut lb = LaunchBuilder::new();
            for c in req["calls"].as_array().cloned().unwrap_or_default() {
                match c[0].as_str().unwrap_or("") {
                    "label" => {
                        lb.label(Label { key: s(&c[1]), value: s(&c[2]) });
                    }
                    "slice" => {
                        lb.slice(Slice { path_globs: c[1].as_array().cloned().unwrap_or_default().iter().map(s).collect() });
                    }
                    _ => {
                        let p = &c[1];
                        let ty: ProcessType = match s(&p["type"]).parse() {
                            Ok(t) => t,
                            Err(_) => return json!({"error": "process type rejected"}),
                        };
                        let cmd: Vec<String> = p["command"].as_array().cloned().unwrap_or_default().iter().map(s).collect();
                        let mut pb = ProcessBuilder::new(ty, cmd);
                        for a in p["args"].as_array().cloned().unwrap_or_default() {
                            pb.arg(s(&a));
                        }
                        if let Some(d) = p["default"].as_bool() {
                            pb.default(d);
                        }
                        if let Some(w) = p["wd"].as_str() {
                            pb.working_directory(WorkingDirectory::Directory(PathBuf::from(w)));
                        }
                        lb.process(pb.build());
                    }
                }
            }
            let launch = lb.build();
            if let Err(e) = write_toml_file(&launch, &path) {
                return json!({"error": format!("write failed: {e}")});
            }
            let back = read_toml_file::<libcnb::data::launch::Launch>(&path);
            json!({"text": fs::read_to_string(&path).unwrap_or_default(), "read_back_ok": back.is_ok()})
        }
        "store" => {
            let st = Store { metadata: ident_table(req["metadata_id"].as_i64().unwrap_or(0)) };
            if let Err(e) = write_toml_file(&st, &path) {
                return json!({"error": format!("write failed: {e}")});
            }
            json!({"text": fs::read_to_string(&path).unwrap_or_default(), "read_back_ok": read_toml_file::<Store>(&path).is_ok()})
        }
        "exec.d" => {
            // the real writer targets fd 3: run it in a child whose fd 3 is a file
            let exe = std::env::current_exe().unwrap();
            let status = std::process::Command::new("sh")
                .arg("-c")
                .arg("exec \"$0\" 3>\"$VERIF_OUT\"")
                .arg(exe)
                .env("VERIF_EXECD", req.to_string())
                .env("VERIF_OUT", &path)
                .stdin(std::process::Stdio::null())
                .stdout(std::process::Stdio::null())
                .stderr(std::process::Stdio::null())
                .status()
                .unwrap();
            if !status.success() {
                return json!({"error": format!("exec.d child failed: {:?}", status.code())});
            }
            json!({"text": fs::read_to_string(&path).unwrap_or_default()})
        }
        d => json!({"error": format!("unknown doc {d}")}),
    }
}

pub fn execd_child(req: &str) -> ! {
    let req: Value = serde_json::from_str(req).expect("request");
    let mut m: HashMap<ExecDProgramOutputKey, String> = HashMap::new();
    for kv in req["pairs"].as_array().cloned().unwrap_or_default() {
        match s(&kv[0]).parse::<ExecDProgramOutputKey>() {
            Ok(k) => {
                m.insert(k, s(&kv[1]));
            }
            Err(_) => std::process::exit(4),
        }
    }
    libcnb::exec_d::write_exec_d_program_output(ExecDProgramOutput::new(m));
    std::process::exit(0)
}
