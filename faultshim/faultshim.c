/* LD_PRELOAD fault injector for replaying C12 counterexamples against the real build.
 * VERIF_FAULT="<op>:<path suffix>:<n>[:<errno>]" makes the n-th (1-based) call of family <op> whose path ends with
 * <path suffix> fail with errno (default EIO).  Families: open_r open_w mkdir unlink rmdir rename chmod opendir write read
 * unlink_under (first unlink/rmdir of anything below the path).  Everything else is passed through.  The injector is
 * armed by unlink("/__verif_arm__") and disarmed by unlink("/__verif_disarm__") so that scenario set-up and the final
 * snapshot are never hit. */
#define _GNU_SOURCE
#include <dlfcn.h>
#include <errno.h>
#include <fcntl.h>
#include <stdarg.h>
#include <stdio.h>
#include <stdlib.h>
#include <string.h>
#include <sys/stat.h>
#include <sys/types.h>
#include <dirent.h>
#include <unistd.h>

static char f_op[32], f_path[512];
static int f_n = 0, f_errno = EIO, f_seen = 0, f_init = 0;
static int watched_fd = -1;

static void init(void) {
    if (f_init) return;
    f_init = 1;
    const char *s = getenv("VERIF_FAULT");
    if (!s) return;
    char buf[700];
    strncpy(buf, s, sizeof buf - 1); buf[sizeof buf - 1] = 0;
    char *a = strtok(buf, ":"), *b = strtok(NULL, ":"), *c = strtok(NULL, ":"), *d = strtok(NULL, ":");
    if (!a || !b || !c) return;
    strncpy(f_op, a, sizeof f_op - 1); strncpy(f_path, b, sizeof f_path - 1); f_n = atoi(c);
    if (d) f_errno = atoi(d);
}

static int ends_with(const char *p, const char *suf) {
    if (!p) return 0;
    size_t lp = strlen(p), ls = strlen(suf);
    while (lp > 1 && p[lp - 1] == '/') lp--;
    return lp >= ls && strncmp(p + lp - ls, suf, ls) == 0;
}

static int under(const char *p, const char *dir) {
    if (!p) return 0;
    const char *q = strstr(p, dir);
    if (!q) return 0;
    q += strlen(dir);
    return *q == '/';
}

static int armed = 0;

static int hit(const char *op, const char *path) {
    init();
    if (path && strcmp(path, "/__verif_arm__") == 0) { armed = 1; return 0; }
    if (path && strcmp(path, "/__verif_disarm__") == 0) { armed = 0; return 0; }
    if (!armed || !f_n || strcmp(op, f_op) != 0) return 0;
    if (strcmp(op, "unlink_under") == 0 ? !under(path, f_path) : !ends_with(path, f_path)) return 0;
    if (++f_seen == f_n) { errno = f_errno; return 1; }
    return 0;
}

#define REAL(name) static __typeof__(name) *real = NULL; if (!real) real = dlsym(RTLD_NEXT, #name)

static int open_common(const char *path, int flags) {
    int w = (flags & O_ACCMODE) != O_RDONLY;
    if (flags & O_DIRECTORY) return hit("opendir", path);
    return hit(w ? "open_w" : "open_r", path);
}

int open(const char *path, int flags, ...) {
    REAL(open);
    mode_t mode = 0;
    if (flags & (O_CREAT | O_TMPFILE)) { va_list ap; va_start(ap, flags); mode = va_arg(ap, mode_t); va_end(ap); }
    if (open_common(path, flags)) return -1;
    int fd = real(path, flags, mode);
    init();
    if (fd >= 0 && f_n && (strcmp(f_op, "write") == 0 || strcmp(f_op, "read") == 0) && ends_with(path, f_path)) watched_fd = fd;
    return fd;
}

int open64(const char *path, int flags, ...) {
    REAL(open64);
    mode_t mode = 0;
    if (flags & (O_CREAT | O_TMPFILE)) { va_list ap; va_start(ap, flags); mode = va_arg(ap, mode_t); va_end(ap); }
    if (open_common(path, flags)) return -1;
    int fd = real(path, flags, mode);
    init();
    if (fd >= 0 && f_n && (strcmp(f_op, "write") == 0 || strcmp(f_op, "read") == 0) && ends_with(path, f_path)) watched_fd = fd;
    return fd;
}

int openat(int dirfd, const char *path, int flags, ...) {
    REAL(openat);
    mode_t mode = 0;
    if (flags & (O_CREAT | O_TMPFILE)) { va_list ap; va_start(ap, flags); mode = va_arg(ap, mode_t); va_end(ap); }
    if (open_common(path, flags)) return -1;
    int fd = real(dirfd, path, flags, mode);
    init();
    if (fd >= 0 && f_n && (strcmp(f_op, "write") == 0 || strcmp(f_op, "read") == 0) && ends_with(path, f_path)) watched_fd = fd;
    return fd;
}

int openat64(int dirfd, const char *path, int flags, ...) {
    REAL(openat64);
    mode_t mode = 0;
    if (flags & (O_CREAT | O_TMPFILE)) { va_list ap; va_start(ap, flags); mode = va_arg(ap, mode_t); va_end(ap); }
    if (open_common(path, flags)) return -1;
    int fd = real(dirfd, path, flags, mode);
    init();
    if (fd >= 0 && f_n && (strcmp(f_op, "write") == 0 || strcmp(f_op, "read") == 0) && ends_with(path, f_path)) watched_fd = fd;
    return fd;
}

DIR *opendir(const char *path) { REAL(opendir); if (hit("opendir", path)) return NULL; return real(path); }

ssize_t write(int fd, const void *buf, size_t n) {
    REAL(write);
    init();
    if (armed && fd == watched_fd && fd >= 0 && strcmp(f_op, "write") == 0) { if (++f_seen == f_n) { errno = f_errno; return -1; } }
    return real(fd, buf, n);
}

ssize_t read(int fd, void *buf, size_t n) {
    REAL(read);
    init();
    if (armed && fd == watched_fd && fd >= 0 && strcmp(f_op, "read") == 0) { if (++f_seen == f_n) { errno = f_errno; return -1; } }
    return real(fd, buf, n);
}

int close(int fd) { REAL(close); if (fd == watched_fd) watched_fd = -1; return real(fd); }

int mkdir(const char *path, mode_t m) { REAL(mkdir); if (hit("mkdir", path)) return -1; return real(path, m); }
int mkdirat(int d, const char *path, mode_t m) { REAL(mkdirat); if (hit("mkdir", path)) return -1; return real(d, path, m); }
int unlink(const char *path) { REAL(unlink); if (hit("unlink", path) || hit("unlink_under", path)) return -1; return real(path); }
int unlinkat(int d, const char *path, int fl) {
    REAL(unlinkat);
    if (hit((fl & AT_REMOVEDIR) ? "rmdir" : "unlink", path) || hit("unlink_under", path)) return -1;
    return real(d, path, fl);
}
int rmdir(const char *path) { REAL(rmdir); if (hit("rmdir", path) || hit("unlink_under", path)) return -1; return real(path); }
int rename(const char *a, const char *b) { REAL(rename); if (hit("rename", a)) return -1; return real(a, b); }
int renameat(int d1, const char *a, int d2, const char *b) { REAL(renameat); if (hit("rename", a)) return -1; return real(d1, a, d2, b); }
int chmod(const char *path, mode_t m) { REAL(chmod); if (hit("chmod", path)) return -1; return real(path, m); }
int fchmodat(int d, const char *path, mode_t m, int fl) { REAL(fchmodat); if (hit("chmod", path)) return -1; return real(d, path, m, fl); }
