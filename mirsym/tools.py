"""dev helper: external callee surface of a set of MIR functions (transitively through local MIR)."""
import sys, re, collections
from .core import Program, callee_key, Unsupported
from .enums import scan_enums


def surface(P, roots):
    seen, ext = set(), collections.Counter()
    todo = list(roots)
    while todo:
        k = todo.pop()
        if k in seen:
            continue
        seen.add(k)
        f = P.funcs[k]
        for b in f.blocks.values():
            t = b.term
            if t and t.kind == "call":
                callee = t.data["callee"]
                key, selfty, gen = callee_key(callee)
                try:
                    name = P.resolve_local(callee) if not callee.startswith("<") else P.resolve_trait_local(callee, selfty, key)
                except Unsupported as e:
                    name = None
                if name:
                    todo.append(name)
                else:
                    ext[key] += 1
    return seen, ext


if __name__ == "__main__":
    mir, pat = sys.argv[1], sys.argv[2]
    P = Program([open(m).read() for m in mir.split(",")], enum_variants={}, src_root="/repo")
    roots = [k for k, f in P.funcs.items() if re.search(pat, f.name)]
    print("roots:", *roots, sep="\n  ")
    seen, ext = surface(P, roots)
    print("local fns:", len(seen))
    for k, n in sorted(ext.items()):
        print(f"  {n:3d} {k}")
