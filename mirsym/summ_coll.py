"""Models of std collections keyed by possibly symbolic values: BTreeMap/BTreeSet (ordered; keys compared by running the
key type's own `Ord::cmp` MIR where it is hand-written, structurally otherwise) and HashMap/HashSet (iteration order =
insertion order unless the world installs a permutation hook — C20 makes it symbolic)."""
import re
from . import smt as z3
from .core import *
from .summ_core import (VecV, Ok, Err, Some, NONE, sval, S, is_str, ListIt, It, END, val_eq, clone_val, to_iter, it_next,
                        ItemRef)


class AssocV:
    """association list model; ordered=True keeps keys sorted (BTreeMap)"""
    def __init__(self, ordered, is_set=False, items=None):
        self.ordered, self.is_set = ordered, is_set
        self.items = items or []        # list of [key, value]

    def clone(self):
        return AssocV(self.ordered, self.is_set, [[clone_val(k), clone_val(v)] for k, v in self.items])

    def __repr__(self):
        return ("BTree" if self.ordered else "Hash") + ("Set" if self.is_set else "Map") + repr(self.items)

    type_tag = "Map"


class _Slot:
    """Box-like cell aliasing the value (j=1) or key (j=0) of an entry"""
    def __init__(self, m, i, j=1):
        self.m, self.i, self.j = m, i, j

    @property
    def val(self):
        return self.m.items[self.i][self.j]

    @val.setter
    def val(self, v):
        self.m.items[self.i][self.j] = v


def slot_ref(m, i, j=1):
    r = Ref(Box(None), ())
    r.box = _Slot(m, i, j)
    return r


def key_cmp(ctx, a, b):
    """total order on model keys -> 'Less' | 'Equal' | 'Greater' (forks on symbolic components)"""
    P = ctx.prog
    a, b = deref(a), deref(b)
    if isinstance(a, Adt) and isinstance(b, Adt):
        if a.ty in ("tuple", "array") or (not a.variant and not b.variant):
            name = P.impl_index.get((a.ty, "Ord", "cmp")) if a.ty not in ("tuple", "array") else None
            if name and P.is_handwritten(name):
                return deref(P.call(ctx, name, [Ref(Box(a)), Ref(Box(b))])).variant
            for x, y in zip(a.fields, b.fields):
                o = key_cmp(ctx, x, y)
                if o != "Equal":
                    return o
            return "Equal"
        name = P.impl_index.get((a.ty, "Ord", "cmp"))
        if name and P.is_handwritten(name):
            return deref(P.call(ctx, name, [Ref(Box(a)), Ref(Box(b))])).variant
        vs = P._variants_for(a.ty, a.variant)
        if vs is None:
            raise Unsupported(f"ordering of {a.ty}")
        ia, ib = vs.index(a.variant), vs.index(b.variant)
        if ia != ib:
            return "Less" if ia < ib else "Greater"
        for x, y in zip(a.fields, b.fields):
            o = key_cmp(ctx, x, y)
            if o != "Equal":
                return o
        return "Equal"
    if is_str(a) or is_str(b):
        if isinstance(a, str) and isinstance(b, str):
            ab, bb = a.encode("utf-8", "surrogateescape"), b.encode("utf-8", "surrogateescape")
            return "Less" if ab < bb else ("Equal" if ab == bb else "Greater")
        x, y = S(a), S(b)
        i = ctx.choose([x < y, x == y, z3.And(z3.Not(x < y), x != y)], "key-cmp")
        return ["Less", "Equal", "Greater"][i]
    if is_sym(a) or is_sym(b):
        i = ctx.choose([a < b, a == b, a > b], "key-cmp")
        return ["Less", "Equal", "Greater"][i]
    return "Less" if a < b else ("Equal" if a == b else "Greater")


def find(ctx, m, k):
    k = deref(k)
    for i, (k2, _) in enumerate(m.items):
        e = val_eq(ctx, k, k2)
        if e is True or (e is not False and ctx.branch(e, "key-eq")):
            return i
    return None


def insert(ctx, m, k, v):
    k = deref(k) if not isinstance(deref(k), Adt) else deref(k)
    if not m.ordered:
        i = find(ctx, m, k)
        if i is not None:
            old = m.items[i][1]
            m.items[i][1] = v
            return Some(old)
        m.items.append([k, v])
        return NONE
    for i, (k2, v2) in enumerate(m.items):
        o = key_cmp(ctx, k, k2)
        if o == "Equal":
            m.items[i][1] = v
            return Some(v2)
        if o == "Less":
            m.items.insert(i, [k, v])
            return NONE
    m.items.append([k, v])
    return NONE


class EntryV:
    def __init__(self, m, idx, key):
        self.m, self.idx, self.key = m, idx, key


def install(P):
    @P.summary("Ord::cmp")
    def _cmp(ctx, c):
        return Adt("Ordering", key_cmp(ctx, c.args[0], c.args[1]), [])

    @P.summary("PartialOrd::partial_cmp")
    def _pcmp(ctx, c):
        a = deref(c.args[0])
        if isinstance(a, Adt):
            name = P.impl_index.get((a.ty, "PartialOrd", "partial_cmp"))
            if name and P.is_handwritten(name):
                return P.call(ctx, name, [c.args[0], c.args[1]])
        return Some(Adt("Ordering", key_cmp(ctx, c.args[0], c.args[1]), []))

    @P.summary("PartialOrd::lt", "PartialOrd::le", "PartialOrd::gt", "PartialOrd::ge")
    def _rel(ctx, c):
        # the comparison operators are defined through partial_cmp (std's default methods): incomparable => false
        r = deref(P.summaries["PartialOrd::partial_cmp"](ctx, c))
        o = deref(r.fields[0]).variant if r.variant == "Some" else None
        return {"lt": o == "Less", "le": o in ("Less", "Equal"), "gt": o == "Greater", "ge": o in ("Greater", "Equal")}[c.key.split("::")[-1]]

    @P.summary("Ord::max", "Ord::min")
    def _maxmin(ctx, c):
        o = key_cmp(ctx, c.args[0], c.args[1])
        if c.key.endswith("max"):
            return c.args[1] if o != "Greater" else c.args[0]
        return c.args[0] if o != "Greater" else c.args[1]

    def new_map(ordered, is_set=False):
        return AssocV(ordered, is_set)

    for pre, ordered, is_set in (("HashMap", False, False), ("BTreeMap", True, False), ("HashSet", False, True), ("BTreeSet", True, True)):
        def mk(pre=pre, ordered=ordered, is_set=is_set):
            @P.summary(f"{pre}::new", f"{pre}::with_capacity", f"default:{pre}")
            def _new(ctx, c):
                return new_map(ordered, is_set)

            def build(ctx, ty, items):
                m = new_map(ordered, is_set)
                for it in items:
                    it = deref(it)
                    if is_set:
                        insert(ctx, m, it, UNIT)
                    else:
                        insert(ctx, m, it.fields[0], it.fields[1])
                return m
            P.collection_builders[pre + "<"] = build
            P.collection_builders["std::collections::" + pre + "<"] = build
        mk()

    orig_default = P.default_of

    def default_of(ctx, t):
        h = re.sub(r"<.*", "", t.strip()).split("::")[-1]
        if h in ("HashMap", "BTreeMap", "HashSet", "BTreeSet"):
            return new_map(h.startswith("BTree"), h.endswith("Set"))
        return orig_default(ctx, t)
    P.default_of = default_of
    P.summaries["Default::default"] = lambda ctx, c: default_of(ctx, c.resolve(c.selfty or ""))

    @P.summary("HashMap::insert", "BTreeMap::insert")
    def _insert(ctx, c):
        return insert(ctx, deref(c.args[0]), c.args[1], c.args[2])

    @P.summary("HashSet::insert", "BTreeSet::insert")
    def _sinsert(ctx, c):
        m = deref(c.args[0])
        r = insert(ctx, m, c.args[1], UNIT)
        return r.variant == "None"

    @P.summary("HashMap::get", "BTreeMap::get")
    def _get(ctx, c):
        m = deref(c.args[0])
        i = find(ctx, m, c.args[1])
        return NONE if i is None else Some(slot_ref(m, i))

    @P.summary("HashMap::get_mut", "BTreeMap::get_mut")
    def _get_mut(ctx, c):
        return _get(ctx, c)

    @P.summary("HashMap::contains_key", "BTreeMap::contains_key", "HashSet::contains", "BTreeSet::contains")
    def _contains(ctx, c):
        return find(ctx, deref(c.args[0]), c.args[1]) is not None

    @P.summary("HashMap::remove", "BTreeMap::remove")
    def _remove(ctx, c):
        m = deref(c.args[0])
        i = find(ctx, m, c.args[1])
        if i is None:
            return NONE
        return Some(m.items.pop(i)[1])

    @P.summary("HashSet::remove", "BTreeSet::remove")
    def _sremove(ctx, c):
        m = deref(c.args[0])
        i = find(ctx, m, c.args[1])
        if i is None:
            return False
        m.items.pop(i)
        return True

    @P.summary("HashMap::is_empty", "BTreeMap::is_empty", "HashSet::is_empty", "BTreeSet::is_empty")
    def _is_empty(ctx, c):
        return len(deref(c.args[0]).items) == 0

    @P.summary("HashMap::len", "BTreeMap::len", "HashSet::len", "BTreeSet::len")
    def _len(ctx, c):
        return len(deref(c.args[0]).items)

    @P.summary("HashMap::clear", "BTreeMap::clear", "HashSet::clear", "BTreeSet::clear")
    def _clear(ctx, c):
        deref(c.args[0]).items.clear()
        return UNIT

    def iter_items(ctx, m, by_ref, what="pairs"):
        idx = list(range(len(m.items)))
        if not m.ordered:
            hook = getattr(getattr(ctx, "world", None), "hash_order", None)
            if hook:
                idx = hook(ctx, m, idx)
        out = []
        for i in idx:
            if m.is_set or what == "keys":
                out.append(slot_ref(m, i, 0) if by_ref else m.items[i][0])
            elif what == "values":
                out.append(slot_ref(m, i, 1) if by_ref else m.items[i][1])
            else:
                out.append(Adt("tuple", None, [slot_ref(m, i, 0), slot_ref(m, i, 1)] if by_ref else [m.items[i][0], m.items[i][1]]))
        return ListIt(out)

    def into_iter(self, ctx, by_ref):
        return iter_items(ctx, self, by_ref)
    AssocV.into_iter = into_iter

    @P.summary("HashMap::iter", "BTreeMap::iter", "HashMap::iter_mut", "BTreeMap::iter_mut", "HashSet::iter", "BTreeSet::iter")
    def _iter(ctx, c):
        return iter_items(ctx, deref(c.args[0]), True)

    @P.summary("HashMap::keys", "BTreeMap::keys", "HashMap::into_keys", "BTreeMap::into_keys")
    def _keys(ctx, c):
        return iter_items(ctx, deref(c.args[0]), not c.key.endswith("into_keys"), "keys")

    @P.summary("HashMap::values", "BTreeMap::values", "HashMap::values_mut", "BTreeMap::values_mut", "HashMap::into_values", "BTreeMap::into_values")
    def _values(ctx, c):
        return iter_items(ctx, deref(c.args[0]), not c.key.endswith("into_values"), "values")

    @P.summary("HashMap::extend", "BTreeMap::extend", "HashSet::extend", "BTreeSet::extend")
    def _extend(ctx, c):
        m = deref(c.args[0])
        it = to_iter(ctx, c.args[1], False)
        while True:
            x = it_next(ctx, it)
            if x is END:
                return UNIT
            x = deref(x)
            if m.is_set:
                insert(ctx, m, x, UNIT)
            else:
                insert(ctx, m, x.fields[0], x.fields[1])

    @P.summary("HashMap::retain", "BTreeMap::retain", "HashSet::retain", "BTreeSet::retain")
    def _retain(ctx, c):
        m = deref(c.args[0])
        keep = []
        for i in range(len(m.items)):
            args = [slot_ref(m, i, 0)] if m.is_set else [slot_ref(m, i, 0), slot_ref(m, i, 1)]
            if ctx.branch(ctx.prog.call_value(ctx, c.args[1], args), "retain"):
                keep.append(m.items[i])
        m.items[:] = keep
        return UNIT

    @P.summary("Vec::retain")
    def _vretain(ctx, c):
        v = deref(c.args[0])
        keep = []
        for i in range(len(v.items)):
            if ctx.branch(ctx.prog.call_value(ctx, c.args[1], [ItemRef(v, i)]), "retain"):
                keep.append(v.items[i])
        v.items[:] = keep
        return UNIT

    @P.summary("HashMap::entry", "BTreeMap::entry")
    def _entry(ctx, c):
        m = deref(c.args[0])
        i = find(ctx, m, c.args[1])
        if i is not None:
            return Adt("Entry", "Occupied", [EntryV(m, i, c.args[1])])
        return Adt("Entry", "Vacant", [EntryV(m, None, c.args[1])])

    @P.summary("OccupiedEntry::into_mut", "OccupiedEntry::get_mut", "OccupiedEntry::get")
    def _occ_into_mut(ctx, c):
        e = deref(c.args[0])
        return slot_ref(e.m, e.idx)

    @P.summary("OccupiedEntry::insert")
    def _occ_insert(ctx, c):
        e = deref(c.args[0])
        old = e.m.items[e.idx][1]
        e.m.items[e.idx][1] = c.args[1]
        return old

    @P.summary("VacantEntry::insert")
    def _vac_insert(ctx, c):
        e = deref(c.args[0])
        insert(ctx, e.m, e.key, c.args[1])
        i = find(ctx, e.m, e.key)
        return slot_ref(e.m, i)

    @P.summary("Entry::or_insert", "Entry::or_insert_with", "Entry::or_default")
    def _or_insert(ctx, c):
        en = deref(c.args[0])
        e = deref(en.fields[0])
        if en.variant == "Occupied":
            return slot_ref(e.m, e.idx)
        if c.key.endswith("or_insert"):
            v = c.args[1]
        elif c.key.endswith("or_insert_with"):
            v = ctx.prog.call_value(ctx, c.args[1], [])
        else:
            raise Unsupported("Entry::or_default")
        insert(ctx, e.m, e.key, v)
        return slot_ref(e.m, find(ctx, e.m, e.key))

    @P.summary("BTreeMap::first_key_value", "BTreeMap::last_key_value")
    def _first_kv(ctx, c):
        m = deref(c.args[0])
        if not m.items:
            return NONE
        i = 0 if c.key.endswith("first_key_value") else len(m.items) - 1
        return Some(Adt("tuple", None, [slot_ref(m, i, 0), slot_ref(m, i, 1)]))
