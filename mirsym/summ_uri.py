"""uriparse::URIReference model (RFC 3986 reference = [scheme ':'] ['//' authority] path ['?' query] ['#' fragment]).

A value keeps its text, scheme and path.  Concrete text is parsed by the RFC's own regular expression (appendix B) plus
the character and first-segment rules; symbolic text must be a concatenation whose literal head decides the scheme
(`libcnb:` ++ id, `docker://` ++ tail, `/` ++ tail) and whose symbolic pieces the harness has constrained to URI-safe
characters (ctx.uri_safe holds their names) - anything else is Unsupported (inconclusive), never guessed."""
import re
from . import smt as z3
from .core import *
from .summ_core import Ok, Err, Some, NONE, sval, S, flatten_concat, is_str

SCHEME_RE = re.compile(r"[A-Za-z][A-Za-z0-9+.\-]*")
PCHAR = r"A-Za-z0-9\-._~!$&'()*+,;=:@%"
REF_RE = re.compile(r"^(?:([^:/?#]+):)?(?://([^/?#]*))?([^?#]*)(?:\?([^#]*))?(?:#(.*))?$", re.S)
URI_SAFE_CHARS = "A-Za-z0-9._~-"        # what harness-declared symbolic pieces consist of (plus '/')


class UriV:
    type_tag = "URIReference"

    def __init__(self, text, scheme, path):
        self.text, self.scheme, self.path = text, scheme, path

    def __repr__(self):
        return f"URI({self.text!r})"

    def display(self, ctx):
        return self.text


class UriPathV:
    type_tag = "UriPath"

    def __init__(self, path):
        self.path = path

    def display(self, ctx):
        return self.path


def parse_concrete(s):
    m = REF_RE.match(s)
    if not m:
        return None
    scheme, auth, path, query, frag = m.groups()
    if scheme is not None and not SCHEME_RE.fullmatch(scheme):
        return None
    if not re.fullmatch(f"[{PCHAR}/]*", path) or re.search(r"%(?![0-9A-Fa-f]{2})", s):
        return None
    for part in (auth, query, frag):
        if part is not None and not re.fullmatch(f"[{PCHAR}/?\\[\\]]*", part):
            return None
    if scheme is None and auth is None and ":" in path.split("/", 1)[0]:
        return None                               # a relative reference's first segment must not contain ':'
    if auth is not None and path and not path.startswith("/"):
        return None
    return UriV(s, scheme, path)


def parse(ctx, s):
    if isinstance(s, str):
        return parse_concrete(s)
    parts = flatten_concat(s)
    safe = getattr(ctx, "uri_safe", set())
    for p in parts:
        if not isinstance(p, str) and str(p) not in safe:
            raise Unsupported(f"URIReference::try_from on a symbolic string not declared URI-safe: {p}")
    head = parts[0] if isinstance(parts[0], str) else ""
    lit = "".join(p if isinstance(p, str) else "x" for p in parts)       # shape with every safe piece as a non-empty placeholder
    lit0 = "".join(p if isinstance(p, str) else "" for p in parts)       # ... and as the empty string
    u, u0 = parse_concrete(lit), parse_concrete(lit0)
    if u is None or u0 is None or u.scheme != u0.scheme:
        raise Unsupported(f"URIReference::try_from: validity of {s} depends on its symbolic pieces")
    if u.scheme is not None:
        pre = u.scheme + ":"
        if not head.startswith(pre):
            raise Unsupported(f"URIReference::try_from: scheme of {s} not in its literal head")
        rest = [head[len(pre):]] + parts[1:]
        if rest[0].startswith("//"):
            # authority runs to the next '/' - only literal authorities are modelled
            m = re.match(r"//[^/?#]*", rest[0])
            if m.end() == len(rest[0]) and len(rest) > 1:
                raise Unsupported("URIReference::try_from: symbolic authority")
            rest[0] = rest[0][m.end():]
        from .summ_core import concat as concat_parts
        return UriV(s, u.scheme, concat_parts(rest))
    return UriV(s, None, s)


def install(P):
    prev_try = P.summaries.get("TryFrom::try_from")

    @P.summary("TryFrom::try_from")
    def _try_from_any(ctx, c):
        if "URIReference" in (c.selfty or ""):
            return _try_from(ctx, c)
        if prev_try:
            return prev_try(ctx, c)
        return NotImplemented

    @P.summary("URIReference::try_from", "URIReference::<'_>::try_from", "uriparse::URIReference::try_from")
    def _try_from(ctx, c):
        u = parse(ctx, sval(c.args[0]))
        return Ok(u) if u is not None else Err(Opaque("URIReferenceError", "invalid"))

    @P.summary("URIReference::into_owned", "URIReference::clone")
    def _owned(ctx, c):
        return deref(c.args[0])

    @P.summary("URIReference::scheme")
    def _scheme(ctx, c):
        u = deref(c.args[0])
        return NONE if u.scheme is None else Some(Ref(Box(Opaque("Scheme", u.scheme))))

    @P.summary("Scheme::as_str")
    def _scheme_str(ctx, c):
        return deref(c.args[0]).data

    @P.summary("URIReference::path")
    def _path(ctx, c):
        u = deref(c.args[0])
        return Ref(Box(UriPathV(u.path)))
