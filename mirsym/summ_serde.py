"""serde data-model summaries: a model Deserializer/Serializer over abstract TOML trees (TVal), so that the *derived*
`Deserialize`/`Serialize` MIR of libcnb.rs's types (visit_map, __FieldVisitor::visit_str, try_from shims, skip_serializing_if,
hand-written impls) is what gets executed.  `toml::from_str::<T>` = run T's Deserialize on the file's tree;
`toml::to_string` = run the value's Serialize into a tree.  The toml crate's text layer is outside every claim.
"""
import re
from . import smt as z3
from .core import *
from . import types as T
from .parse import split_top
from .summ_core import VecV, Ok, Err, Some, NONE, sval, S, is_str, It, END, concat

KINDS = ["str", "int", "float", "bool", "datetime", "table", "array"]


class TVal:
    """abstract TOML value.  kind: one of KINDS, or None = symbolic among `kinds` (decided lazily by ctx.choose)"""
    def __init__(self, name="v", kind=None, kinds=None, entries=None, elems=None, scalar=None, ident=None, attrs=None):
        self.name = name
        self.kind = kind
        self.kinds = kinds or KINDS
        self.entries = entries      # table: list of [key(str | z3 String), present(bool | z3 Bool), TVal]
        self.elems = elems          # array: list of TVal
        self.scalar = scalar        # scalar value (python | z3 term)
        self.ident = ident          # identity of an opaque free-form value (z3 Int) -- tables kept as a whole
        self.attrs = attrs or {}    # harness facts, e.g. {"ok_as_M": Bool}

    def decide_kind(self, ctx):
        if self.kind is None:
            i = ctx.choose([True] * len(self.kinds), f"kind:{self.name}")
            self.kind = self.kinds[i]
        return self.kind

    def present_entries(self, ctx):
        out = []
        for k, p, v in self.entries or []:
            if p is True or (p is not False and ctx.branch(p, f"present:{self.name}.{k}")):
                out.append((k, v))
        return out

    def __repr__(self):
        if self.kind == "table" and self.entries is not None:
            return "{" + ", ".join(f"{k}{'' if p is True else '?'}: {v!r}" for k, p, v in self.entries) + "}"
        if self.kind == "array" and self.elems is not None:
            return "[" + ", ".join(map(repr, self.elems)) + "]"
        if self.ident is not None:
            return f"<{self.kind or '?'}#{self.ident}>"
        return f"<{self.kind or '?'}:{self.scalar}>"


class TomlText:
    """content model of a TOML file: syntactically valid flag + tree"""
    type_tag = "TomlText"

    def __init__(self, valid, tree):
        self.valid, self.tree = valid, tree

    def __repr__(self):
        return f"Toml({self.valid}, {self.tree!r})"


class Deser:
    type_tag = "Deserializer"

    def __init__(self, tv):
        self.tv = tv


class KeyDeser:
    def __init__(self, key):
        self.key = key


class MissingDeser:
    """serde's MissingFieldDeserializer: only Option (-> None) and unit succeed"""
    def __init__(self, field):
        self.field = field


class MapAcc:
    def __init__(self, items):
        self.items, self.i, self.cur = items, 0, None


class SeqAcc:
    def __init__(self, elems):
        self.elems, self.i = elems, 0


class SerdeErr:
    type_tag = "SerdeError"

    def __init__(self, what, arg=None):
        self.what, self.arg = what, arg

    def __repr__(self):
        return f"SerdeErr({self.what},{self.arg})"


class Ser:
    """model Serializer; result tree in .out"""
    type_tag = "Serializer"

    def __init__(self):
        self.out = None


class StructSer:
    def __init__(self, name):
        self.name, self.entries = name, []


class SeqSer:
    def __init__(self):
        self.elems = []


def norm_ty(t):
    t = re.sub(r"<'\w+>", "", t or "")
    t = re.sub(r"'\w+, ", "", t)
    t = t.replace("build::_::_serde::", "")
    return t.strip()


def install(P):
    def find_fn(suffix, first_param=None, ret=None):
        key = (suffix, first_param, ret)
        if key in P._find_cache:
            return P._find_cache[key]
        out = []
        fp = norm_ty(first_param) if first_param else None
        for k, f in P.funcs.items():
            if not f.name.endswith("::" + suffix):
                continue
            if fp is not None:
                pt = norm_ty(f.param_tys[0]) if f.param_tys else ""
                if T.strip_ref(pt) != fp and _strip_mod(T.strip_ref(pt)) != _strip_mod(fp):
                    continue
            if ret is not None:
                rh, ra = T.head_args(norm_ty(f.ret_ty))
                if rh != "Result" or not ra:
                    continue
                if "::__" in ret:          # serde-internal type (__Field, __Visitor): full path must match
                    if norm_ty(ra[0]) != ret:
                        continue
                else:
                    th, _ = T.head_args(norm_ty(ra[0]))
                    wh, _ = T.head_args(ret)
                    if th != wh:
                        continue
            out.append(k)
        if len(out) > 1 and ret is not None:
            # same type name in several modules: prefer exact module-qualified match
            ex = [k for k in out if _strip_mod(norm_ty(T.head_args(norm_ty(P.funcs[k].ret_ty))[1][0])) == _strip_mod(ret)
                  and _mod_hint(P.funcs[k].name, ret)]
            if len(ex) == 1:
                out = ex
        P._find_cache[key] = out[0] if len(out) == 1 else None
        if len(out) != 1:
            P._find_cache[key] = ("ambiguous", len(out))
        return P._find_cache[key]
    P._find_cache = {}
    P.find_fn = find_fn

    def _strip_mod(t):
        return re.sub(r"(\w+::)+(?=\w)", "", t)

    def _mod_hint(fname, ty):
        m = re.match(r"((?:\w+::)+)\w+", ty)
        if not m:
            return True
        mod = m.group(1).rstrip(":").split("::")[-1]
        return fname.startswith(mod + "::") or ("::" + mod + "::") in fname

    def need_fn(suffix, first_param=None, ret=None):
        k = find_fn(suffix, first_param, ret)
        if k is None or isinstance(k, tuple):
            raise Unsupported(f"serde: no unique MIR function {suffix} (param={first_param}, ret={ret}): {k}")
        return k

    def err(e):
        return Err(e)

    def invalid_type(tv, exp):
        return err(SerdeErr("invalid_type", (tv.kind, exp)))

    # ------------------------------------------------------------------ deserialisation by static type
    def deser_type(ctx, ty, tv, env=None):
        """deserialize a value of Rust type text `ty` (generic parameters already substituted) from abstract value tv"""
        ty = norm_ty(ty)
        am = getattr(P, "assoc_metadata", None)
        if am:      # `<L as Layer>::Metadata`: the harness binds the buildpack's associated metadata type
            ty = re.sub(r"<[\w:]+ as [\w:]*(?:Layer|Buildpack)>::Metadata", am, ty)
        if isinstance(tv, MissingDeser):
            h, a = T.head_args(ty)
            if h == "Option":
                return Ok(NONE)
            hook = P.type_hooks.get(h)
            if hook and hasattr(hook, "missing"):
                return hook.missing(ctx, tv)
            return err(SerdeErr("missing_field", tv.field))
        h, a = T.head_args(ty)
        hook = P.type_hooks.get(h) or P.type_hooks.get(ty)
        if hook:
            return hook.deserialize(ctx, ty, tv)
        if h == "bool":
            if tv.decide_kind(ctx) != "bool":
                return invalid_type(tv, "bool")
            if tv.scalar is None:
                tv.scalar = ctx.fresh(tv.name, z3.BoolSort())
            return Ok(tv.scalar)
        if h in ("String", "str", "PathBuf", "OsString"):
            if tv.decide_kind(ctx) != "str":
                return invalid_type(tv, "string")
            if tv.scalar is None:
                tv.scalar = ctx.fresh(tv.name, z3.StringSort())
            return Ok(tv.scalar)
        if h in INT_TYS:
            if tv.decide_kind(ctx) != "int":
                return invalid_type(tv, "integer")
            if tv.scalar is None:
                tv.scalar = ctx.fresh(tv.name, z3.IntSort())
                ctx.assume(z3.And(tv.scalar >= -2 ** 63, tv.scalar < 2 ** 63))   # TOML integers are i64
            lo, hi = (0, 2 ** INT_TYS[h]) if h.startswith("u") else (-2 ** (INT_TYS[h] - 1), 2 ** (INT_TYS[h] - 1))
            if ctx.branch(z3.And(tv.scalar >= lo, tv.scalar < hi) if is_sym(tv.scalar) else (lo <= tv.scalar < hi), "int-range"):
                return Ok(tv.scalar)
            return err(SerdeErr("invalid_value", "integer out of range"))
        if h == "Option":
            r = deser_type(ctx, a[0], tv)
            return Ok(Some(r.fields[0])) if r.variant == "Ok" else r
        if h in ("Vec", "VecDeque"):
            if tv.decide_kind(ctx) != "array":
                return invalid_type(tv, "sequence")
            out = []
            for e in tv.elems or []:
                r = deser_type(ctx, a[0], e)
                if r.variant == "Err":
                    return r
                out.append(r.fields[0])
            return Ok(VecV(out))
        if h in ("HashSet", "BTreeSet"):
            if tv.decide_kind(ctx) != "array":
                return invalid_type(tv, "sequence")
            from . import summ_coll
            m = summ_coll.AssocV(h == "BTreeSet", True)
            for e in tv.elems or []:
                r = deser_type(ctx, a[0], e)
                if r.variant == "Err":
                    return r
                summ_coll.insert(ctx, m, r.fields[0], UNIT)
            return Ok(m)
        if h in ("Map", "Table", "Value", "IgnoredAny", "HashMap", "BTreeMap") and (h != "HashMap" or True):
            if h in ("Map", "Table"):
                if tv.decide_kind(ctx) != "table":
                    return invalid_type(tv, "map")
            elif h == "Value" or h == "IgnoredAny":
                tv.decide_kind(ctx)
            elif h in ("HashMap", "BTreeMap"):
                raise Unsupported("deserialize into " + ty)
            return Ok(Opaque("toml", tv))
        if h == "tuple" and not a:
            return Ok(UNIT)
        # user type: derived / hand-written impl in MIR
        name = find_fn("deserialize", first_param="__D", ret=ty)
        if name is None or isinstance(name, tuple):
            name = find_fn("deserialize", first_param="D", ret=ty)
        if name is None or isinstance(name, tuple):
            name = find_fn("deserialize", ret=ty)          # hand-written impl with another name for the deserializer type
        if name is None or isinstance(name, tuple):
            raise Unsupported(f"serde: no Deserialize impl found in MIR for {ty} ({name})")
        f = P.funcs[name]
        tenv = {}
        rh, ra = T.head_args(norm_ty(f.ret_ty))
        T.unify(ra[0], ty, tenv)
        # defaulted generic parameters (e.g. LayerContentMetadata<M = GenericMetadata>)
        ph, pa = T.head_args(norm_ty(ra[0]))
        for prm in pa:
            if T.is_param(prm) and prm not in tenv:
                d = P.type_defaults.get((ph, prm))
                if d is None:
                    raise Unsupported(f"serde: generic parameter {prm} of {ph} unbound for {ty}")
                tenv[prm] = d
        return P.call(ctx, name, [Deser(tv)], tyenv=tenv)
    P.deser_type = deser_type
    P.type_hooks = {}
    P.type_defaults = {}
    # Default for free-form TOML tables: an empty table
    prev_default = P.default_of

    def default_of(ctx, t):
        h = re.sub(r"<.*", "", t.strip()).split("::")[-1]
        if h in ("Map", "Table"):
            return Opaque("toml", TVal("empty", kind="table", entries=[], ident=z3.IntVal(0)))
        return prev_default(ctx, t)
    P.default_of = default_of
    P.summaries["Default::default"] = lambda ctx, c: P.default_of(ctx, c.resolve(c.selfty or ""))

    @P.summary("Map::new", "Table::new", "toml::map::Map::new")
    def _map_new(ctx, c):
        return Opaque("toml", TVal("empty", kind="table", entries=[], ident=z3.IntVal(0)))

    @P.summary("Map::is_empty", "Table::is_empty", "toml::map::Map::is_empty")
    def _map_is_empty(ctx, c):
        v = deref(c.args[0])
        tv = v.data if isinstance(v, Opaque) and v.tag == "toml" else v
        if not isinstance(tv, TVal) or tv.entries is None:
            raise Unsupported("Map::is_empty on an opaque table")
        return len(tv.present_entries(ctx)) == 0

    def visitor_ty(c):
        return norm_ty(c.gen)

    def _visitor_fn(method, c):
        return need_fn(method, first_param=visitor_ty(c))

    @P.summary("Deserialize::deserialize")
    def _deser(ctx, c):
        d = deref(c.args[0])
        ty = c.resolve(c.selfty or "")
        if isinstance(d, KeyDeser):
            raise Unsupported("Deserialize of key for " + ty)
        tv = d.tv if isinstance(d, Deser) else d
        return deser_type(ctx, ty, tv)

    @P.summary("Deserializer::deserialize_struct", "Deserializer::deserialize_map")
    def _ds(ctx, c):
        d = deref(c.args[0])
        if isinstance(d, MissingDeser):
            return err(SerdeErr("missing_field", d.field))
        tv = d.tv
        if tv.decide_kind(ctx) != "table":
            return invalid_type(tv, "struct")
        if tv.entries is None:
            raise Unsupported(f"deserialize_struct on opaque table {tv.name}")
        name = _visitor_fn("visit_map", c)
        return P.call(ctx, name, [c.args[-1], Ref(Box(MapAcc(tv.present_entries(ctx))))])

    @P.summary("Deserializer::deserialize_any")
    def _dany(ctx, c):
        d = deref(c.args[0])
        if isinstance(d, MissingDeser):
            return err(SerdeErr("missing_field", d.field))
        tv = d.tv
        k = tv.decide_kind(ctx)
        vt = visitor_ty(c)
        if k == "table":
            return P.call(ctx, need_fn("visit_map", first_param=vt), [c.args[-1], Ref(Box(MapAcc(tv.present_entries(ctx))))])
        if k == "str":
            if tv.scalar is None:
                tv.scalar = ctx.fresh(tv.name, z3.StringSort())
            fn = find_fn("visit_str", first_param=vt)
            if fn is None or isinstance(fn, tuple):
                return invalid_type(tv, "?")
            return P.call(ctx, fn, [c.args[-1], tv.scalar])
        raise Unsupported(f"deserialize_any on {k}")

    @P.summary("Deserializer::deserialize_identifier")
    def _di(ctx, c):
        d = deref(c.args[0])
        name = _visitor_fn("visit_str", c)
        return P.call(ctx, name, [c.args[-1], d.key])

    class EnumAcc:
        def __init__(self, tv):
            self.tv = tv

    class VariantAcc:
        pass

    @P.summary("Deserializer::deserialize_enum")
    def _denum(ctx, c):
        """externally tagged enums with unit variants only: the document holds the variant's name as a string"""
        d = deref(c.args[0])
        if isinstance(d, MissingDeser):
            return err(SerdeErr("missing_field", d.field))
        tv = d.tv
        if tv.decide_kind(ctx) != "str":
            if tv.kind == "table":
                raise Unsupported("deserialize_enum from a table (data-carrying variants)")
            return invalid_type(tv, "enum")
        if tv.scalar is None:
            tv.scalar = ctx.fresh(tv.name, z3.StringSort())
        return P.call(ctx, _visitor_fn("visit_enum", c), [c.args[-1], EnumAcc(tv)])

    @P.summary("EnumAccess::variant", "EnumAccess::variant_seed")
    def _evariant(ctx, c):
        ea = deref(c.args[0])
        fty = norm_ty(c.gen)
        if "::__" not in fty:
            fty = norm_ty(c.resolve(c.gen))
        fty = split_top(fty)[0] if fty.startswith("(") else fty
        name = need_fn("deserialize", first_param="__D", ret=fty)
        r = P.call(ctx, name, [KeyDeser(ea.tv.scalar)])
        if r.variant == "Err":
            return r
        return Ok(Adt("tuple", None, [r.fields[0], VariantAcc()]))

    @P.summary("VariantAccess::unit_variant")
    def _unit_variant(ctx, c):
        return Ok(UNIT)

    @P.summary("Error::unknown_variant", "de::Error::unknown_variant")
    def _unknown_variant(ctx, c):
        return SerdeErr("unknown_variant", sval(c.args[0]))

    @P.summary("Deserializer::deserialize_option")
    def _dopt(ctx, c):
        d = deref(c.args[0])
        vt = visitor_ty(c)
        if isinstance(d, MissingDeser):
            return P.call(ctx, need_fn("visit_none", first_param=vt), [c.args[-1]])
        return P.call(ctx, need_fn("visit_some", first_param=vt), [c.args[-1], d])

    @P.summary("Deserializer::deserialize_string", "Deserializer::deserialize_str")
    def _dstr(ctx, c):
        d = deref(c.args[0])
        if isinstance(d, MissingDeser):
            return err(SerdeErr("missing_field", d.field))
        tv = d.tv
        if tv.decide_kind(ctx) != "str":
            return invalid_type(tv, "string")
        if tv.scalar is None:
            tv.scalar = ctx.fresh(tv.name, z3.StringSort())
        vt = visitor_ty(c)
        fn = find_fn("visit_string", first_param=vt)
        if fn is None or isinstance(fn, tuple):
            fn = need_fn("visit_str", first_param=vt)
        return P.call(ctx, fn, [c.args[-1], tv.scalar])

    @P.summary("Deserializer::deserialize_seq")
    def _dseq(ctx, c):
        d = deref(c.args[0])
        if isinstance(d, MissingDeser):
            return err(SerdeErr("missing_field", d.field))
        tv = d.tv
        if tv.decide_kind(ctx) != "array":
            return invalid_type(tv, "sequence")
        return P.call(ctx, _visitor_fn("visit_seq", c), [c.args[-1], Ref(Box(SeqAcc(tv.elems or [])))])

    @P.summary("Deserializer::deserialize_newtype_struct")
    def _dnt(ctx, c):
        d = deref(c.args[0])
        return P.call(ctx, _visitor_fn("visit_newtype_struct", c), [c.args[-1], d])

    @P.summary("MapAccess::next_key")
    def _nk(ctx, c):
        m = deref(c.args[0])
        if m.i >= len(m.items):
            return Ok(NONE)
        k, v = m.items[m.i]
        m.cur = v
        m.i += 1
        fty = norm_ty(c.gen)
        if "::__" not in fty:
            fty = norm_ty(c.resolve(c.gen))
        if fty in ("String", "std::string::String"):
            return Ok(Some(k))
        name = need_fn("deserialize", first_param="__D", ret=fty)
        r = P.call(ctx, name, [KeyDeser(k)])
        if r.variant == "Err":
            return r
        return Ok(Some(r.fields[0]))

    @P.summary("MapAccess::next_value")
    def _nv(ctx, c):
        m = deref(c.args[0])
        return deser_type(ctx, c.resolve(c.gen), m.cur)

    @P.summary("MapAccess::next_entry")
    def _ne(ctx, c):
        raise Unsupported("MapAccess::next_entry")

    @P.summary("SeqAccess::next_element")
    def _nel(ctx, c):
        s = deref(c.args[0])
        if s.i >= len(s.elems):
            return Ok(NONE)
        s.i += 1
        r = deser_type(ctx, c.resolve(c.gen), s.elems[s.i - 1])
        return Ok(Some(r.fields[0])) if r.variant == "Ok" else r

    @P.summary("SeqAccess::size_hint", "MapAccess::size_hint")
    def _sh(ctx, c):
        return NONE

    @P.summary("Error::unknown_field")
    def _uf(ctx, c):
        return SerdeErr("unknown_field", sval(c.args[0]))

    @P.summary("Error::duplicate_field")
    def _df(ctx, c):
        return SerdeErr("duplicate_field", deref(c.args[0]))

    @P.summary("Error::missing_field")
    def _mf(ctx, c):
        return SerdeErr("missing_field", deref(c.args[0]))

    @P.summary("Error::invalid_length")
    def _il(ctx, c):
        return SerdeErr("invalid_length", deref(c.args[0]))

    @P.summary("Error::invalid_type", "Error::invalid_value", "Error::unknown_variant")
    def _it(ctx, c):
        return SerdeErr(c.key.split("::")[-1])

    @P.summary("Error::custom", "de::Error::custom", "ser::Error::custom")
    def _custom(ctx, c):
        return SerdeErr("custom", c.args[0] if c.args else None)

    @P.summary("de::missing_field")
    def _pmf(ctx, c):
        # serde::__private::de::missing_field::<'de, V, E>(field): deserialises V from a MissingFieldDeserializer
        gen = norm_ty(c.gen or "")
        parts = [p for p in split_top(gen) if not p.startswith("'")]
        ty = c.resolve(parts[0])
        return deser_type(ctx, ty, MissingDeser(deref(c.args[0])))

    # ------------------------------------------------------------------ serialisation by runtime value (+ static type text)
    def ser_value(ctx, v, ty=None):
        """-> TVal | None (None = the toml serializer's UnsupportedNone, i.e. field omitted)"""
        v0 = v
        v = deref(v)
        if isinstance(v, bool) or (is_sym(v) and z3.is_bool(v)):
            return TVal("b", kind="bool", scalar=v)
        if is_str(v):
            return TVal("s", kind="str", scalar=v)
        if isinstance(v, int) or (is_sym(v) and z3.is_int(v)):
            return TVal("i", kind="int", scalar=v)
        if isinstance(v, Opaque) and v.tag == "toml":
            return v.data
        if isinstance(v, VecV):
            return TVal("a", kind="array", elems=[ser_value(ctx, x) for x in v.items])
        if isinstance(v, Adt):
            if v.ty == "Option":
                return None if v.variant == "None" else ser_value(ctx, v.fields[0])
            if v.ty in ("tuple", "array"):
                return TVal("a", kind="array", elems=[ser_value(ctx, x) for x in v.fields])
            hook = P.type_hooks.get(v.ty)
            if hook and hasattr(hook, "serialize"):
                return hook.serialize(ctx, v)
            name = P.impl_index.get((v.ty, "Serialize", "serialize"))
            if name is None:
                raise Unsupported(f"serde: no Serialize impl in MIR for {v.ty}")
            s = Ser()
            r1 = v0
            while isinstance(r1, Ref) and isinstance(r1.get(), Ref):
                r1 = r1.get()
            r = deref(P.call(ctx, name, [r1 if isinstance(r1, Ref) else Ref(Box(v)), s]))
            if r.variant == "Err":
                raise SerFail(r.fields[0])
            return s.out
        if hasattr(v, "serialize_model"):
            return v.serialize_model(ctx)
        if hasattr(v, "ordered") and hasattr(v, "items") and not getattr(v, "is_set", False):
            # HashMap / BTreeMap with string-like keys -> table
            ents = []
            for k, val in v.items:
                kt = ser_value(ctx, k)
                if kt is None or kt.kind != "str":
                    raise Unsupported(f"serde: map key {k!r} does not serialise to a string")
                vt = ser_value(ctx, val)
                if vt is not None:
                    ents.append([kt.scalar, True, vt])
            return TVal("m", kind="table", entries=ents)
        raise Unsupported(f"serde: serialize {v!r}")
    P.ser_value = ser_value

    class SerFail(Exception):
        def __init__(self, e):
            self.e = e
    P.SerFail = SerFail

    @P.summary("Serializer::serialize_struct")
    def _ss(ctx, c):
        ser = deref(c.args[0])
        st = StructSer(deref(c.args[1]))
        st.ser = ser
        return Ok(st)

    @P.summary("SerializeStruct::serialize_field", "SerializeMap::serialize_entry")
    def _sf(ctx, c):
        st = deref(c.args[0])
        key = sval(c.args[1])
        try:
            tv = ser_value(ctx, c.args[2], c.resolve(c.gen))
        except SerFail as e:
            return Err(e.e)
        if tv is not None:
            st.entries.append([key, True, tv])
        return Ok(UNIT)

    @P.summary("SerializeStruct::skip_field")
    def _skip(ctx, c):
        return Ok(UNIT)

    @P.summary("SerializeStruct::end", "SerializeMap::end")
    def _send(ctx, c):
        st = deref(c.args[0])
        st.ser.out = TVal(st.name if isinstance(st.name, str) else "t", kind="table", entries=st.entries)
        return Ok(UNIT)

    @P.summary("Serializer::serialize_map")
    def _smap(ctx, c):
        ser = deref(c.args[0])
        st = StructSer("map")
        st.ser = ser
        return Ok(st)

    @P.summary("Serializer::serialize_str", "Serializer::collect_str")
    def _sstr(ctx, c):
        ser = deref(c.args[0])
        v = deref(c.args[1])
        from .summ_core import display
        ser.out = TVal("s", kind="str", scalar=v if is_str(v) else display(ctx, v))
        return Ok(UNIT)

    @P.summary("Serializer::serialize_unit_variant")
    def _sunit_variant(ctx, c):
        # (self, name, variant_index, variant) -> the variant's (renamed) name as a string
        ser = deref(c.args[0])
        ser.out = TVal("s", kind="str", scalar=sval(c.args[3]))
        return Ok(UNIT)

    @P.summary("Serializer::serialize_bool")
    def _sbool(ctx, c):
        deref(c.args[0]).out = TVal("b", kind="bool", scalar=deref(c.args[1]))
        return Ok(UNIT)

    @P.summary("Serializer::serialize_u64", "Serializer::serialize_i64", "Serializer::serialize_u32", "Serializer::serialize_i32")
    def _sint(ctx, c):
        deref(c.args[0]).out = TVal("i", kind="int", scalar=deref(c.args[1]))
        return Ok(UNIT)

    @P.summary("Serializer::serialize_newtype_struct")
    def _snt(ctx, c):
        ser = deref(c.args[0])
        try:
            ser.out = ser_value(ctx, c.args[2])
        except SerFail as e:
            return Err(e.e)
        return Ok(UNIT)

    @P.summary("Serializer::serialize_none", "Serializer::serialize_unit")
    def _snone(ctx, c):
        deref(c.args[0]).out = None
        return Ok(UNIT)

    @P.summary("Serializer::serialize_some")
    def _ssome(ctx, c):
        ser = deref(c.args[0])
        try:
            ser.out = ser_value(ctx, c.args[1])
        except SerFail as e:
            return Err(e.e)
        return Ok(UNIT)

    @P.summary("Serializer::collect_seq", "Serializer::serialize_seq")
    def _sseq(ctx, c):
        ser = deref(c.args[0])
        if c.key.endswith("collect_seq"):
            from .summ_core import to_iter, it_next
            it = to_iter(ctx, c.args[1], True)
            elems = []
            while True:
                x = it_next(ctx, it)
                if x is END:
                    break
                elems.append(ser_value(ctx, x))
            ser.out = TVal("a", kind="array", elems=elems)
            return Ok(UNIT)
        raise Unsupported("serialize_seq")

    @P.summary("Serialize::serialize")
    def _ser(ctx, c):
        ser = deref(c.args[1])
        try:
            ser.out = ser_value(ctx, c.args[0], c.resolve(c.selfty or ""))
        except SerFail as e:
            return Err(e.e)
        return Ok(UNIT)

    # ------------------------------------------------------------------ toml entry points
    @P.summary("toml::from_str", "toml::de::from_str")
    def _from_str(ctx, c):
        text = deref(c.args[0])
        ty = c.resolve(c.gen or "")
        if ty in ("", "_") or T.is_param(ty):
            dt = c.dest_ty()
            if dt:
                h, a = T.head_args(dt)
                if h == "Result" and a:
                    ty = a[0]
        if isinstance(text, str):
            if text.strip() == "":
                text = TomlText(True, TVal("doc", kind="table", entries=[]))
            else:
                raise Unsupported("concrete TOML text: " + text[:40])
        if not isinstance(text, TomlText):
            raise Unsupported(f"toml::from_str on {text!r}")
        if not ctx.branch(text.valid, "toml-syntax-valid"):
            return Err(Opaque("toml::de::Error", "syntax"))
        r = deser_type(ctx, ty, text.tree)
        if r.variant == "Err":
            return Err(Opaque("toml::de::Error", r.fields[0]))
        return r

    @P.summary("toml::to_string", "toml::ser::to_string", "toml::to_string_pretty")
    def _to_string(ctx, c):
        try:
            tv = ser_value(ctx, c.args[0])
        except SerFail as e:
            return Err(Opaque("toml::ser::Error", e.e))
        if tv is None or tv.kind != "table":
            return Err(Opaque("toml::ser::Error", "unsupported top-level type"))
        return Ok(TomlText(True, tv))
