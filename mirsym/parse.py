"""Spike: parser for rustc -Zunpretty=mir text (nightly 1.97)."""
import re
from dataclasses import dataclass, field


@dataclass
class Place:
    local: int
    proj: list  # list of ('deref',) ('field', n) ('downcast', name) ('index', local) ('constindex', n)

    def __repr__(self):
        return f"P(_{self.local}{self.proj})"


@dataclass
class Operand:
    kind: str  # copy|move|const
    place: Place = None
    const: str = None


@dataclass
class Stmt:
    place: Place
    rv: tuple  # (kind, ...)
    text: str = ""


@dataclass
class Term:
    kind: str
    data: dict
    text: str = ""


@dataclass
class Block:
    stmts: list = field(default_factory=list)
    term: Term = None
    cleanup: bool = False


@dataclass
class Func:
    name: str
    header: str
    nparams: int
    ret_ty: str
    local_tys: dict
    blocks: dict
    is_const: bool = False
    error: str = None
    param_tys: list = field(default_factory=list)
    debug: dict = field(default_factory=dict)     # debug name -> place text (used to recover closure captures)


def split_top(s, sep=","):
    """split s on sep at bracket depth 0 (handles () [] {} <> and string/char literals)."""
    out, depth, cur, i = [], 0, [], 0
    n = len(s)
    while i < n:
        c = s[i]
        if c == '"':
            j = i + 1
            while j < n and s[j] != '"':
                if s[j] == "\\":
                    j += 1
                j += 1
            cur.append(s[i:j + 1]); i = j + 1; continue
        if c == "'" and i + 2 < n and (s[i + 2] == "'" or (s[i + 1] == "\\" and "'" in s[i + 2:i + 8])):
            j = s.index("'", i + 2 if s[i + 1] != "\\" else i + 3)
            cur.append(s[i:j + 1]); i = j + 1; continue
        if c in "([{<":
            if c == "<" and i > 0 and s[i - 1] == " " and i + 1 < n and s[i + 1] == " ":
                pass  # comparison, not bracket (not expected)
            else:
                depth += 1
        elif c in ")]}":
            depth -= 1
        elif c == ">" and not (i > 0 and s[i - 1] in "-="):
            depth -= 1
        if c == sep and depth == 0:
            out.append("".join(cur).strip()); cur = []
        else:
            cur.append(c)
        i += 1
    last = "".join(cur).strip()
    if last:
        out.append(last)
    return out


def match_close(s, i):
    """s[i] is an opening bracket; return index of the matching close."""
    pairs = {"(": ")", "[": "]", "{": "}", "<": ">"}
    depth = 0
    n = len(s)
    j = i
    while j < n:
        c = s[j]
        if c == '"':
            j += 1
            while s[j] != '"':
                if s[j] == "\\":
                    j += 1
                j += 1
        elif c in "([{<":
            depth += 1
        elif c in ")]}" or (c == ">" and s[j - 1] not in "-="):
            depth -= 1
            if depth == 0:
                return j
        j += 1
    raise ValueError("unbalanced: " + s[i:i + 80])


def parse_place(s):
    s = s.strip()
    m = re.fullmatch(r"_(\d+)", s)
    if m:
        return Place(int(m.group(1)), [])
    if s.startswith("(*") and s.endswith(")") and match_close(s, 0) == len(s) - 1:
        p = parse_place(s[2:-1])
        return Place(p.local, p.proj + [("deref",)])
    if s.startswith("(") and match_close(s, 0) == len(s) - 1:
        inner = s[1:-1]
        # (P as Variant)
        m = re.fullmatch(r"(.*) as (\w+)", inner)
        if m and ":" not in m.group(2):
            try:
                p = parse_place(m.group(1))
                return Place(p.local, p.proj + [("downcast", m.group(2))])
            except ValueError:
                pass
        # (P.N: T)
        # find the base place: either _N or parenthesised
        if inner.startswith("("):
            k = match_close(inner, 0)
            base, rest = inner[:k + 1], inner[k + 1:]
        else:
            m = re.match(r"_\d+", inner)
            if not m:
                raise ValueError("place? " + s)
            base, rest = m.group(0), inner[m.end():]
        # rest may contain index suffixes before .N
        p = parse_place(base)
        while rest.startswith("["):
            k = match_close(rest, 0)
            p = Place(p.local, p.proj + [_index(rest[1:k])])
            rest = rest[k + 1:]
        m = re.match(r"\.(\d+): ", rest)
        if not m:
            raise ValueError("place field? " + s)
        return Place(p.local, p.proj + [("field", int(m.group(1)))])
    # suffix index: P[...]
    if s.endswith("]"):
        # find matching [
        depth = 0
        for k in range(len(s) - 1, -1, -1):
            if s[k] == "]":
                depth += 1
            elif s[k] == "[":
                depth -= 1
                if depth == 0:
                    break
        p = parse_place(s[:k])
        return Place(p.local, p.proj + [_index(s[k + 1:-1])])
    raise ValueError("place? " + s)


def _index(t):
    m = re.fullmatch(r"_(\d+)", t)
    if m:
        return ("index", int(m.group(1)))
    m = re.fullmatch(r"(-?\d+) of (\d+)", t)
    if m:
        return ("constindex", int(m.group(1)))
    return ("slice", t)


def parse_operand(s):
    s = s.strip()
    if s.startswith("copy "):
        return Operand("copy", parse_place(s[5:]))
    if s.startswith("move "):
        return Operand("move", parse_place(s[5:]))
    if s.startswith("const "):
        return Operand("const", const=s[6:].strip())
    # bare function item / unit struct used as operand (e.g. ReadLayerError::Variant)
    return Operand("const", const=s)


BINOPS = {"Eq", "Ne", "Lt", "Le", "Gt", "Ge", "Add", "Sub", "Mul", "Div", "Rem", "BitAnd", "BitOr", "BitXor",
          "Shl", "Shr", "AddWithOverflow", "SubWithOverflow", "MulWithOverflow", "Offset", "Cmp",
          "AddUnchecked", "SubUnchecked", "MulUnchecked", "ShlUnchecked", "ShrUnchecked"}
UNOPS = {"Not", "Neg", "PtrMetadata", "Len"}


def parse_call(s):
    """s = 'CALLEE(ARGS)'; returns (callee, [operands])"""
    assert s.endswith(")"), s
    # find the '(' matching the final ')'
    depth = 0
    k = len(s) - 1
    i = k
    in_str = False
    while i >= 0:
        c = s[i]
        if c == '"' and (i == 0 or s[i - 1] != "\\"):
            in_str = not in_str
        elif not in_str:
            if c == ")":
                depth += 1
            elif c == "(":
                depth -= 1
                if depth == 0:
                    break
        i -= 1
    callee, args = s[:i], s[i + 1:k]
    return callee.strip(), [parse_operand(a) for a in split_top(args)]


def parse_rvalue(s):
    s = s.strip()
    for pre in ("copy ", "move ", "const "):
        if s.startswith(pre) and " as " not in _strip_brackets(s):
            return ("use", parse_operand(s))
    if s.startswith("no_retag "):
        return parse_rvalue(s[len("no_retag "):])
    if s[:5] in ("copy ", "move ") or s.startswith("const "):
        k = _find_top_paren(s, " as ")
        m = re.search(r" \((\w+(?:\([\w, ]*\))?)\)$", s)
        if k is not None and m:
            return ("cast", parse_operand(s[:k]), s[k + 4:m.start()], m.group(1))
    if s.startswith("&raw "):
        body = s.split(" ", 2)[2]
        return ("ref", "raw", parse_place(body))
    if s.startswith("&mut "):
        return ("ref", "mut", parse_place(s[5:]))
    if s.startswith("&fake "):
        return ("ref", "shared", parse_place(s.split(" ", 2)[2]))
    if s.startswith("&"):
        return ("ref", "shared", parse_place(s[1:]))
    m = re.match(r"discriminant\((.*)\)$", s)
    if m:
        return ("discriminant", parse_place(m.group(1)))
    m = re.match(r"(\w+)\((.*)\)$", s)
    if m and m.group(1) in BINOPS:
        a, b = split_top(m.group(2))
        return ("binop", m.group(1), parse_operand(a), parse_operand(b))
    if m and m.group(1) in UNOPS:
        return ("unop", m.group(1), parse_operand(m.group(2)))
    if s.startswith("[") and s.endswith("]"):
        inner = s[1:-1]
        parts = split_top(inner, ";")
        if len(parts) == 2:
            return ("repeat", parse_operand(parts[0]), parts[1])
        return ("array", [parse_operand(a) for a in split_top(inner)])
    if s.startswith("(") and s.endswith(")") and match_close(s, 0) == len(s) - 1:
        return ("tuple", [parse_operand(a) for a in split_top(s[1:-1])])
    if s.startswith("{closure@") or s.startswith("{coroutine@"):
        k = match_close(s, 0)
        name = s[:k + 1]
        rest = s[k + 1:].strip()
        caps = []
        if rest.startswith("{"):
            for f in split_top(rest[1:-1].strip()):
                fname, val = f.split(":", 1)
                caps.append((fname.strip(), parse_operand(val)))
        return ("closure", name, caps)
    # struct aggregate: Path { f: op, ... }   (path may contain ::<..>)
    if s.endswith("}") and " { " in s:
        k = _find_top(s, " { ")
        if k is not None:
            name = s[:k]
            fields = []
            for f in split_top(s[k + 3:-1].strip()):
                fname, val = f.split(":", 1)
                fields.append((fname.strip(), parse_operand(val)))
            return ("struct", name, fields)
    # enum/tuple-struct aggregate or unit: Path::Variant(op, ..) / Path::Variant
    if s.endswith(")"):
        callee, args = parse_call(s)
        return ("ctor", callee, args)
    return ("ctor", s, [])


def _strip_brackets(s):
    out, depth = [], 0
    for i, c in enumerate(s):
        if c in "([{<":
            depth += 1
        elif c in ")]}" or (c == ">" and s[i - 1] not in "-="):
            depth -= 1
        elif depth == 0:
            out.append(c)
    return "".join(out)


def _find_top_paren(s, needle):
    """first occurrence of needle at bracket depth 0, counting () [] {} <>"""
    depth = 0
    for i, c in enumerate(s):
        if depth == 0 and s.startswith(needle, i):
            return i
        if c in "([{<":
            depth += 1
        elif c in ")]}" or (c == ">" and s[i - 1] not in "-="):
            depth -= 1
    return None


def _find_top(s, needle):
    depth = 0
    for i, c in enumerate(s):
        if depth == 0 and s.startswith(needle, i):
            return i
        if c in "([<":
            depth += 1
        elif c in ")]" or (c == ">" and s[i - 1] not in "-="):
            depth -= 1
    return None


def parse_targets(t):
    """'[return: bb1, unwind: bb17]' / 'unwind continue' -> dict"""
    t = t.strip()
    d = {}
    if t.startswith("["):
        for part in split_top(t[1:-1]):
            k, v = part.split(":", 1) if ":" in part else (part.split()[0], part.split()[1])
            d[k.strip()] = v.strip()
    else:
        toks = t.split()
        if len(toks) == 1 and toks[0].startswith("bb"):
            d["unwind"] = toks[0]          # diverging call: `-> bbN` is the unwind target
        else:
            d[toks[0]] = " ".join(toks[1:])
    return d


def parse_stmt_or_term(line):
    s = line.strip().rstrip(";")
    if s.startswith("goto -> "):
        return Term("goto", {"target": s[8:]}, s)
    if s == "return":
        return Term("return", {}, s)
    if s == "unreachable":
        return Term("unreachable", {}, s)
    if s == "resume":
        return Term("resume", {}, s)
    if s.startswith("unwind terminate") or s == "terminate(cleanup)" or s.startswith("terminate"):
        return Term("abort", {}, s)
    if s.startswith("switchInt("):
        k = match_close(s, len("switchInt"))
        op = parse_operand(s[len("switchInt("):k])
        tg = s[k + 1:].strip()
        assert tg.startswith("-> ")
        arms = {}
        for part in split_top(tg[3:].strip()[1:-1]):
            a, b = part.split(":")
            arms[a.strip()] = b.strip()
        return Term("switch", {"op": op, "arms": arms}, s)
    if s.startswith("drop("):
        k = match_close(s, 4)
        return Term("drop", {"place": parse_place(s[5:k]), "targets": parse_targets(s[k + 1:].strip()[3:])}, s)
    if s.startswith("assert("):
        k = match_close(s, 6)
        args = split_top(s[7:k])
        cond = args[0]
        expected = True
        if cond.startswith("!"):
            expected = False
            cond = cond[1:]
        return Term("assert", {"cond": parse_operand(cond), "expected": expected, "msg": args[1] if len(args) > 1 else "",
                               "targets": parse_targets(s[k + 1:].strip()[3:])}, s)
    # assignment or call
    k = _find_top(s, " = ")
    if k is None:
        # call without destination? e.g. 'exit(const 1_i32) -> unwind continue'
        j = _call_arrow(s)
        if j is not None and s[:j].endswith(")"):
            callee, args = parse_call(s[:j])
            return Term("call", {"dest": None, "callee": callee, "args": args, "targets": parse_targets(s[j + 4:])}, s)
        if s.split("(")[0] in ("StorageLive", "StorageDead", "nop", "FakeRead", "PlaceMention", "Deinit", "Retag",
                                "AscribeUserType", "Coverage", "ConstEvalCounter", "BackwardIncompatibleDropHint"):
            return None
        raise ValueError("stmt? " + s)
    lhs, rhs = s[:k], s[k + 3:]
    j = _call_arrow(rhs)
    if j is not None and rhs[:j].endswith(")"):
        callee, args = parse_call(rhs[:j])
        return Term("call", {"dest": parse_place(lhs), "callee": callee, "args": args,
                             "targets": parse_targets(rhs[j + 4:])}, s)
    if lhs.startswith("discriminant("):
        return Stmt(parse_place(lhs[len("discriminant("):-1]), ("setdiscr", int(rhs)), s)
    return Stmt(parse_place(lhs), parse_rvalue(rhs), s)


def _call_arrow(s):
    """index of the ' -> ' that introduces a call terminator's targets ([return: ..] | unwind .. | bbN), if any"""
    j = s.rfind(" -> ")
    if j < 0:
        return None
    tail = s[j + 4:].lstrip()
    if tail.startswith("[") or tail.startswith("unwind") or re.match(r"bb\d+$", tail):
        return j
    return None


HDR = re.compile(r"^(fn|const|static) (.*)$")


def parse_mir(text):
    funcs = {}
    text = text.replace("'\"'", "'\\x22'")        # the char literal '"' would unbalance string scanning
    lines = text.split("\n")
    i = 0
    n = len(lines)
    while i < n:
        line = lines[i]
        if (line.startswith("fn ") or line.startswith("const ") or line.startswith("static ")) and line.rstrip().endswith("{"):
            header = line.rstrip()[:-1].strip()
            body = []
            i += 1
            while i < n and lines[i] != "}":
                body.append(lines[i]); i += 1
            try:
                f = parse_func(header, body)
            except Exception as e:   # defer: only an error if this function is ever executed
                f = parse_func(header, [])
                f.error = f"{type(e).__name__}: {e}"
            key = f.name if f.name not in funcs else f.header
            funcs.setdefault(key, f)
        i += 1
    return funcs


def parse_func(header, body):
    is_const = not header.startswith("fn ")
    if header.startswith("fn "):
        h = header[3:]
        # name up to the '(' that opens the param list: the last top-level '(' before ' -> ' at top level or end
        k = _param_open(h)
        name = h[:k]
        close = match_close(h, k)
        params = split_top(h[k + 1:close])
        rest = h[close + 1:].strip()
        ret = rest[3:].strip() if rest.startswith("->") else "()"
        nparams = len(params)
        param_tys = [p.split(": ", 1)[1] if ": " in p else "" for p in params]
    else:
        param_tys = []
        h = header.split(" ", 1)[1]
        k = h.rfind(": ")
        k = _find_top(h, ": ")
        name = h[:k]
        ret = h[k + 2:].rsplit(" =", 1)[0]
        nparams = 0
    blocks = {}
    local_tys = {}
    debug = {}
    cur = None
    pending = ""
    for raw in body:
        s = raw.strip()
        if not s or s.startswith("//"):
            continue
        if cur is None and s.startswith("debug "):
            md = re.match(r"debug (\S+) => (.*);$", s)
            if md:
                debug[md.group(1)] = md.group(2)
            continue
        m = re.match(r"let (mut )?_(\d+): (.*);$", s)
        if m and cur is None:
            local_tys[int(m.group(2))] = m.group(3)
            continue
        m = re.match(r"(bb\d+)( \(cleanup\))?: \{$", s)
        if m:
            cur = Block(cleanup=bool(m.group(2)))
            blocks[m.group(1)] = cur
            continue
        if cur is None:
            continue
        if s == "}":
            cur = None
            continue
        pending = (pending + " " + s).strip() if pending else s
        if not pending.endswith(";"):
            continue
        item = parse_stmt_or_term(pending)
        pending = ""
        if item is None:
            continue
        if isinstance(item, Term):
            cur.term = item
        else:
            cur.stmts.append(item)
    return Func(name, header, nparams, ret, local_tys, blocks, is_const, None, param_tys, debug)


def _param_open(h):
    """index of '(' opening the parameter list of a fn header 'NAME(params) -> ret'."""
    depth = 0
    i = 0
    n = len(h)
    while i < n:
        c = h[i]
        if c in "<[{":
            depth += 1
        elif c in "]}" or (c == ">" and h[i - 1] not in "-="):
            depth -= 1
        elif c == "(" and depth == 0:
            # impl-at spans contain no parens; fn pointer types inside <> are at depth>0
            return i
        i += 1
    raise ValueError("no params: " + h)


if __name__ == "__main__":
    import sys, collections
    fs = parse_mir(open(sys.argv[1]).read())
    print(len(fs), "functions")
    kinds = collections.Counter()
    for f in fs.values():
        for b in f.blocks.values():
            for st in b.stmts:
                kinds[st.rv[0]] += 1
            if b.term is None:
                print("NO TERM", f.name)
            else:
                kinds["T:" + b.term.kind] += 1
    print(kinds)
