"""Spike: symbolic executor over parsed MIR with z3; replay-based path exploration."""
import copy
import re
from . import smt as z3
from .parse import parse_mir, Place, Operand, Stmt, Term, match_close
from . import types as T


# ---------------------------------------------------------------- values
class Adt:
    __slots__ = ("ty", "variant", "fields", "__dict__")

    def __init__(self, ty, variant, fields):
        self.ty, self.variant, self.fields = ty, variant, list(fields)

    def __repr__(self):
        v = f"::{self.variant}" if self.variant else ""
        return f"{self.ty}{v}{self.fields}"


class Box:
    __slots__ = ("val",)

    def __init__(self, val=None):
        self.val = val


class Ref:
    __slots__ = ("box", "proj")

    def __init__(self, box, proj=()):
        self.box, self.proj = box, tuple(proj)

    def __repr__(self):
        return f"&{self.get()!r}"

    def get(self):
        v = self.box.val
        for p in self.proj:
            v = v.fields[p]
        return v

    def set(self, val):
        if not self.proj:
            self.box.val = val
            return
        v = self.box.val
        for p in self.proj[:-1]:
            v = v.fields[p]
        v.fields[self.proj[-1]] = val


class FnItem:
    def __init__(self, name):
        self.name = name

    def __repr__(self):
        return f"fn<{self.name}>"


class Closure:
    def __init__(self, name, caps, parent=None, tyenv=None):
        self.name, self.caps, self.parent, self.tyenv = name, caps, parent, tyenv

    def __repr__(self):
        return f"closure<{self.name}>"


class Opaque:
    def __init__(self, tag, data=None):
        self.tag, self.data = tag, data

    def __repr__(self):
        return f"Opaque({self.tag},{self.data})"


UNIT = Adt("()", None, [])


class PathInfeasible(Exception):
    pass


class Unsupported(Exception):
    pass


class Exit(Exception):
    def __init__(self, code):
        self.code = code


class Panic(Exception):
    def __init__(self, msg):
        self.msg = msg


class BoundExceeded(Exception):
    pass


class Abort(Exception):
    pass


def deref(v):
    while isinstance(v, Ref):
        v = v.get()
    return v


def is_sym(v):
    return isinstance(v, z3.ExprRef)


def short_ty(t):
    """last path segment of a type, or the last two when the last one is the ubiquitous `Error` (io::Error, de::Error, ...)"""
    segs = t.strip().split("::")
    if segs[-1] == "Error" and len(segs) >= 2:
        return "::".join(segs[-2:])
    return segs[-1]


def strip_generics(s):
    """remove ::<...> groups and <'_> lifetimes"""
    out = []
    i = 0
    n = len(s)
    while i < n:
        if s.startswith("::<", i):
            j = match_close(s, i + 2) + 1
            if not (s.startswith("::<impl ", i) and s.startswith("::", j)):
                i = j
                continue
        out.append(s[i])
        i += 1
    return "".join(out)


_CK_CACHE = {}


def callee_key(callee):
    """-> (key, selfty, generic_args_text)  (memoised: the same call sites are executed on every path)"""
    r = _CK_CACHE.get(callee)
    if r is None:
        r = _callee_key(callee)
        _CK_CACHE[callee] = r
    return r


def _callee_key(callee):
    c = callee.strip()
    gen = None
    m = re.search(r"::<(.*)>$", c)
    if m:
        # last generic group
        k = c.rfind("::<")
        # find the start of the final group properly
        idx = None
        i = 0
        while i < len(c):
            if c.startswith("::<", i):
                j = match_close(c, i + 2)
                if j == len(c) - 1:
                    idx = i
                i = j + 1
            else:
                i += 1
        if idx is not None:
            gen = c[idx + 3:-1]
    selfty = None
    if c.startswith("<"):
        k = match_close(c, 0)
        inner = c[1:k]
        rest = c[k + 1:]
        if " as " in inner:
            # split at top-level ' as '
            depth = 0
            pos = None
            for i, ch in enumerate(inner):
                if ch in "<([":
                    depth += 1
                elif ch in ")]" or (ch == ">" and inner[i - 1] not in "-="):
                    depth -= 1
                elif depth == 0 and inner.startswith(" as ", i):
                    pos = i
            selfty, trait = inner[:pos], inner[pos + 4:]
            trait = strip_generics(re.sub(r"<.*>$", "", strip_generics(trait))).split("::")[-1]
            key = trait + strip_generics(rest)
        else:
            selfty = inner
            key = "<impl>" + strip_generics(rest)
    else:
        key = strip_generics(c)
    key = re.sub(r"<'_>|<'\w+>", "", key)
    key = re.sub(r"<impl \[[^\]]*\]>", "<impl [T]>", key)      # inherent slice methods: element type irrelevant
    return key, selfty, gen


# ---------------------------------------------------------------- context
FEAS_TIMEOUT_MS = 10000


class Ctx:
    def __init__(self, prog, prefix, world_factory=None, max_depth=40, max_steps=200000):
        self.prog = prog
        self.prefix = list(prefix)
        self.decisions = []   # (choice, nopts)
        self.pc = []
        self._solver = z3.new_solver(FEAS_TIMEOUT_MS)
        self.unknown_feasibility = 0
        self.lemmas = []
        self.defs = []
        self.render_defs = []
        self.fresh_n = 0
        self.depth = 0
        self.max_depth = max_depth
        self.steps = 0
        self.max_steps = max_steps
        self.world = world_factory(self) if world_factory else None
        self.trace = []
        self.unwinding = []
        self.called = set()
        self.summ_used = set()
        self.tyenv = {}

    @property
    def solver(self):
        if self._solver is None:          # released after the path ended: rebuilt from the path condition on demand
            self._solver = z3.new_solver(FEAS_TIMEOUT_MS)
            for c in self.pc:
                self._solver.add(c)
        return self._solver

    def release(self):
        """drop the incremental solver (its internal state dominates memory when hundreds of thousands of finished paths are kept)"""
        self._solver = None

    def fresh(self, name, sort):
        self.fresh_n += 1
        return z3.Const(f"{name}!{self.fresh_n}", sort)

    def assume(self, c):
        if c is True:
            return
        if c is False:
            raise PathInfeasible()
        self.pc.append(c)
        self.solver.add(c)

    def feasible(self, c=None):
        """path-feasibility check; an `unknown` answer keeps the path (over-approximation: the deciding query at the end
        of the path is the one that counts) and is counted"""
        r = z3.guarded_check(self.solver, timeout_ms=FEAS_TIMEOUT_MS) if c is None else z3.guarded_check(self.solver, c, timeout_ms=FEAS_TIMEOUT_MS)
        if r == z3.sat:
            return True
        if r == z3.unsat:
            return False
        self.unknown_feasibility += 1
        return True

    def entails(self, c):
        """pc |= c ?  (only a definite `unsat` of pc & not c counts)"""
        r = z3.guarded_check(self.solver, z3.Not(c), timeout_ms=FEAS_TIMEOUT_MS)
        return r == z3.unsat

    def choose(self, conds, label=""):
        """conds: list of z3 Bool / python bool, mutually exclusive & exhaustive. returns chosen index."""
        pos = len(self.decisions)
        if pos < len(self.prefix):
            i = self.prefix[pos]
            if i >= len(conds):
                raise Unsupported(f"non-deterministic replay at decision {pos} ({label}): {i} of {len(conds)}")
            c = conds[i]
            if c is False or (pos == len(self.prefix) - 1 and c is not True and not self.feasible(c)):
                raise PathInfeasible()
        else:
            # fresh decision: determine every feasible alternative now (the solver is at exactly this state), so that
            # infeasible siblings never cost a re-execution of the whole prefix
            feas = []
            for k, c in enumerate(conds):
                if c is False:
                    continue
                if c is True or self.feasible(c):
                    feas.append(k)
            if not feas:
                raise PathInfeasible()
            i = feas[0]
            self.decisions.append((i, len(conds), label, feas[1:]))
            self.assume(conds[i])
            return i
        self.decisions.append((i, len(conds), label, None))
        self.assume(conds[i])
        return i

    def branch(self, cond, label=""):
        if isinstance(cond, bool):
            return cond
        cond = z3.simplify(cond)
        if z3.is_true(cond):
            return True
        if z3.is_false(cond):
            return False
        return self.choose([cond, z3.Not(cond)], label) == 0


def explore(prog, entry, make_args, world_factory=None, check=None, max_paths=5000, shard=None, seed_only=None, seed=None, **kw):
    """depth-first exploration by re-execution with decision prefixes.  entry: MIR function key or python callable(ctx, *args).
    shard=(i, k): all k workers first expand the decision tree breadth-first (identically) until there are ≥ 12k open
    prefixes, then worker i continues with every k-th one.  returns list of (ctx, outcome)"""
    def run_one(prefix):
        ctx = Ctx(prog, prefix, world_factory, **kw)
        try:
            args = make_args(ctx)
            try:
                out = ("return", entry(ctx, *args) if callable(entry) else prog.call(ctx, entry, args))
            except Exit as e:
                out = ("exit", e.code)
            except Panic as e:
                out = ("panic", e.msg)
            except BoundExceeded as e:
                out = ("bound", str(e))
            except Abort as e:
                out = ("abort", str(e))
        except PathInfeasible:
            return None, None, []
        alts = []
        for i in range(len(prefix), len(ctx.decisions)):
            ch, n, _, rest = ctx.decisions[i]
            for alt in (rest if rest is not None else range(ch + 1, n)):
                alts.append([d[0] for d in ctx.decisions[:i]] + [alt])
        return ctx, out, alts

    results = []
    stack = [[]]
    if seed_only is not None:
        # parent process: expand breadth-first once, hand the open prefixes and the finished decision vectors to the workers
        frontier, done = [[]], []
        budget = max(8, seed_only // 2)        # bounded number of seeding runs: the rest is the workers' job
        while frontier and len(frontier) < seed_only and budget > 0:
            budget -= 1
            prefix = frontier.pop(0)
            ctx, out, alts = run_one(prefix)
            frontier.extend(alts)
            if ctx is not None:
                done.append([d[0] for d in ctx.decisions])
        return {"open": frontier, "done": done}
    if shard is not None and seed is not None:
        i, k = shard
        for vec in seed["done"][i::k]:
            ctx, out, alts = run_one(vec)       # exact re-execution of a path finished during seeding
            if ctx is not None:
                results.append((ctx, out))
        stack = seed["open"][i::k]
    elif shard is not None:
        i, k = shard
        frontier, seeded = [[]], []
        budget = 3 * k
        while frontier and len(frontier) < 6 * k and budget > 0:
            budget -= 1
            prefix = frontier.pop(0)
            ctx, out, alts = run_one(prefix)
            frontier.extend(alts)
            if ctx is not None:
                ctx.release()
                seeded.append((ctx, out))
        results = seeded[i::k]
        stack = frontier[i::k]
    while stack:
        prefix = stack.pop()
        ctx, out, alts = run_one(prefix)
        stack.extend(alts)
        if ctx is None:
            continue
        ctx.release()
        results.append((ctx, out))
        if len(results) > max_paths:
            raise BoundExceeded("max_paths")
    return results


# ---------------------------------------------------------------- program
INT_TYS = {"u8": 8, "u16": 16, "u32": 32, "u64": 64, "u128": 128, "usize": 64,
           "i8": 8, "i16": 16, "i32": 32, "i64": 64, "i128": 128, "isize": 64}


class Program:
    def __init__(self, mir_texts, enum_variants=None, src_root=None):
        self.funcs = {}
        for t in mir_texts:
            self.funcs.update(parse_mir(t))
        self.summaries = {}
        self._rl_cache = {}
        self._rt_cache = {}
        self.simple_consts = {}     # `const NAME: T = const LITERAL;` items
        for t in mir_texts:
            for m in re.finditer(r"^const ([\w:]+): [^=\n]* = const (.*);$", t, flags=re.M):
                self.simple_consts[m.group(1).split("::")[-1]] = m.group(2)
        self.enum_variants = {"Option": [["None", "Some"]], "Result": [["Ok", "Err"]], "ControlFlow": [["Continue", "Break"]],
                              "Ordering": [["Less", "Equal", "Greater"]], "ErrorKind": [["NotFound", "Other"]],
                              "Cow": [["Borrowed", "Owned"]], "Entry": [["Occupied", "Vacant"]],
                              "Bound": [["Included", "Excluded", "Unbounded"]],
                              "Component": [["Prefix", "RootDir", "CurDir", "ParentDir", "Normal"]]}
        for k, v in (enum_variants or {}).items():
            if not v:
                continue
            if isinstance(v[0], list):
                self.enum_variants[k] = self.enum_variants.get(k, []) + v
            else:
                self.enum_variants[k] = self.enum_variants.get(k, []) + [v]
        self.by_suffix = {}
        for name, fn in self.funcs.items():
            self.by_suffix.setdefault(strip_generics(fn.name).split("::")[-1], []).append(name)
        self.closure_fns = [(k, fn) for k, fn in self.funcs.items() if re.search(r"\{closure#\d+\}$", fn.name)]
        self.src_root = src_root
        self.impl_index = {}   # (type, trait or None, method) -> mir fn name
        self.handwritten = set()
        if src_root:
            self._index_impls()
        self.from_index = {}   # (SrcTy, DstTy) -> fn key, for `?` conversions and Into/From
        for k, fn in self.funcs.items():
            m = re.search(r"<impl at [^>]*>::from\(_1: (.*)\) -> (.*)$", fn.header)
            if m:
                src = short_ty(re.sub(r"<.*", "", m.group(1).strip().lstrip("&")))
                dst = short_ty(re.sub(r"<.*", "", m.group(2).strip()))
                self.from_index[(src, dst)] = k
        self.tryfrom_index = {}   # (SrcTy, DstTy) -> fn key: several `impl TryFrom<X> for T` differ only in the trait's argument
        for k, fn in self.funcs.items():
            m = re.search(r"<impl at [^>]*>::try_from\(_1: (.*)\) -> (?:std::result::)?Result<([^,<]+)", fn.header)
            if m:
                src = short_ty(re.sub(r"<.*", "", m.group(1).strip().lstrip("&")))
                dst = short_ty(m.group(2).strip())
                self.tryfrom_index[(src, dst)] = k

    def mk_struct(self, _struct_name, **fields):
        name = _struct_name
        """Adt of a named-field struct with the field order read from the source; missing fields are opaque"""
        cands = getattr(self, "struct_fields", {}).get(name)
        if not cands:
            raise Unsupported(f"struct {name} not found in source")
        order = next((c for c in cands if all(k in c for k in fields)), None)
        if order is None:
            raise Unsupported(f"struct {name}: no definition with fields {sorted(fields)}")
        return Adt(name, None, [fields.get(k, Opaque("unset-field", k)) for k in order])

    def field_index(self, name, field):
        for c in getattr(self, "struct_fields", {}).get(name, []):
            if field in c:
                return c.index(field)
        raise Unsupported(f"struct {name} has no field {field}")

    def is_handwritten(self, key):
        return key in self.handwritten

    def _index_impls(self):
        import os
        cache = {}
        for name in self.funcs:
            m = re.search(r"<impl at ([^:]+):(\d+):(\d+): (\d+):(\d+)>::(\w+)$", name)
            if not m:
                continue
            mw = re.search(r"\(_1: &[^,]*<impl Serialize for (\w+)>::serialize::__SerializeWith", self.funcs[name].header) if self.funcs[name] is not None else None
            if mw and name.count("<impl at") >= 2:
                # `impl Serialize for __SerializeWith` generated inside the derived serialize of struct X
                self.impl_index[(f"__SerializeWith@{mw.group(1)}", "Serialize", m.group(6))] = name
                continue
            path, l1, c1, l2, c2, meth = m.group(1), int(m.group(2)), int(m.group(3)), int(m.group(4)), int(m.group(5)), m.group(6)
            fp = os.path.join(self.src_root, path)
            if fp not in cache:
                cache[fp] = open(fp).read().split("\n") if os.path.exists(fp) else None
            lines = cache[fp]
            if lines is None:
                continue
            snippet = lines[l1 - 1][c1 - 1:] if l1 != l2 else lines[l1 - 1][c1 - 1:c2 - 1]
            mm = re.match(r"impl(?:<[^>]*>)?\s+(?:(.+?)\s+for\s+)?([\w:]+)", snippet)
            if "$" in snippet.split("{")[0]:
                # impl generated by macro_rules!: `impl Trait for $name` -> Self type from the signature
                m3 = re.match(r"impl(?:<[^>]*>)?\s+(?:(.+?)\s+for\s+)?\$\w+", snippet)
                trait = m3.group(1) if m3 else None
                if trait:
                    trait = re.sub(r"<.*", "", trait).split("::")[-1]
                ty = self._self_ty_from_header(self.funcs[name])
            elif mm:
                self.handwritten.add(name)
                trait = mm.group(1)
                ty = mm.group(2).split("::")[-1]
                if trait:
                    trait = re.sub(r"<.*", "", trait).split("::")[-1]
            else:
                # derive: snippet is the derive name; type follows
                trait = snippet.strip()
                ty = None
                for k in range(l1, min(l1 + 40, len(lines))):
                    m2 = re.match(r"\s*(?:pub(?:\([^)]*\))?\s+)?(?:struct|enum)\s+(\w+)", lines[k])
                    if m2:
                        ty = m2.group(1)
                        break
                    if re.match(r"\s*(?:pub(?:\([^)]*\))?\s+)?(?:struct|enum)\s+\$\w+", lines[k]):
                        # derive inside macro_rules! (`pub struct $name(String);`): Self type from the method's signature
                        ty = self._self_ty_from_header(self.funcs[name])
                        trait = trait.split("::")[-1]
                        break
            if ty:
                self.impl_index[(ty, trait, meth)] = name

    @staticmethod
    def _self_ty_from_header(fn):
        """Self type of a macro-generated impl method, from its signature"""
        m = re.search(r"\(_1: &(?:mut )?([\w:]+)", fn.header) or re.search(r"\(_1: ([A-Z]\w+)[,)]", fn.header)
        if m and m.group(1) not in ("str", "String"):
            return m.group(1).split("::")[-1]
        m = re.search(r"-> (?:std::result::)?Result<([\w:]+)", fn.header)
        if m:
            return m.group(1).split("::")[-1]
        m = re.search(r"-> ([A-Z][\w:]+)$", fn.header)
        return m.group(1).split("::")[-1] if m else None

    def summary(self, *keys):
        def deco(f):
            for k in keys:
                self.summaries[k] = f
            return f
        return deco

    # ---- resolution
    def resolve_local(self, callee):
        if callee in self._rl_cache:
            return self._rl_cache[callee]
        try:
            r = self._resolve_local(callee)
        except Unsupported:
            raise
        self._rl_cache[callee] = r
        return r

    def _resolve_local(self, callee):
        key = strip_generics(callee)
        key = re.sub(r"<'_>", "", key)
        last = key.split("::")[-1]
        cands = self.by_suffix.get(last, [])
        best = []
        for c in cands:
            cs = re.sub(r"<'_>", "", strip_generics(c))
            if cs == key or cs.endswith("::" + key):
                best.append(c)
        segs = key.split("::")
        if len(segs) >= 2 and (segs[-2], None, segs[-1]) in self.impl_index:
            return self.impl_index[(segs[-2], None, segs[-1])]
        if len(best) == 1:
            return best[0]
        if len(best) > 1:
            exact = [c for c in best if re.sub(r"<'_>", "", strip_generics(c)) == key]
            if len(exact) == 1:
                return exact[0]
            raise Unsupported(f"ambiguous callee {callee}: {best}")
        # try progressively shorter suffixes of key (MIR trims paths differently per crate)
        parts = key.split("::")
        for k in range(1, len(parts)):
            suf = "::".join(parts[k:])
            m = [c for c in cands if re.sub(r"<'_>", "", strip_generics(c)).endswith(suf)]
            if len(m) == 1:
                return m[0]
        return None

    # ---- execution
    def call(self, ctx, fname, args, site=None, tyenv=None):
        """run a MIR function.  site = (caller Func, call Term): generic parameters of the callee are bound by unifying
        its signature with the caller's types at the call site; tyenv: explicit bindings (harness / closures)"""
        f = self.funcs[fname]
        if f.error:
            raise Unsupported(f"MIR parse error in {f.name}: {f.error}")
        ctx.called.add(f.name)
        ctx.depth += 1
        if ctx.depth > ctx.max_depth:
            raise BoundExceeded("call depth")
        saved = ctx.tyenv
        saved_fn = getattr(ctx, "cur_fn", None)
        env = dict(tyenv) if tyenv is not None else {}
        if site is not None:
            self.bind_types(f, site, saved, env)
        elif tyenv is None:
            env = dict(saved)      # python-level re-entry (summaries calling back): keep the caller's bindings
        ctx.tyenv = env
        try:
            return self._run(ctx, f, args)
        finally:
            ctx.depth -= 1
            ctx.tyenv = saved
            ctx.cur_fn = saved_fn

    def bind_types(self, callee, site, caller_env, out):
        caller, term = site
        d = term.data
        pairs = []
        if d.get("dest") is not None and not d["dest"].proj:
            pairs.append((callee.ret_ty, caller.local_tys.get(d["dest"].local, "")))
        for i, a in enumerate(d["args"]):
            if a.kind != "const" and not a.place.proj and i < len(callee.param_tys):
                pairs.append((callee.param_tys[i], caller.local_tys.get(a.place.local, "")))
        for pat, conc in pairs:
            if pat and conc:
                T.unify(pat, T.subst(conc, caller_env), out)
        # closures and nested fns inherit the bindings of the enclosing generic function
        for k, v in caller_env.items():
            out.setdefault(k, v)

    def _run(self, ctx, f, args):
        locs = {}
        ctx.cur_fn = f.name

        def box(n):
            if n not in locs:
                locs[n] = Box(None)
            return locs[n]

        for i, a in enumerate(args):
            box(i + 1).val = a

        def place_ref(p):
            b = box(p.local)
            r = Ref(b, ())
            for pr in p.proj:
                if pr[0] == "deref":
                    v = r.get()
                    if not isinstance(v, Ref):
                        raise Unsupported(f"deref of non-ref {v!r} in {f.name}")
                    r = v
                elif pr[0] == "field":
                    v = r.get()
                    if isinstance(v, Closure):
                        r = Ref(Box(Adt("caps", None, [c for c in v.caps])), (pr[1],))
                    elif not isinstance(v, Adt):
                        raise Unsupported(f"field of non-adt {v!r} in {f.name}")
                    else:
                        r = Ref(r.box, r.proj + (pr[1],))
                elif pr[0] == "downcast":
                    pass
                elif pr[0] == "constindex":
                    v = r.get()
                    r = Ref(Box(Adt("slice", None, v if isinstance(v, list) else v.items)), (pr[1],))
                elif pr[0] == "index":
                    idx = box(pr[1]).val
                    v = r.get()
                    items = v if isinstance(v, list) else v.items
                    r = Ref(Box(Adt("slice", None, items)), (idx,))
                else:
                    raise Unsupported(str(pr))
            return r

        def operand(o):
            if o.kind == "const":
                return self.const(ctx, o.const)
            v = place_ref(o.place).get()
            if o.kind == "copy" and isinstance(v, Adt):
                return _shallow_copy(v)
            return v

        bb = "bb0"
        while True:
            blk = f.blocks[bb]
            for sti, st in enumerate(blk.stmts):
                ctx.steps += 1
                ctx.cur_stmt = (blk, sti)
                ctx.dest_ty = f.local_tys.get(st.place.local) if not st.place.proj else None
                try:
                    val = self.rvalue(ctx, f, st.rv, operand, place_ref)
                    place_ref(st.place).set(val)
                except (IndexError, AttributeError, TypeError, KeyError) as e:
                    raise Unsupported(f"executor error {type(e).__name__}: {e} at `{st.text[:160]}` in {f.name}:{bb}")
            t = blk.term
            ctx.steps += 1
            if ctx.steps > ctx.max_steps:
                raise BoundExceeded("steps")
            k = t.kind
            if k == "goto":
                bb = t.data["target"]
            elif k == "return":
                return box(0).val if box(0).val is not None else UNIT
            elif k == "switch":
                v = deref(operand(t.data["op"]))
                arms = t.data["arms"]
                if is_sym(v):
                    keys = [a for a in arms if a != "otherwise"]
                    conds = []
                    for a in keys:
                        conds.append(v == self.lit_like(v, int(a)))
                    if "otherwise" in arms:
                        conds.append(z3.And([z3.Not(c) for c in conds]) if conds else True)
                        keys.append("otherwise")
                    if z3.is_bool(v):
                        conds = []
                        keys2 = []
                        for a in keys:
                            if a == "0":
                                conds.append(z3.Not(v)); keys2.append(a)
                            elif a == "otherwise" or a == "1":
                                conds.append(v); keys2.append(a)
                        keys = keys2
                    i = ctx.choose([z3.simplify(c) if not isinstance(c, bool) else c for c in conds], f"switch@{f.name[-30:]}:{bb}")
                    bb = arms[keys[i]]
                else:
                    iv = int(v) if not isinstance(v, bool) else (1 if v else 0)
                    bb = arms.get(str(iv))
                    if bb is None and iv < 0:      # switchInt prints negative discriminants in their unsigned representation
                        for bits in (8, 16, 32, 64, 128):
                            bb = arms.get(str(iv + (1 << bits)))
                            if bb is not None:
                                break
                    if bb is None:
                        bb = arms.get("otherwise")
                    if bb is None:
                        raise Unsupported(f"switch no arm {iv} {arms}")
            elif k == "drop":
                tg = t.data["targets"]
                try:
                    self.drop_value(ctx, place_ref(t.data["place"]))
                    bb = tg["return"]
                except Panic as e:
                    bb = self._unwind_target(ctx, tg, e, blk)
            elif k == "unreachable":
                raise PathInfeasible()
            elif k == "assert":
                c = deref(operand(t.data["cond"]))
                exp = t.data["expected"]
                ok = ctx.branch(c if exp else (z3.Not(c) if is_sym(c) else (not c)), "assert")
                if not ok:
                    raise Panic("assert: " + t.data["msg"])
                bb = t.data["targets"]["success"]
            elif k == "call":
                argv = [operand(a) for a in t.data["args"]]
                tg = t.data["targets"]
                try:
                    ret = self.dispatch(ctx, f, t.data["callee"], argv, t)
                except Panic as e:
                    ctx.cur_fn = f.name
                    bb = self._unwind_target(ctx, tg, e, blk)
                    continue
                ctx.cur_fn = f.name
                if t.data["dest"] is not None:
                    place_ref(t.data["dest"]).set(ret)
                if "return" not in tg:
                    raise Unsupported("diverging call returned: " + t.text)
                bb = tg["return"]
            elif k == "resume":
                raise ctx.unwinding.pop()
            else:
                raise Unsupported("term " + k)

    def _unwind_target(self, ctx, tg, e, blk):
        u = tg.get("unwind", "continue")
        if u == "continue":
            raise e
        if u.startswith("terminate") or u == "unreachable" or blk.cleanup and not u.startswith("bb"):
            raise Abort("panic while unwinding: " + e.msg)
        if not hasattr(ctx, "unwinding"):
            ctx.unwinding = []
        if blk.cleanup:
            raise Abort("panic in cleanup: " + e.msg)
        ctx.unwinding.append(e)
        return u

    def drop_value(self, ctx, ref):
        v = ref.get() if isinstance(ref, Ref) else ref
        if v is None or isinstance(v, (Ref, bool, int, str, bytes)) or is_sym(v):
            return
        if getattr(v, "_dropped", False):
            return
        if isinstance(v, Adt):
            name = self.impl_index.get((v.ty, "Drop", "drop"))
            if name:
                self.call(ctx, name, [ref if isinstance(ref, Ref) else Ref(Box(v))])
            for i, fld in enumerate(v.fields):
                self.drop_value(ctx, Ref(ref.box, ref.proj + (i,)) if isinstance(ref, Ref) else fld)
        elif hasattr(v, "on_drop"):
            v.on_drop(ctx)

    def _variants_for(self, ty, variant):
        vs = self.enum_variants.get(ty)
        if not vs:
            return None
        for cand in vs:
            if variant in cand:
                return cand
        return None

    def lit_like(self, v, n):
        if z3.is_bv(v):
            return z3.BitVecVal(n, v.size())
        if z3.is_int(v):
            return z3.IntVal(n)
        if z3.is_bool(v):
            return z3.BoolVal(bool(n))
        raise Unsupported("lit_like")

    def const(self, ctx, c):
        c = c.strip()
        if c in ("true", "false"):
            return c == "true"
        if c == "()":
            return UNIT
        m = re.fullmatch(r"(-?\d+)_(\w+)", c)
        if m:
            return int(m.group(1))
        if c.startswith('"'):
            return _unescape(c[1:-1])
        if c.startswith("b\""):
            return _unescape(c[2:-1]).encode("latin1")
        if c.startswith("'"):
            return _unescape(c[1:-1])
        if c.startswith("ZeroSized: "):
            t = c[len("ZeroSized: "):]
            if t.startswith("{closure@"):
                return Closure(t, [], getattr(ctx, "cur_fn", None), dict(ctx.tyenv))
            return FnItem(t)
        if c.endswith("::promoted[0]") or re.search(r"::promoted\[\d+\]$", c):
            name = self.resolve_promoted(c, getattr(ctx, "cur_fn", None))
            return self.call(ctx, name, [])
        if c.startswith("{alloc") or c.startswith("alloc"):
            raise Unsupported("alloc const " + c)
        # named const item defined in one of the loaded crates (e.g. libcnb_data::sbom::SBOM_FORMATS)
        last = strip_generics(c).split("::")[-1]
        if re.fullmatch(r"[A-Z][A-Z0-9_]*", last) and last in self.simple_consts:
            return self.const(ctx, self.simple_consts[last])
        if re.fullmatch(r"[A-Z][A-Z0-9_]*", last):
            hits = [k for k, fn in self.funcs.items() if fn.is_const and fn.name.split("::")[-1] == last]
            if len(hits) == 1:
                return self.call(ctx, hits[0], [], tyenv={})
            if len(hits) > 1:
                cur = getattr(ctx, "cur_fn", None) or ""
                near = [k for k in hits if self.funcs[k].name == cur + "::" + last]
                if len(near) == 1:
                    return self.call(ctx, near[0], [], tyenv={})
                if last in ("FIELDS", "VARIANTS"):
                    return Opaque("serde-names", c)      # only used in serde error messages
                raise Unsupported(f"ambiguous const {c}: {len(hits)} candidates")
        # unit-like enum variant / fn item
        return self.ctor(ctx, c, [], as_const=True)

    def resolve_promoted(self, c, cur_fn=None):
        tail = c[c.rindex("::promoted["):]
        if cur_fn:
            # a promoted constant belongs to the function being executed
            hits = [k for k, f in self.funcs.items() if f.name == cur_fn + tail]
            if len(hits) == 1:
                return hits[0]
        key = re.sub(r"<'_>", "", strip_generics(c))
        for name in self.funcs:
            if name.endswith(c.split("::")[-1]):
                n2 = re.sub(r"<'_>", "", strip_generics(name))
                # promoted names use '<impl at ...>' form while refs use '<T as Trait>' form: match by closure suffix
                if n2.split("::")[-2:] == key.split("::")[-2:]:
                    return name
        cands = [n for n in self.funcs if n.endswith(c.split("::")[-1])]
        raise Unsupported(f"promoted {c} cands={cands[:5]}")

    def ctor(self, ctx, path, args, as_const=False):
        p = strip_generics(path)
        p = re.sub(r"<'_>", "", p)
        segs = p.split("::")
        last = segs[-1]
        if last in ("__SerializeWith", "__DeserializeWith"):
            # serde's per-field wrapper for `serialize_with`: one distinct type per enclosing struct
            m = re.search(r"impl (?:Serialize|Deserialize(?:<[^>]*>)?) for (\w+)", path)
            return Adt(f"{last}@{m.group(1)}" if m else last, None, args)
        if len(segs) >= 2 and segs[-2] == "__Field":
            # serde-generated field identifier enum: __field0.. in declaration order, __ignore last
            if last.startswith("__field"):
                return Adt("__Field", last, args)
            f = next((fn for fn in self.funcs.values() if fn.name == getattr(ctx, "cur_fn", None)), None)
            ns = [int(x) for b in (f.blocks.values() if f else []) for st in b.stmts for x in re.findall(r"__Field::__field(\d+)", st.text)]
            return Adt("__Field", f"__ignore#{(max(ns) + 1) if ns else 0}", args)
        if len(segs) >= 2 and segs[-2] in self.enum_variants and self._variants_for(segs[-2], last):
            return Adt(segs[-2], last, args)
        if len(segs) == 1 and getattr(ctx, "dest_ty", None):
            # rustc prints variants of some foreign enums bare (`_1 = NotFound;`): the destination's type names the enum
            h = re.sub(r"<.*", "", strip_generics(ctx.dest_ty)).split("::")[-1].strip()
            if h in self.enum_variants and self._variants_for(h, last):
                return Adt(h, last, args)
        if as_const and not args:
            # could be fn item or unit struct
            if self.resolve_local(path) or last[:1].islower():
                return FnItem(path)
            return Adt(last, None, [])
        return Adt(last, None, args)

    def rvalue(self, ctx, f, rv, operand, place_ref):
        k = rv[0]
        if k == "use":
            return operand(rv[1])
        if k == "ref":
            return place_ref(rv[2])
        if k == "discriminant":
            v = deref(place_ref(rv[1]).get())
            if not isinstance(v, Adt):
                raise Unsupported(f"discriminant of {v!r}")
            if v.ty == "Ordering":       # explicit discriminants -1, 0, 1
                return {"Less": -1, "Equal": 0, "Greater": 1}[v.variant]
            if v.ty == "__Field":
                return int(v.variant[len("__field"):]) if v.variant.startswith("__field") else int(v.variant.split("#")[1])
            vs = self._variants_for(v.ty, v.variant)
            if vs is None:
                raise Unsupported("unknown enum " + v.ty)
            return vs.index(v.variant)
        if k == "ctor":
            args = [operand(a) for a in rv[2]]
            return self.ctor(ctx, rv[1], args)
        if k == "struct":
            return self.ctor(ctx, rv[1], [operand(o) for _, o in rv[2]])
        if k == "tuple":
            return Adt("tuple", None, [operand(a) for a in rv[1]])
        if k == "array":
            return Adt("array", None, [operand(a) for a in rv[1]])
        if k == "closure":
            caps = [operand(o) for _, o in rv[2]]
            caps = self._recover_captures(ctx, f, rv, caps, place_ref)
            return Closure(rv[1], caps, f.name, dict(ctx.tyenv))
        if k == "cast":
            return operand(rv[1])
        if k == "binop":
            a, b = deref(operand(rv[2])), deref(operand(rv[3]))
            return self.binop(rv[1], a, b, getattr(ctx, "dest_ty", None))
        if k == "unop":
            a = deref(operand(rv[2]))
            if rv[1] == "Not":
                return z3.Not(a) if is_sym(a) else (not a)
            if rv[1] in ("PtrMetadata", "Len"):
                return len(a.items) if hasattr(a, "items") else len(a)
            raise Unsupported("unop " + rv[1])
        raise Unsupported("rvalue " + k)

    def _closure_fn(self, span, parent):
        cands = [(name, fn) for name, fn in self.closure_fns if span in fn.header]
        if len(cands) > 1 and parent:
            c2 = [(n, fn) for n, fn in cands if fn.name.startswith(parent + "::{closure#")]
            cands = c2 or cands
        return cands[0][1] if len(cands) == 1 else None

    def _recover_captures(self, ctx, f, rv, caps, place_ref):
        """rustc's MIR printer zips the captured *variables* with the capture operands, so with disjoint field capture
        (`move |..| x.a .. x.b`) only the first operand per variable is printed.  The closure body's debug info
        (`debug x__a => (_1.0: T)`, `debug x__b => (_1.1: U)`) names every capture: the missing ones are re-derived from
        the printed sibling's place."""
        span = rv[1][len("{closure@"):-1]
        body = self._closure_fn(span, f.name)
        if body is None:
            return caps
        ups = []
        for name, place in body.debug.items():
            m = re.match(r"\(\*?\(?_1\.(\d+): ", place) or re.match(r"\(_1\.(\d+): ", place)
            if m:
                ups.append((int(m.group(1)), name))
        ups.sort()
        n = (ups[-1][0] + 1) if ups else 0
        if n <= len(caps) or not rv[2]:
            return caps
        byidx = dict(ups)
        out = [None] * n
        if all(op.place is not None and not op.place.proj for _, op in rv[2]):
            # every printed capture is a plain temporary: MIR building evaluates the capture operands, in capture order,
            # by the statements immediately before the closure aggregate (`_7 = &(*_1).0; _8 = &(*_1).2; _6 = {closure} {..}`)
            blk, sti = getattr(ctx, "cur_stmt", (None, 0))
            prev = blk.stmts[max(0, sti - n):sti] if blk is not None else []
            if len(prev) == n and all(not s_.place.proj for s_ in prev):
                locs_ = [s_.place.local for s_ in prev]
                ok = True
                for (fname, op) in rv[2]:
                    slots = [i for i, nm in ups if nm.split("__")[0] == fname]
                    ok = ok and bool(slots) and locs_[slots[0]] == op.place.local
                if ok:
                    from .parse import Place as _Place
                    return [place_ref(_Place(l, [])).get() for l in locs_]
        # printed captures appear in capture order of their variables; map each to the first capture slot of its variable
        printed = {}
        for (fname, op), val in zip(rv[2], caps):
            slots = [i for i, nm in ups if nm.split("__")[0] == fname]
            if not slots:
                raise Unsupported(f"closure captures of {rv[1]}: no debug entry for {fname}")
            out[slots[0]] = val
            printed[fname] = (op, slots[0])
        for i, nm in ups:
            if out[i] is not None:
                continue
            var = nm.split("__")[0]
            if var not in printed:
                raise Unsupported(f"closure captures of {rv[1]}: capture {nm} not recoverable")
            op, i0 = printed[var]
            depth0 = len(byidx[i0].split("__")) - 1
            if op.place is None:
                raise Unsupported(f"closure captures of {rv[1]}: constant sibling")
            proj = list(op.place.proj)
            fields_seen = 0
            while proj and fields_seen < depth0:
                if proj[-1][0] == "field":
                    fields_seen += 1
                proj.pop()
            from .parse import Place as _Place
            base = place_ref(_Place(op.place.local, proj)).get()
            v = base
            for fld in nm.split("__")[1:]:
                while isinstance(v, Ref):
                    v = v.get()
                if not isinstance(v, Adt):
                    raise Unsupported(f"closure captures of {rv[1]}: field {fld} of {v!r}")
                v = v.fields[self.field_index(v.ty, fld)]
            if op.kind == "copy" or rv[2][0][1].kind == "copy":
                pass
            out[i] = v
        return out

    def binop(self, op, a, b, dest_ty=None):
        sym = is_sym(a) or is_sym(b)
        if isinstance(a, str) and isinstance(b, str) and op in ("Eq", "Ne", "Lt", "Le", "Gt", "Ge"):
            a, b = ord(a), ord(b)      # char comparison
        if isinstance(a, bool) and isinstance(b, bool) and op in ("BitAnd", "BitOr", "BitXor"):
            return {"BitAnd": a and b, "BitOr": a or b, "BitXor": a != b}[op]
        if sym and op in ("BitAnd", "BitOr", "BitXor") and (z3.is_bool(a) if is_sym(a) else isinstance(a, bool)):
            x = a if is_sym(a) else z3.BoolVal(a)
            y = b if is_sym(b) else z3.BoolVal(b)
            return {"BitAnd": z3.And(x, y), "BitOr": z3.Or(x, y), "BitXor": z3.Xor(x, y)}[op]
        table = {"Eq": lambda: a == b, "Ne": lambda: a != b, "Lt": lambda: a < b, "Le": lambda: a <= b,
                 "Gt": lambda: a > b, "Ge": lambda: a >= b, "Add": lambda: a + b, "Sub": lambda: a - b,
                 "Mul": lambda: a * b, "AddUnchecked": lambda: a + b, "SubUnchecked": lambda: a - b, "MulUnchecked": lambda: a * b}
        if op in table:
            return table[op]()
        if op in ("AddWithOverflow", "SubWithOverflow", "MulWithOverflow"):
            r = {"Add": lambda: a + b, "Sub": lambda: a - b, "Mul": lambda: a * b}[op[:3]]()
            ity = (dest_ty or "").strip("() ").split(",")[0].strip()
            if ity not in INT_TYS:
                raise Unsupported(f"checked arithmetic on type {dest_ty}")
            bits = INT_TYS[ity]
            lo, hi = (0, 2 ** bits) if ity.startswith("u") else (-2 ** (bits - 1), 2 ** (bits - 1))
            ov = z3.Or(r < lo, r >= hi) if is_sym(r) else not (lo <= r < hi)
            return Adt("tuple", None, [r, ov])
        if not sym:
            if op == "Div":
                return int(a / b) if b else 0
            if op == "Rem":
                return a - b * int(a / b)
            if op in ("BitAnd", "BitOr", "BitXor", "Shl", "Shr", "ShlUnchecked", "ShrUnchecked"):
                return {"BitAnd": a & b, "BitOr": a | b, "BitXor": a ^ b, "Shl": a << b, "Shr": a >> b, "ShlUnchecked": a << b, "ShrUnchecked": a >> b}[op]
            if op == "Cmp":
                return Adt("Ordering", "Less" if a < b else ("Equal" if a == b else "Greater"), [])
        raise Unsupported("binop " + op + (" (symbolic)" if sym else ""))

    def dispatch(self, ctx, f, callee, argv, term=None):
        key, selfty, gen = callee_key(callee)
        short = "::".join(key.split("::")[-2:])
        for k in (key, short, key.split("::")[-1]):
            if k in self.summaries:
                r = self.summaries[k](ctx, Call(self, f, callee, key, selfty, gen, argv, ctx.tyenv, term))
                if r is not NotImplemented:       # a summary may decline (type-specific ones): fall through to the MIR impl
                    ctx.summ_used.add(k)
                    return r
        name = self.resolve_local(callee) if not callee.startswith("<") else self.resolve_trait_local(callee, selfty, key)
        if name is None and callee.startswith("<") and argv:
            # trait method on a generic / dyn receiver: dispatch on the runtime type of the receiver value
            recv = deref(argv[0])
            parts = key.split("::")
            if isinstance(recv, Adt) and len(parts) == 2:
                name = self.impl_index.get((recv.ty, parts[0], parts[1]))
        if name:
            return self.call(ctx, name, argv, site=(f, term) if (f is not None and term is not None) else None)
        raise Unsupported(f"no summary for {callee}  [key={key}] in {f.name}")

    def resolve_trait_local(self, callee, selfty, key):
        if callee in self._rt_cache:
            return self._rt_cache[callee]
        r = self._resolve_trait_local(callee, selfty, key)
        self._rt_cache[callee] = r
        return r

    def _resolve_trait_local(self, callee, selfty, key):
        if selfty is None:
            return None
        ty = re.sub(r"<.*", "", strip_generics(selfty).lstrip("&").replace("mut ", "")).split("::")[-1]
        parts = key.split("::")
        if key == "TryFrom::try_from":
            m = re.search(r" as (?:std::convert::|core::convert::)?TryFrom<(.+)>>::try_from", callee)
            if m:
                src = short_ty(re.sub(r"<.*", "", m.group(1).strip().lstrip("&")))
                hit = self.tryfrom_index.get((src, ty))
                if hit:
                    return hit
        if len(parts) > 2:
            base = self.impl_index.get((ty, parts[0], parts[1]))
            if base:
                want = self.funcs[base].name + "::" + "::".join(parts[2:])
                for k, fn in self.funcs.items():
                    if fn is not None and fn.name == want:
                        return k
            return None
        if len(parts) == 2:
            return self.impl_index.get((ty, parts[0], parts[1]))
        return self.impl_index.get((ty, None, parts[-1]))

    def call_value(self, ctx, fv, argv):
        """call a FnItem / Closure value with args"""
        fv = deref(fv)
        if isinstance(fv, PyFn):
            return fv.f(ctx, *argv)
        if isinstance(fv, Adt) and not fv.fields:
            return Adt(fv.ty, fv.variant, argv)   # enum/tuple-struct constructor used as a function value
        if isinstance(fv, FnItem):
            # enum constructor used as fn?
            segs = strip_generics(fv.name).split("::")
            if len(segs) >= 2 and segs[-2] in self.enum_variants and self._variants_for(segs[-2], segs[-1]):
                return Adt(segs[-2], segs[-1], argv)
            key, selfty, gen = callee_key(fv.name)
            return self.dispatch(ctx, None, fv.name, argv)
        if isinstance(fv, Closure):
            # find MIR fn by closure span
            span = fv.name[len("{closure@"):-1]
            cands = [(name, fn) for name, fn in self.closure_fns if span in fn.header]
            if len(cands) > 1 and fv.parent:
                c2 = [(n, fn) for n, fn in cands if fn.name.startswith(fv.parent + "::{closure#")]
                cands = c2 or cands
            if len(cands) != 1:
                raise Unsupported(f"closure body lookup for {fv.name} (parent {fv.parent}): {len(cands)} candidates")
            name, fn = cands[0]
            by_ref = "(_1: &" in fn.header
            return self.call(ctx, name, [Ref(Box(fv)) if by_ref else fv] + argv, tyenv=fv.tyenv if fv.tyenv is not None else dict(ctx.tyenv))
        raise Unsupported(f"call_value {fv!r}")


class PyFn:
    """harness-provided callable (models a user callback)"""
    def __init__(self, f):
        self.f = f


class Call:
    def __init__(self, prog, caller, callee, key, selfty, gen, args, tyenv=None, term=None):
        self.prog, self.caller, self.callee, self.key, self.selfty, self.gen, self.args = prog, caller, callee, key, selfty, gen, args
        self.tyenv = tyenv or {}
        self.term = term

    def resolve(self, t):
        """type text with the caller frame's generic parameters substituted"""
        return T.subst(t, self.tyenv) if t else t

    def dest_ty(self):
        """declared type of the call's destination local in the caller (generic parameters substituted)"""
        if self.term is None or self.caller is None:
            return None
        d = self.term.data.get("dest")
        if d is None or d.proj:
            return None
        return self.resolve(self.caller.local_tys.get(d.local))


def _has_ref(v):
    if isinstance(v, Ref):
        return True
    if isinstance(v, Adt):
        return any(_has_ref(x) for x in v.fields)
    return False


def _shallow_copy(v):
    if isinstance(v, Adt):
        return Adt(v.ty, v.variant, [_shallow_copy(x) for x in v.fields])
    return v


def _unescape(s):
    if "\\" not in s:
        return s
    # Rust escapes: \u{1f69a}, \n, \t, \", \\, \x41, \0 ...; non-ASCII text stays as it is
    out, i, n = [], 0, len(s)
    simple = {"n": "\n", "t": "\t", "r": "\r", "0": "\0", "\\": "\\", '"': '"', "'": "'"}
    while i < n:
        c = s[i]
        if c != "\\" or i + 1 >= n:
            out.append(c)
            i += 1
            continue
        d = s[i + 1]
        if d == "u" and i + 2 < n and s[i + 2] == "{":
            j = s.index("}", i + 3)
            out.append(chr(int(s[i + 3:j].replace("_", ""), 16)))
            i = j + 1
        elif d == "x" and i + 3 < n:
            out.append(chr(int(s[i + 2:i + 4], 16)))
            i += 4
        elif d in simple:
            out.append(simple[d])
            i += 2
        elif d == "\n":
            i += 2
            while i < n and s[i] in " \t\n":
                i += 1
        else:
            out.append(c)
            i += 1
    return "".join(out)
