"""Summaries for core/alloc/std functions (the environment that is *not* libcnb.rs).

Value conventions
  String/&str/OsString/PathBuf/&Path/Cow<str>  -> python str | z3 String term (one model; conversions are identity)
  integers -> python int | z3 Int (mathematical; MIR's own overflow asserts guard wrap-around)
  Vec<T>/&[T]/[T; N] -> VecV
  Option/Result/ControlFlow -> Adt
  iterators -> subclasses of It (pull protocol)
"""
import re
import os
from . import smt as z3
from .core import *


class VecV:
    def __init__(self, items=None):
        self.items = list(items or [])

    def __repr__(self):
        return f"Vec{self.items}"


class SliceView:
    """a sub-slice &mut v[a..b] aliasing the vector"""
    def __init__(self, base, start, end):
        self.base, self.start, self.end = base, start, end

    @property
    def items(self):
        return self.base.items[self.start:self.end]

    @items.setter
    def items(self, new):
        self.base.items[self.start:self.end] = list(new)
        self.end = self.start + len(new)

    def __repr__(self):
        return f"Slice{self.items}"


NONE = Adt("Option", "None", [])


def Some(v):
    return Adt("Option", "Some", [v])


def Ok(v=UNIT):
    return Adt("Result", "Ok", [v])


def Err(e):
    return Adt("Result", "Err", [e])


class _End:
    pass


END = _End()


class It:
    """pull iterator: next(ctx) -> value | END"""
    def next(self, ctx):
        raise NotImplementedError


class ListIt(It):
    def __init__(self, items):
        self.items, self.i = list(items), 0

    def next(self, ctx):
        if self.i < len(self.items):
            self.i += 1
            return self.items[self.i - 1]
        return END

    def next_back(self, ctx):
        if self.i < len(self.items):
            return self.items.pop()
        return END


class MapIt(It):
    def __init__(self, inner, f):
        self.inner, self.f = inner, f

    def next(self, ctx):
        v = it_next(ctx, self.inner)
        if v is END:
            return END
        return ctx.prog.call_value(ctx, self.f, [v])


class FilterIt(It):
    def __init__(self, inner, f):
        self.inner, self.f = inner, f

    def next(self, ctx):
        while True:
            v = it_next(ctx, self.inner)
            if v is END:
                return END
            keep = ctx.prog.call_value(ctx, self.f, [Ref(Box(v))])
            if ctx.branch(keep, "filter"):
                return v


class FilterMapIt(It):
    def __init__(self, inner, f):
        self.inner, self.f = inner, f

    def next(self, ctx):
        while True:
            v = it_next(ctx, self.inner)
            if v is END:
                return END
            r = deref(ctx.prog.call_value(ctx, self.f, [v]))
            if r.variant == "Some":
                return r.fields[0]


class MapWhileIt(It):
    """Iterator::map_while: yields f(x) until f returns None, then stops for good"""
    def __init__(self, inner, f):
        self.inner, self.f, self.done = inner, f, False

    def next(self, ctx):
        if self.done:
            return END
        v = it_next(ctx, self.inner)
        if v is END:
            return END
        r = deref(ctx.prog.call_value(ctx, self.f, [v]))
        if r.variant == "Some":
            return r.fields[0]
        self.done = True
        return END


class EnumerateIt(It):
    def __init__(self, inner):
        self.inner, self.n = inner, 0

    def next(self, ctx):
        v = it_next(ctx, self.inner)
        if v is END:
            return END
        self.n += 1
        return Adt("tuple", None, [self.n - 1, v])


class ChainIt(It):
    def __init__(self, a, b):
        self.a, self.b = a, b

    def next(self, ctx):
        if self.a is not None:
            v = it_next(ctx, self.a)
            if v is not END:
                return v
            self.a = None
        return it_next(ctx, self.b)


class PeekIt(It):
    def __init__(self, inner):
        self.inner, self.buf = inner, None

    def next(self, ctx):
        if self.buf is not None:
            v, self.buf = self.buf, None
            return v[0]
        return it_next(ctx, self.inner)

    def peek(self, ctx):
        if self.buf is None:
            self.buf = (it_next(ctx, self.inner),)
        return self.buf[0]


def it_next(ctx, it):
    it = deref(it)
    if isinstance(it, It):
        return it.next(ctx)
    raise Unsupported(f"Iterator::next on {it!r}")


def to_iter(ctx, v, by_ref):
    """IntoIterator for model values"""
    v0 = v
    v = deref(v)
    if isinstance(v, It):
        return v
    if isinstance(v, (VecV, SliceView)):
        if by_ref:
            return ListIt([ItemRef(v, i) for i in range(len(v.items))])
        return ListIt(list(v.items))
    if isinstance(v, Adt) and v.ty in ("array", "tuple"):
        if by_ref:
            return ListIt([Ref(Box(x)) if not isinstance(x, Ref) else x for x in v.fields])
        return ListIt(list(v.fields))
    if isinstance(v, Adt) and v.ty == "Option":
        return ListIt(list(v.fields))
    if hasattr(v, "into_iter"):
        return v.into_iter(ctx, by_ref)
    raise Unsupported(f"into_iter of {v!r}")


def ItemRef(vec, i):
    """reference to vec.items[i]"""
    if isinstance(vec, SliceView):
        vec, i = vec.base, vec.start + i
    r = Ref(Box(None), ())
    r.box = _VecCell(vec, i)
    return r


class _VecCell:
    """Box-like cell aliasing an element of a VecV"""
    def __init__(self, vec, i):
        self.vec, self.i = vec, i

    @property
    def val(self):
        return self.vec.items[self.i]

    @val.setter
    def val(self, v):
        self.vec.items[self.i] = v


def clone_val(v):
    if isinstance(v, Adt):
        return Adt(v.ty, v.variant, [clone_val(x) for x in v.fields])
    if isinstance(v, VecV):
        return VecV([clone_val(x) for x in v.items])
    if hasattr(v, "clone"):
        return v.clone()
    return v


def S(v):
    """to z3 String term"""
    v = deref(v)
    if isinstance(v, Adt) and len(v.fields) == 1 and not v.variant:
        return S(v.fields[0])
    return z3.StringVal(v) if isinstance(v, str) else v


def sval(v):
    """string model value (python str or z3 String term) behind refs/newtypes"""
    v = deref(v)
    if isinstance(v, Adt) and len(v.fields) == 1 and not v.variant and v.ty not in ("tuple", "array"):
        return sval(v.fields[0])
    return v


def is_str(v):
    return isinstance(v, str) or (is_sym(v) and z3.is_string(v))


def concat(parts):
    parts = [p for p in parts if not (isinstance(p, str) and p == "")]
    if not parts:
        return ""
    if all(isinstance(p, str) for p in parts):
        return "".join(parts)
    # merge adjacent literals
    out = []
    for p in parts:
        if isinstance(p, str) and out and isinstance(out[-1], str):
            out[-1] += p
        else:
            out.append(p)
    if len(out) == 1:
        return out[0]
    for p in out:
        if not is_str(p):
            raise Unsupported(f"string concatenation with a non-string value {p!r}")
    return z3.Concat(*[S(p) for p in out])


def flatten_concat(t):
    """children of a z3 string concatenation as python str (literals) / terms"""
    if isinstance(t, str):
        return [t]
    try:
        if z3.BACKEND == "z3" and z3.is_app(t) and t.decl().kind() == z3.Z3_OP_SEQ_CONCAT:
            out = []
            for c in t.children():
                out.extend(flatten_concat(c))
            return out
        if z3.BACKEND == "z3" and z3.is_string_value(t):
            return [t.as_string()]
    except Exception:
        pass
    return [t]


def eval_str(ctx, m, t):
    """concrete value of a string term under model m, completing `str::replace` results (ctx.replaced) natively"""
    if isinstance(t, str):
        return t
    out = ""
    for p in flatten_concat(t):
        if isinstance(p, str):
            out += p
        elif str(p) in getattr(ctx, "replaced", {}):
            s0, pat, rep = ctx.replaced[str(p)]
            out += eval_str(ctx, m, s0).replace(pat, rep)
        else:
            out += m.str(p)
    return out


def split_first(s, sep):
    """(text before, text after) the first occurrence of sep in s (which must contain it): core string operators only"""
    i = z3.IndexOf(s, z3.StringVal(sep), 0)
    return z3.SubString(s, 0, i), z3.SubString(s, i + len(sep), z3.Length(s) - i - len(sep))


def str_eq(a, b):
    a, b = sval(a), sval(b)
    if isinstance(a, str) and isinstance(b, str):
        return a == b
    return S(a) == S(b)


def b3(x):
    return z3.BoolVal(x) if isinstance(x, bool) else x


def val_eq(ctx, a, b):
    """structural equality of model values -> python bool | z3 Bool"""
    a, b = deref(a), deref(b)
    if isinstance(a, Adt) and isinstance(b, Adt):
        if a.variant != b.variant or len(a.fields) != len(b.fields):
            return False
        cs = [val_eq(ctx, x, y) for x, y in zip(a.fields, b.fields)]
        if any(c is False for c in cs):
            return False
        cs = [c for c in cs if c is not True]
        return z3.And(cs) if cs else True
    if isinstance(a, VecV) and isinstance(b, VecV):
        if len(a.items) != len(b.items):
            return False
        cs = [val_eq(ctx, x, y) for x, y in zip(a.items, b.items)]
        if any(c is False for c in cs):
            return False
        cs = [c for c in cs if c is not True]
        return z3.And(cs) if cs else True
    if hasattr(a, "ordered") and hasattr(b, "ordered") and hasattr(a, "items") and hasattr(b, "items"):
        # BTreeMap/HashMap/sets: equal as maps
        if len(a.items) != len(b.items):
            # with symbolic keys two entries could coincide; maps built by insert() are already deduplicated
            return False
        if a.ordered and b.ordered:
            cs = [z3.And(b3(val_eq(ctx, ka, kb)), b3(val_eq(ctx, va, vb))) for (ka, va), (kb, vb) in zip(a.items, b.items)]
        else:
            cs = [z3.Or([z3.And(b3(val_eq(ctx, ka, kb)), b3(val_eq(ctx, va, vb))) for kb, vb in b.items] or [z3.BoolVal(False)]) for ka, va in a.items]
        if not cs:
            return True
        r = z3.simplify(z3.And(cs))
        return True if z3.is_true(r) else (False if z3.is_false(r) else r)
    if is_str(a) or is_str(b):
        return str_eq(a, b)
    if is_sym(a) or is_sym(b):
        return a == b
    if isinstance(a, Opaque) and isinstance(b, Opaque):
        if is_sym(a.data) or is_sym(b.data):
            return a.data == b.data
        return a.tag == b.tag and a.data == b.data
    return a == b


DIGITS = z3.Plus(z3.Range("0", "9"))
U64_RE = z3.Concat(z3.Option(z3.Re("+")), DIGITS)


class FormatterV:
    def __init__(self):
        self.parts = []

    def text(self):
        return concat(self.parts)


class ArgumentsV:
    def __init__(self, parts):
        self.parts = parts   # list of str | ('arg', value, kind)


def display(ctx, v, kind="display"):
    """std::fmt::Display (or Debug) of a model value -> str | z3 String"""
    P = ctx.prog
    v = deref(v)
    if isinstance(v, ArgumentsV):
        return render(ctx, v)
    if is_str(v):
        return v if kind == "display" else concat(['"', v, '"'])
    if isinstance(v, bool):
        return "true" if v else "false"
    if isinstance(v, int):
        return str(v)
    if is_sym(v) and z3.is_int(v):
        # decimal rendering of a symbolic integer: a fresh string whose definition (t == int.to_str v) goes to the
        # deciding queries (ctx.defs) while the feasibility solver only sees the regular fact that t is a canonical
        # numeral (a theorem for v >= 0) -- keeps path exploration inside the regex fragment
        cache = ctx.__dict__.setdefault("_int_text", {})
        k = str(v)
        if k not in cache:
            t = ctx.fresh("dec", z3.StringSort())
            canon = z3.Union(z3.Re("0"), z3.Concat(z3.Range("1", "9"), z3.Star(z3.Range("0", "9"))))
            ctx.assume(z3.Implies(v >= 0, z3.InRe(t, canon)))
            ctx.defs.append(t == z3.IntToStr(v))
            ctx.render_defs.append(t == z3.IntToStr(v))
            cache[k] = t
            ctx.__dict__.setdefault("_rendered", []).append((t, v))
        return cache[k]
    if is_sym(v) and z3.is_bool(v):
        return z3.If(v, z3.StringVal("true"), z3.StringVal("false"))
    if isinstance(v, Adt):
        name = P.impl_index.get((v.ty, "Display" if kind == "display" else "Debug", "fmt"))
        if name and kind == "display":
            f = FormatterV()
            r = P.call(ctx, name, [Ref(Box(v)), Ref(Box(f))])
            return f.text()
        if kind != "display":
            return f"<debug {v.ty}>"
    if hasattr(v, "display"):
        return v.display(ctx)
    if kind != "display":
        return "<debug>"
    raise Unsupported(f"Display of {v!r}")


def render(ctx, a):
    out = []
    for p in a.parts:
        if isinstance(p, str):
            out.append(p)
        else:
            out.append(display(ctx, p[1], p[2]))
    return concat(out)


def install(P, max_split=4):
    ident = lambda ctx, c: c.args[0]

    def deref_one(v):
        # smart-pointer style deref on model values: String->str, PathBuf->Path, Vec->slice are identity on our models;
        # single-field newtypes around strings (LayerName, BuildpackId, ...) deref to their field
        if isinstance(v, Ref):
            inner = v.get()
            if isinstance(inner, Adt) and not inner.variant and len(inner.fields) == 1 and inner.ty not in ("tuple", "array") \
                    and (is_str(inner.fields[0])):
                return Ref(v.box, v.proj + (0,))
            return v
        return v

    P.summary("Deref::deref", "String::as_str", "AsRef::as_ref", "Borrow::borrow", "must_use", "String::as_mut_str",
              "DerefMut::deref_mut", "PathBuf::as_path", "Path::as_os_str", "OsString::as_os_str", "Path::new",
              "Vec::as_slice", "String::as_bytes", "<impl str>::as_bytes", "OsStr::new", "Vec::as_mut_slice",
              "AsMut::as_mut", "BorrowMut::borrow_mut")(
        lambda ctx, c: deref_one(c.args[0]))

    @P.summary("Into::into", "From::from", "ToOwned::to_owned", "ToString::to_string", "Path::to_path_buf",
               "OsStr::to_os_string", "<impl str>::to_string", "<impl str>::to_owned", "String::from", "PathBuf::from",
               "OsString::from", "Path::to_owned", "PathBuf::into_os_string", "OsStr::to_owned", "Cow::into_owned",
               "<impl str>::into_string", "String::into_boxed_str", "OsString::into_string_lossy", "Cow::to_string",
               "String::into_bytes", "OsString::into_vec", "OsStringExt::into_vec", "OsStrExt::as_bytes",
               "OsStringExt::from_vec", "OsStrExt::from_bytes", "<impl [T]>::to_vec", "PathBuf::into_boxed_path")
    def _conv(ctx, c):
        v = deref(c.args[0])
        # user From impl?  <Dst as From<Src>>::from
        if c.key in ("From::from", "Into::into") and c.selfty:
            hit = P.find_from_impl(ctx, v, c)
            if hit is not None:
                return P.call(ctx, hit, [c.args[0]])
            if isinstance(v, Adt):
                # impl<T: ?Sized + AsRef<OsStr>> From<&T> for PathBuf / OsString
                m = re.search(r" as (?:std::convert::|core::convert::)?Into<(.+)>>::into", c.callee or "")
                dst = short_ty(strip_generics(c.resolve(m.group(1)))) if m else short_ty(strip_generics(c.resolve(c.selfty)))
                if dst in ("PathBuf", "OsString"):
                    name = P.impl_index.get((v.ty, "AsRef", "as_ref"))
                    if name:
                        return clone_val(deref(P.call(ctx, name, [c.args[0] if isinstance(c.args[0], Ref) else Ref(Box(v))])))
        if isinstance(v, Adt) and not v.variant and len(v.fields) == 1 and is_str(v.fields[0]) and c.key not in ("From::from", "Into::into"):
            if c.key in ("ToString::to_string",):
                return display(ctx, v)
        if c.key == "ToString::to_string" and not is_str(v):
            return display(ctx, v)
        return clone_val(v)

    def find_from_impl(ctx, v, c):
        dst = short_ty(re.sub(r"<.*", "", strip_generics(c.selfty or "")))
        if c.key == "Into::into":
            dst = None
            m = re.search(r" as (?:std::convert::|core::convert::)?Into<(.+)>>::into", c.callee or "")
            if m:
                dst = short_ty(re.sub(r"<.*", "", strip_generics(c.resolve(m.group(1)))))
        src = type_tag(v)
        if src is None and is_str(v) and c.selfty:
            # String / PathBuf / &str share one model value: the static type decides which From impl applies
            src = short_ty(re.sub(r"<.*", "", strip_generics(c.resolve(c.selfty).lstrip("&").replace("mut ", "").strip())))
            if os.environ.get("VERIF_TRACE_FROM"):
                print("FROM?", c.callee, c.selfty, c.resolve(c.selfty), src, dst, c.tyenv)
            if dst is not None and (src, dst) not in P.from_index:
                # blanket impl over the source type: `impl<S: Into<String>> From<S> for Dst`
                gen = [name for (s_, d_), name in P.from_index.items() if d_ == dst and re.fullmatch(r"[A-Z]\w?", s_)]
                if len(gen) == 1:
                    return gen[0]
            if dst is None or (src, dst) not in P.from_index:
                return None
        if src is None:
            return None
        for (s, d), name in P.from_index.items():
            if s == src and (dst is None or d == dst):
                return name
        return None
    P.find_from_impl = find_from_impl

    def type_tag(v):
        v = deref(v)
        if isinstance(v, Adt):
            return v.ty
        if isinstance(v, Opaque):
            return short_ty(v.tag)
        if hasattr(v, "type_tag"):
            return v.type_tag
        return None
    P.type_tag = type_tag

    @P.summary("Clone::clone")
    def _clone(ctx, c):
        v = deref(c.args[0])
        if isinstance(v, Adt):
            name = P.impl_index.get((v.ty, "Clone", "clone"))
            # derived Clone impls are structural; execute them only when hand-written (none in the repo) -> structural copy
        return clone_val(v)

    @P.summary("drop", "mem::drop")
    def _drop(ctx, c):
        P.drop_value(ctx, Ref(Box(c.args[0])))
        return UNIT

    @P.summary("mem::take", "take")
    def _take(ctx, c):
        r = c.args[0]
        old = r.get()
        if isinstance(old, VecV):
            r.set(VecV([]))
        elif is_str(old):
            r.set("")
        elif isinstance(old, Adt) and old.ty == "Option":
            r.set(NONE)
        else:
            raise Unsupported(f"mem::take of {old!r}")
        return old

    @P.summary("mem::replace", "replace")
    def _replace(ctx, c):
        r = c.args[0]
        old = r.get()
        r.set(c.args[1])
        return old

    @P.summary("Option::take")
    def _otake(ctx, c):
        r = c.args[0]
        old = deref(r)
        r2 = r
        while isinstance(r2.get(), Ref):
            r2 = r2.get()
        r2.set(NONE)
        return old

    # ------------------------------------------------------------------ fmt
    @P.summary("Argument::new_display", "AsDisplay::as_display")
    def _arg_d(ctx, c):
        if c.key.startswith("AsDisplay"):
            return c.args[0]
        return ("arg", c.args[0], "display")

    @P.summary("Argument::new_debug")
    def _arg_dbg(ctx, c):
        return ("arg", c.args[0], "debug")

    @P.summary("Arguments::new")
    def _args_new(ctx, c):
        tmpl = deref(c.args[0])
        args = deref(c.args[1])
        items = args.fields if isinstance(args, Adt) else args.items
        out, i, ai = [], 0, 0
        while i < len(tmpl):
            b = tmpl[i]
            if b == 0:
                break
            if b >= 0x80:      # placeholder for the next argument
                if b != 0xc0:
                    raise Unsupported(f"format template byte {b:#x}")
                out.append(items[ai])
                ai += 1
                i += 1
            else:
                out.append(tmpl[i + 1:i + 1 + b].decode("utf-8"))
                i += 1 + b
        return ArgumentsV(out)

    @P.summary("Arguments::from_str", "Arguments::new_const")
    def _args_from_str(ctx, c):
        v = deref(c.args[0])
        if isinstance(v, Adt):
            v = "".join(v.fields)
        return ArgumentsV([v])

    @P.summary("format", "fmt::format", "format::format_inner")
    def _format(ctx, c):
        return render(ctx, deref(c.args[0]))

    @P.summary("Formatter::write_str", "fmt::Write::write_str")
    def _f_write_str(ctx, c):
        f = deref(c.args[0])
        f.parts.append(sval(c.args[1]))
        return Ok()

    @P.summary("Formatter::write_fmt", "fmt::Write::write_fmt")
    def _f_write_fmt(ctx, c):
        f = deref(c.args[0])
        f.parts.append(render(ctx, deref(c.args[1])))
        return Ok()

    @P.summary("Display::fmt")
    def _display_fmt(ctx, c):
        f = deref(c.args[1])
        f.parts.append(display(ctx, c.args[0]))
        return Ok()

    @P.summary("_print", "_eprint", "io::_print", "io::_eprint")
    def _print(ctx, c):
        w = getattr(ctx, "world", None)
        if w is not None and hasattr(w, "printed"):
            try:
                text = render(ctx, deref(c.args[0]))
            except Unsupported:
                if "eprint" not in c.key:
                    raise
                text = "<diagnostic text not modelled>"      # stderr diagnostics carry no obligation in any property
            w.printed.append((c.key, text))
        return UNIT

    # ------------------------------------------------------------------ panics
    @P.summary("panic_fmt", "panicking::panic_fmt", "panic", "panicking::panic", "panic_display", "unreachable_display",
               "panic_explicit", "begin_panic", "panic_any", "expect_failed", "unwrap_failed", "panic_str_2015")
    def _panic(ctx, c):
        msg = ""
        try:
            a = deref(c.args[0]) if c.args else ""
            msg = render(ctx, a) if isinstance(a, ArgumentsV) else str(a)
        except Exception:
            msg = "<panic>"
        raise Panic(str(msg))

    # ------------------------------------------------------------------ strings
    @P.summary("<impl str>::split")
    def _split(ctx, c):
        s, sep = sval(c.args[0]), deref(c.args[1])
        if isinstance(s, str):
            return ListIt(s.split(sep))
        if not (isinstance(sep, str) and len(sep) == 1):
            raise Unsupported("split on a non-char pattern with a symbolic string")
        nosep = z3.Star(z3.Diff(z3.AllChar(), z3.Re(sep)))
        # structured case: s is a concatenation of literals and of terms the path condition knows to be separator-free
        # (e.g. rendered integers): split exactly, without fresh variables
        parts = flatten_concat(s)
        if len(parts) > 1:
            pieces, cur, ok = [], [], True
            for p in parts:
                if isinstance(p, str):
                    segs = p.split(sep)
                    cur.append(segs[0])
                    for sg in segs[1:]:
                        pieces.append(concat(cur))
                        cur = [sg]
                elif ctx.entails(z3.InRe(p, nosep)):
                    cur.append(p)
                else:
                    ok = False
                    break
            if ok:
                pieces.append(concat(cur))
                return ListIt(pieces)
        conds = []
        for k in range(0, max_split + 1):       # exactly k separators
            r = nosep
            for _ in range(k):
                r = z3.Concat(r, z3.Re(sep), nosep)
            conds.append(z3.InRe(s, r))
        r = nosep
        for _ in range(max_split + 1):
            r = z3.Concat(r, z3.Re(sep), nosep)
        conds.append(z3.InRe(s, z3.Concat(r, z3.Star(z3.AllChar()))))      # more separators than the bound
        i = ctx.choose(conds, "split-count")
        if i == max_split + 1:
            raise BoundExceeded("split pieces > %d" % (max_split + 1))
        ps = [ctx.fresh("piece", z3.StringSort()) for _ in range(i + 1)]
        expr = ps[0]
        for p in ps[1:]:
            expr = z3.Concat(expr, z3.StringVal(sep), p)
        ctx.assume(z3.And(s == expr, *[z3.InRe(p, nosep) for p in ps]))
        return ListIt(ps)

    @P.summary("<impl str>::split_once")
    def _split_once(ctx, c):
        s, sep = sval(c.args[0]), deref(c.args[1])
        if isinstance(s, str):
            if sep in s:
                a, b = s.split(sep, 1)
                return Some(Adt("tuple", None, [a, b]))
            return NONE
        parts = flatten_concat(s)
        if len(parts) > 1 and len(sep) == 1:
            nosep = z3.Star(z3.Diff(z3.AllChar(), z3.Re(sep)))
            head = []
            for k, p in enumerate(parts):
                if isinstance(p, str):
                    if sep in p:
                        x, y = p.split(sep, 1)
                        return Some(Adt("tuple", None, [concat(head + [x]), concat([y] + parts[k + 1:])]))
                    head.append(p)
                elif ctx.entails(z3.InRe(p, nosep)):
                    head.append(p)
                else:
                    break
        if ctx.branch(z3.Contains(s, z3.StringVal(sep)), "split_once"):
            a, b = split_first(s, sep)
            return Some(Adt("tuple", None, [a, b]))
        return NONE

    @P.summary("<impl str>::starts_with")
    def _sw(ctx, c):
        s, p = sval(c.args[0]), sval(c.args[1])
        if isinstance(s, str) and isinstance(p, str):
            return s.startswith(p)
        return z3.PrefixOf(S(p), S(s))

    @P.summary("<impl str>::ends_with")
    def _ew(ctx, c):
        s, p = sval(c.args[0]), sval(c.args[1])
        if isinstance(s, str) and isinstance(p, str):
            return s.endswith(p)
        return z3.SuffixOf(S(p), S(s))

    @P.summary("<impl str>::replace")
    def _replace(ctx, c):
        """replace all occurrences.  Symbolic: a fresh string e, registered in ctx.replaced[e] = (s, pat, rep) so that
        consumers can treat it structurally and models can be completed concretely (eval_str); only sound partial facts
        are asserted about e."""
        s, p, r = sval(c.args[0]), sval(c.args[1]), sval(c.args[2])
        if isinstance(s, str) and isinstance(p, str) and isinstance(r, str):
            return s.replace(p, r)
        if not (isinstance(p, str) and isinstance(r, str) and p):
            raise Unsupported("str::replace with a symbolic pattern")
        e = ctx.fresh("replaced", z3.StringSort())
        if not hasattr(ctx, "replaced"):
            ctx.replaced = {}
        ctx.replaced[str(e)] = (s, p, r)
        has = z3.Contains(S(s), z3.StringVal(p))
        facts = [z3.Implies(z3.Not(has), e == S(s)), z3.Implies(has, z3.Contains(e, z3.StringVal(r)) if r else z3.Length(e) < z3.Length(S(s)))]
        if len(r) >= len(p):
            facts.append(z3.Length(e) >= z3.Length(S(s)))
        if p not in r:
            facts.append(z3.Not(z3.Contains(e, z3.StringVal(p))))
        ctx.assume(z3.And(facts))
        return e

    def char_class(pat):
        """regex of the single characters accepted by a `fn(char) -> bool` pattern"""
        name = strip_generics(pat.name).split("::")[-1] if isinstance(pat, FnItem) else None
        if name == "is_whitespace":
            return ws_re()
        if name == "is_ascii_whitespace":
            return z3.Union(*[z3.Re(ch) for ch in " \t\n\r\x0c"])
        if name == "is_ascii_digit":
            return z3.Range("0", "9")
        if name == "is_ascii_uppercase":
            return z3.Range("A", "Z")
        if name == "is_ascii_lowercase":
            return z3.Range("a", "z")
        if name == "is_ascii_alphabetic":
            return z3.Union(z3.Range("a", "z"), z3.Range("A", "Z"))
        if name == "is_ascii_alphanumeric":
            return z3.Union(z3.Range("a", "z"), z3.Range("A", "Z"), z3.Range("0", "9"))
        if name == "is_ascii_control":
            return z3.Union(z3.Range("\x00", "\x1f"), z3.Re("\x7f"))
        raise Unsupported(f"char predicate pattern {pat!r}")

    @P.summary("<impl str>::contains")
    def _contains(ctx, c):
        pat = deref(c.args[1])
        if isinstance(pat, (FnItem, Closure)):
            s = sval(c.args[0])
            cls = char_class(pat)
            return z3.InRe(S(s), z3.Concat(z3.Star(z3.AllChar()), cls, z3.Star(z3.AllChar())))
        s, p = sval(c.args[0]), sval(c.args[1])
        if isinstance(s, str) and isinstance(p, str):
            return p in s
        return z3.Contains(S(s), S(p))

    WS = [" ", "\t", "\n", "\r", "\x0b", "\x0c", "\u0085", "\u00a0", "\u1680", "\u2028", "\u2029", "\u202f", "\u205f", "\u3000"] + \
         [chr(c) for c in range(0x2000, 0x200b)]

    def ws_re():
        return z3.Union(*[z3.Re(c) for c in WS])

    @P.summary("<impl str>::trim", "<impl str>::trim_start", "<impl str>::trim_end")
    def _trim(ctx, c):
        s = sval(c.args[0])
        which = c.key.split("::")[-1]
        if isinstance(s, str):
            return {"trim": s.strip, "trim_start": s.lstrip, "trim_end": s.rstrip}[which]("".join(WS))
        # t is s without leading/trailing Unicode White_Space: s = a ++ t ++ b, a,b in WS*, t does not start/end with WS
        a, t, b = ctx.fresh("ws", z3.StringSort()), ctx.fresh("trimmed", z3.StringSort()), ctx.fresh("ws", z3.StringSort())
        wsr = ws_re()
        nonws = z3.Diff(z3.AllChar(), wsr)
        core = z3.Union(z3.Re(""), nonws, z3.Concat(nonws, z3.Star(z3.AllChar()), nonws))
        cons = [s == z3.Concat(a, t, b), z3.InRe(a, z3.Star(wsr)), z3.InRe(b, z3.Star(wsr))]
        if which == "trim":
            cons.append(z3.InRe(t, core))
        elif which == "trim_start":
            cons += [b == z3.StringVal(""), z3.InRe(t, z3.Union(z3.Re(""), z3.Concat(nonws, z3.Star(z3.AllChar()))))]
        else:
            cons += [a == z3.StringVal(""), z3.InRe(t, z3.Union(z3.Re(""), z3.Concat(z3.Star(z3.AllChar()), nonws)))]
        ctx.assume(z3.And(*cons))
        return t

    @P.summary("<impl str>::is_empty", "String::is_empty", "OsStr::is_empty", "OsString::is_empty")
    def _sempty(ctx, c):
        s = sval(c.args[0])
        if isinstance(s, str):
            return s == ""
        return z3.Length(s) == 0

    @P.summary("<impl str>::len", "String::len", "OsStr::len")
    def _slen(ctx, c):
        s = sval(c.args[0])
        if isinstance(s, str):
            return len(s.encode("utf-8", "surrogateescape"))
        return z3.Length(s)

    @P.summary("String::new", "OsString::new", "PathBuf::new")
    def _snew(ctx, c):
        return ""

    @P.summary("String::push_str", "OsString::push")
    def _push_str(ctx, c):
        r = c.args[0]
        while isinstance(r.get(), Ref):
            r = r.get()
        r.set(concat([sval(r.get()), sval(c.args[1])]))
        return UNIT

    @P.summary("Not::not")
    def _not(ctx, c):
        v = deref(c.args[0])
        if isinstance(v, bool):
            return not v
        if is_sym(v) and z3.is_bool(v):
            return z3.Not(v)
        raise Unsupported(f"Not::not on {v!r}")

    @P.summary("PartialEq::ne")
    def _ne(ctx, c):
        r = generic_eq(ctx, c)
        return (not r) if isinstance(r, bool) else z3.Not(r)

    @P.summary("PartialEq::eq")
    def _eq(ctx, c):
        return generic_eq(ctx, c)

    def generic_eq(ctx, c):
        a, b = deref(c.args[0]), deref(c.args[1])
        if isinstance(a, Adt) and a.ty not in ("tuple", "array", "Option", "Result"):
            name = P.impl_index.get((a.ty, "PartialEq", "eq"))
            if name and P.is_handwritten(name):
                return P.call(ctx, name, [c.args[0], c.args[1]])
        return val_eq(ctx, a, b)

    @P.summary("<impl str>::parse")
    def _parse(ctx, c):
        s = sval(c.args[0])
        ty = c.gen
        if ty in ("u64", "u32", "u16", "usize", "u8"):
            bits = {"u64": 64, "u32": 32, "u16": 16, "usize": 64, "u8": 8}[ty]
            if isinstance(s, str):
                if re.fullmatch(r"\+?[0-9]+", s) and int(s) < 2 ** bits:
                    return Ok(int(s))
                return Err(Opaque("ParseIntError"))
            zs = S(s)
            # parse(render(v)) = v: if the path condition entails that this text *is* the decimal rendering of an integer
            # term produced earlier by `display`, the result is that integer (std theorem: str::parse inverts Display for
            # unsigned integers in range) -- avoids str.to_int reasoning on 20-digit numerals
            for t, v in ctx.__dict__.get("_rendered", []):
                if zs.eq(t) or ctx.entails(zs == t):
                    if ctx.branch(z3.And(v >= 0, v < 2 ** bits), "parse-rendered-in-range"):
                        return Ok(v)
                    return Err(Opaque("ParseIntError"))
            digits = z3.If(z3.PrefixOf(z3.StringVal("+"), zs), z3.SubString(zs, 1, z3.Length(zs) - 1), zs)
            val = z3.StrToInt(digits)
            syntax = z3.InRe(zs, U64_RE)
            safe_len = len(str(2 ** bits)) - 1          # every numeral this short is below 2^bits
            i = ctx.choose([z3.And(syntax, z3.Length(zs) <= safe_len),
                            z3.And(syntax, z3.Length(zs) > safe_len, val < 2 ** bits),
                            z3.And(syntax, z3.Length(zs) > safe_len, val >= 2 ** bits),
                            z3.Not(syntax)], "parse-int")
            if i in (0, 1):
                v = ctx.fresh(ty, z3.IntSort())
                # the value's definition is kept out of the feasibility solver (v is fresh there: an over-approximation)
                # and is part of every deciding query through ctx.defs
                ctx.defs.append(v == val)
                ctx.defs.append(z3.And(v >= 0, v < 2 ** bits))
                # lemma (a theorem of decimal notation; offered to deciding queries via ctx.lemmas): rendering the parsed
                # value gives back the text exactly when the text is the canonical numeral (no sign, no redundant zeros)
                canon = z3.Union(z3.Re("0"), z3.Concat(z3.Range("1", "9"), z3.Star(z3.Range("0", "9"))))
                ctx.lemmas.append((z3.IntToStr(v) == zs) == z3.InRe(zs, canon))
                return Ok(v)
            return Err(Opaque("ParseIntError"))
        # user type: FromStr impl in MIR
        tyn = re.sub(r"<.*", "", ty or "").split("::")[-1]
        name = P.impl_index.get((tyn, "FromStr", "from_str"))
        if name:
            return P.call(ctx, name, [c.args[0]])
        raise Unsupported("parse::<%s>" % ty)

    # ------------------------------------------------------------------ Option / Result
    def callv(ctx, f, args):
        return ctx.prog.call_value(ctx, f, args)

    @P.summary("Result::ok")
    def _ok(ctx, c):
        r = deref(c.args[0])
        return Some(r.fields[0]) if r.variant == "Ok" else NONE

    @P.summary("Result::transpose")
    def _res_transpose(ctx, c):
        """Result<Option<T>, E> -> Option<Result<T, E>>"""
        r = deref(c.args[0])
        if r.variant == "Err":
            return Some(Err(r.fields[0]))
        o = deref(r.fields[0])
        return Some(Ok(o.fields[0])) if o.variant == "Some" else NONE

    @P.summary("Option::transpose")
    def _opt_transpose(ctx, c):
        """Option<Result<T, E>> -> Result<Option<T>, E>"""
        o = deref(c.args[0])
        if o.variant == "None":
            return Ok(NONE)
        r = deref(o.fields[0])
        return Ok(Some(r.fields[0])) if r.variant == "Ok" else Err(r.fields[0])

    @P.summary("Result::err")
    def _err(ctx, c):
        r = deref(c.args[0])
        return Some(r.fields[0]) if r.variant == "Err" else NONE

    @P.summary("Result::map_err")
    def _map_err(ctx, c):
        r = deref(c.args[0])
        if r.variant == "Ok":
            return r
        return Err(callv(ctx, c.args[1], [r.fields[0]]))

    @P.summary("Result::map", "Option::map")
    def _map_r(ctx, c):
        r = deref(c.args[0])
        if r.variant in ("Err", "None"):
            return r
        return Adt(r.ty, r.variant, [callv(ctx, c.args[1], [r.fields[0]])])

    @P.summary("Result::and_then", "Option::and_then")
    def _and_then(ctx, c):
        r = deref(c.args[0])
        if r.variant in ("Ok", "Some"):
            return callv(ctx, c.args[1], [r.fields[0]])
        return r

    @P.summary("Result::or_else", "Option::or_else")
    def _or_else(ctx, c):
        r = deref(c.args[0])
        if r.variant in ("Ok", "Some"):
            return r
        return callv(ctx, c.args[1], list(r.fields))

    @P.summary("Result::unwrap_or", "Option::unwrap_or")
    def _unwrap_or(ctx, c):
        r = deref(c.args[0])
        return r.fields[0] if r.variant in ("Ok", "Some") else c.args[1]

    @P.summary("Result::unwrap_or_else", "Option::unwrap_or_else")
    def _unwrap_or_else(ctx, c):
        r = deref(c.args[0])
        if r.variant in ("Ok", "Some"):
            return r.fields[0]
        return callv(ctx, c.args[1], list(r.fields))

    @P.summary("Option::map_or", "Result::map_or")
    def _map_or(ctx, c):
        r = deref(c.args[0])
        if r.variant in ("Ok", "Some"):
            return callv(ctx, c.args[2], [r.fields[0]])
        return c.args[1]

    @P.summary("Option::map_or_else", "Result::map_or_else")
    def _map_or_else(ctx, c):
        r = deref(c.args[0])
        if r.variant in ("Ok", "Some"):
            return callv(ctx, c.args[2], [r.fields[0]])
        return callv(ctx, c.args[1], list(r.fields) if r.ty == "Result" else [])

    @P.summary("Option::is_some", "Result::is_ok")
    def _is_some(ctx, c):
        return deref(c.args[0]).variant in ("Some", "Ok")

    @P.summary("Option::is_none", "Result::is_err")
    def _is_none(ctx, c):
        return deref(c.args[0]).variant in ("None", "Err")

    @P.summary("Option::is_some_and", "Result::is_ok_and")
    def _is_some_and(ctx, c):
        r = deref(c.args[0])
        if r.variant in ("Some", "Ok"):
            return callv(ctx, c.args[1], [r.fields[0]])
        return False

    @P.summary("Option::as_ref", "Result::as_ref", "Option::as_mut", "Option::as_deref", "Result::as_mut", "Option::as_deref_mut")
    def _as_ref(ctx, c):
        r0 = c.args[0]
        r = deref(r0)
        if r.variant in ("None",):
            return NONE
        # reference into the payload
        base = r0
        while isinstance(base.get(), Ref):
            base = base.get()
        if r.ty == "Result" and r.variant == "Err":
            return Err(Ref(base.box, base.proj + (0,)))
        return Adt(r.ty, r.variant, [Ref(base.box, base.proj + (0,))])

    @P.summary("Option::cloned", "Option::copied")
    def _cloned(ctx, c):
        r = deref(c.args[0])
        if r.variant == "None":
            return NONE
        return Some(clone_val(deref(r.fields[0])))

    @P.summary("Result::cloned", "Result::copied")
    def _rcloned(ctx, c):
        r = deref(c.args[0])
        if r.variant == "Err":
            return r
        return Ok(clone_val(deref(r.fields[0])))

    @P.summary("Option::unwrap", "Option::expect")
    def _ounwrap(ctx, c):
        r = deref(c.args[0])
        if r.variant == "Some":
            return r.fields[0]
        raise Panic("called `Option::unwrap()` on a `None` value" if len(c.args) < 2 else str(deref(c.args[1])))

    @P.summary("Result::unwrap", "Result::expect")
    def _runwrap(ctx, c):
        r = deref(c.args[0])
        if r.variant == "Ok":
            return r.fields[0]
        raise Panic("called `Result::unwrap()` on an `Err` value" if len(c.args) < 2 else str(deref(c.args[1])))

    @P.summary("Result::unwrap_err", "Result::expect_err")
    def _runwrap_err(ctx, c):
        r = deref(c.args[0])
        if r.variant == "Err":
            return r.fields[0]
        raise Panic("called `Result::unwrap_err()` on an `Ok` value")

    @P.summary("Option::ok_or")
    def _ok_or(ctx, c):
        o = deref(c.args[0])
        return Ok(o.fields[0]) if o.variant == "Some" else Err(c.args[1])

    @P.summary("Option::ok_or_else")
    def _ok_or_else(ctx, c):
        o = deref(c.args[0])
        return Ok(o.fields[0]) if o.variant == "Some" else Err(callv(ctx, c.args[1], []))

    @P.summary("Option::or")
    def _or(ctx, c):
        o = deref(c.args[0])
        return o if o.variant == "Some" else c.args[1]

    @P.summary("Option::filter")
    def _ofilter(ctx, c):
        o = deref(c.args[0])
        if o.variant == "Some" and ctx.branch(callv(ctx, c.args[1], [Ref(Box(o.fields[0]))]), "opt-filter"):
            return o
        return NONE

    def opt_slot(r0):
        """innermost reference to an Option place"""
        r = r0
        while isinstance(r.get(), Ref):
            r = r.get()
        return r

    @P.summary("Option::get_or_insert", "Option::get_or_insert_with", "Option::get_or_insert_default", "Option::insert")
    def _goi(ctx, c):
        r = opt_slot(c.args[0])
        o = r.get()
        if o.variant == "None" or c.key.endswith("::insert"):
            if c.key.endswith("_with"):
                v = callv(ctx, c.args[1], [])
            elif c.key.endswith("_default"):
                v = default_of(ctx, c.resolve((c.callee.split("Option::<", 1)[1].rsplit(">::", 1)[0]) if "Option::<" in c.callee else ""))
            else:
                v = c.args[1]
            r.set(Some(v))
        return Ref(r.box, r.proj + (0,))

    @P.summary("Option::replace")
    def _oreplace(ctx, c):
        r = opt_slot(c.args[0])
        old = r.get()
        r.set(Some(c.args[1]))
        return old

    @P.summary("Option::and")
    def _oand(ctx, c):
        o = deref(c.args[0])
        return c.args[1] if o.variant == "Some" else NONE

    @P.summary("Option::xor")
    def _oxor(ctx, c):
        a, b = deref(c.args[0]), deref(c.args[1])
        if (a.variant == "Some") != (b.variant == "Some"):
            return a if a.variant == "Some" else b
        return NONE

    @P.summary("Option::zip")
    def _ozip(ctx, c):
        a, b = deref(c.args[0]), deref(c.args[1])
        if a.variant == "Some" and b.variant == "Some":
            return Some(Adt("tuple", None, [a.fields[0], b.fields[0]]))
        return NONE

    @P.summary("Option::iter", "Option::into_iter", "Result::iter")
    def _oiter(ctx, c):
        o = deref(c.args[0])
        return ListIt(list(o.fields) if o.variant in ("Some", "Ok") else [])

    @P.summary("Option::inspect", "Result::inspect", "Result::inspect_err")
    def _oinspect(ctx, c):
        o = deref(c.args[0])
        hit = o.variant in (("Err",) if c.key.endswith("_err") else ("Some", "Ok"))
        if hit:
            callv(ctx, c.args[1], [Ref(Box(o.fields[0]))])
        return o

    @P.summary("Result::and")
    def _rand(ctx, c):
        r = deref(c.args[0])
        return c.args[1] if r.variant == "Ok" else r

    @P.summary("Result::or")
    def _ror(ctx, c):
        r = deref(c.args[0])
        return r if r.variant == "Ok" else c.args[1]

    @P.summary("Option::then", "bool::then", "<impl bool>::then", "core::bool::<impl bool>::then")
    def _then(ctx, c):
        b = deref(c.args[0])
        if ctx.branch(b, "bool-then"):
            return Some(callv(ctx, c.args[1], []))
        return NONE

    @P.summary("bool::then_some", "<impl bool>::then_some", "core::bool::<impl bool>::then_some")
    def _then_some(ctx, c):
        b = deref(c.args[0])
        return Some(c.args[1]) if ctx.branch(b, "bool-then-some") else NONE

    @P.summary("Option::transpose")
    def _otranspose(ctx, c):
        o = deref(c.args[0])
        if o.variant == "None":
            return Ok(NONE)
        r = deref(o.fields[0])
        return Ok(Some(r.fields[0])) if r.variant == "Ok" else r

    @P.summary("Option::unwrap_or_default", "Result::unwrap_or_default")
    def _uod(ctx, c):
        o = deref(c.args[0])
        if o.variant in ("Some", "Ok"):
            return o.fields[0]
        g = c.callee
        m = re.match(r"(?:std::option::)?Option::<(.*)>::unwrap_or_default$", g)
        t = m.group(1) if m else g
        return default_of(ctx, t)

    def default_of(ctx, t):
        t = t.strip()
        if re.match(r"(std::vec::|alloc::vec::)?Vec<", t) or re.match(r"(std::collections::(vec_deque::)?|alloc::collections::(vec_deque::)?)?VecDeque<", t):
            return VecV([])
        if t in ("bool",):
            return False
        if t == "()":
            return UNIT
        if re.sub(r".*::", "", t) in ("String", "OsString", "PathBuf"):
            return ""
        if t in INT_TYS:
            return 0
        if re.match(r"(std::option::)?Option<", t):
            return NONE
        tn = re.sub(r"<.*", "", t).split("::")[-1]
        name = P.impl_index.get((tn, "Default", "default"))
        if name:
            return P.call(ctx, name, [])
        for k in ("default:" + tn,):
            if k in P.summaries:
                return P.summaries[k](ctx, None)
        raise Unsupported("Default::default for " + t)
    P.default_of = default_of

    @P.summary("Default::default")
    def _default(ctx, c):
        return default_of(ctx, c.resolve(c.selfty or ""))

    @P.summary("Try::branch")
    def _branch(ctx, c):
        r = deref(c.args[0])
        if r.ty == "Result":
            if r.variant == "Ok":
                return Adt("ControlFlow", "Continue", [r.fields[0]])
            return Adt("ControlFlow", "Break", [Err(r.fields[0])])
        if r.ty == "Option":
            if r.variant == "Some":
                return Adt("ControlFlow", "Continue", [r.fields[0]])
            return Adt("ControlFlow", "Break", [NONE])
        raise Unsupported("Try::branch on " + r.ty)

    @P.summary("FromResidual::from_residual")
    def _from_res(ctx, c):
        r = deref(c.args[0])
        if r.ty == "Option":
            return NONE
        e = r.fields[0]
        return Err(P.convert_error(ctx, e, c.selfty or ""))

    def convert_error(ctx, e, target_result_ty):
        """`?` error conversion: thiserror #[from] / hand-written From impls found in the MIR, else identity"""
        tgt = None
        t = target_result_ty
        if t and "<" in t:
            from .parse import split_top
            inner = t[t.index("<") + 1: t.rindex(">")]
            parts = split_top(inner)
            tgt = short_ty(re.sub(r"<.*", "", parts[-1].strip()))
        src = type_tag(e)
        if src is not None and tgt is not None and src != tgt:
            name = P.from_index.get((src, tgt))
            if name:
                return P.call(ctx, name, [e])
            # generic error parameter: <E as From<..>> unresolvable statically -> identity
        return e
    P.convert_error = convert_error

    # ------------------------------------------------------------------ Vec / slices
    @P.summary("Vec::new", "Vec::with_capacity", "VecDeque::new")
    def _vnew(ctx, c):
        return VecV([])

    @P.summary("Vec::push", "VecDeque::push_back")
    def _vpush(ctx, c):
        deref(c.args[0]).items.append(c.args[1])
        return UNIT

    @P.summary("Vec::pop")
    def _vpop(ctx, c):
        v = deref(c.args[0])
        return Some(v.items.pop()) if v.items else NONE

    @P.summary("VecDeque::pop_front")
    def _vpopf(ctx, c):
        v = deref(c.args[0])
        return Some(v.items.pop(0)) if v.items else NONE

    @P.summary("Vec::clear")
    def _vclear(ctx, c):
        deref(c.args[0]).items.clear()
        return UNIT

    @P.summary("Vec::len", "<impl [T]>::len", "VecDeque::len")
    def _vlen(ctx, c):
        return len(deref(c.args[0]).items)

    @P.summary("Vec::is_empty", "<impl [T]>::is_empty", "VecDeque::is_empty")
    def _vempty(ctx, c):
        return len(deref(c.args[0]).items) == 0

    @P.summary("<impl [T]>::last")
    def _last(ctx, c):
        v = deref(c.args[0])
        return Some(ItemRef(v, len(v.items) - 1)) if v.items else NONE

    @P.summary("<impl [T]>::first")
    def _first(ctx, c):
        v = deref(c.args[0])
        return Some(ItemRef(v, 0)) if v.items else NONE

    @P.summary("<impl [T]>::iter", "<impl [T]>::iter_mut", "Vec::iter")
    def _viter(ctx, c):
        return to_iter(ctx, c.args[0], True)

    @P.summary("Vec::extend", "Extend::extend", "Vec::extend_from_slice", "Vec::append")
    def _vextend(ctx, c):
        v = deref(c.args[0])
        src = deref(c.args[1])
        if isinstance(src, VecV):
            v.items.extend(src.items)
            if c.key == "Vec::append":
                src.items = []
            return UNIT
        if isinstance(src, (bytes, bytearray)):
            v.items.extend(list(src))
            return UNIT
        it = to_iter(ctx, src, False)
        while True:
            x = it_next(ctx, it)
            if x is END:
                break
            v.items.append(x)
        return UNIT

    def range_bounds(r, n):
        r = deref(r)
        if isinstance(r, Adt):
            nm = r.ty.split("::")[-1]
            if nm == "RangeFrom":
                return deref(r.fields[0]), n
            if nm == "RangeTo":
                return 0, deref(r.fields[0])
            if nm == "Range":
                return deref(r.fields[0]), deref(r.fields[1])
            if nm == "RangeFull":
                return 0, n
            if nm == "RangeInclusive":
                return deref(r.fields[0]), deref(r.fields[1]) + 1
        return None

    @P.summary("Index::index", "IndexMut::index_mut")
    def _index(ctx, c):
        v, i = deref(c.args[0]), deref(c.args[1])
        if hasattr(v, "index_model"):
            return v.index_model(ctx, c)
        if isinstance(v, (VecV, SliceView)) or (isinstance(v, Adt) and v.ty == "array"):
            if isinstance(v, Adt):
                v = VecV(v.fields)
            n = len(v.items)
            rb = range_bounds(i, n)
            if rb is not None:
                a, b = rb
                if is_sym(a) or is_sym(b):
                    raise Unsupported("slicing with symbolic bounds")
                if not (0 <= a <= b <= n):
                    raise Panic("slice index out of range")
                return Ref(Box(SliceView(v, a, b)))
            if is_sym(i):
                raise Unsupported("indexing with a symbolic index")
            if not (0 <= i < n):
                raise Panic("index out of bounds")
            return ItemRef(v, i)
        if is_str(v):
            rb = range_bounds(i, None)
            if rb is not None and isinstance(v, str) and not is_sym(rb[0]):
                a, b = rb
                return v[a:b]
        raise Unsupported(f"Index on {v!r}")

    @P.summary("<impl [T]>::reverse")
    def _reverse(ctx, c):
        v = deref(c.args[0])
        v.items = list(reversed(v.items))
        return UNIT

    @P.summary("<impl [T]>::swap")
    def _swap(ctx, c):
        v, a, b = deref(c.args[0]), deref(c.args[1]), deref(c.args[2])
        xs = v.items
        xs[a], xs[b] = xs[b], xs[a]
        v.items = xs
        return UNIT

    @P.summary("<impl [T]>::split_at")
    def _split_at(ctx, c):
        v, k = deref(c.args[0]), deref(c.args[1])
        if is_sym(k):
            raise Unsupported("split_at with a symbolic index")
        if k > len(v.items):
            raise Panic("mid > len")
        return Adt("tuple", None, [VecV(v.items[:k]), VecV(v.items[k:])])

    @P.summary("<impl [T]>::split_first")
    def _split_first(ctx, c):
        v = deref(c.args[0])
        return Some(Adt("tuple", None, [ItemRef(v, 0), VecV(v.items[1:])])) if v.items else NONE

    @P.summary("<impl [T]>::split_last")
    def _split_last(ctx, c):
        v = deref(c.args[0])
        return Some(Adt("tuple", None, [ItemRef(v, len(v.items) - 1), VecV(v.items[:-1])])) if v.items else NONE

    @P.summary("<impl [T]>::get", "Vec::get")
    def _sget(ctx, c):
        v, k = deref(c.args[0]), deref(c.args[1])
        if is_sym(k):
            raise Unsupported("slice get with a symbolic index")
        return Some(ItemRef(v, k)) if 0 <= k < len(v.items) else NONE

    @P.summary("<impl [T]>::contains", "Vec::contains")
    def _scontains(ctx, c):
        v, x = deref(c.args[0]), deref(c.args[1])
        for it in v.items:
            if ctx.branch(val_eq(ctx, it, x), "contains"):
                return True
        return False

    @P.summary("<impl [T]>::concat", "<impl [T]>::concat")
    def _sconcat(ctx, c):
        v = deref(c.args[0])
        out = []
        strs = []
        for it in (v.items if isinstance(v, VecV) else v.fields):
            it = deref(it)
            if isinstance(it, VecV):
                out.extend(it.items)
            elif is_str(it):
                strs.append(it)
            else:
                raise Unsupported(f"concat of {it!r}")
        return concat(strs) if strs else VecV(out)

    @P.summary("Vec::truncate")
    def _vtrunc(ctx, c):
        v, k = deref(c.args[0]), deref(c.args[1])
        del v.items[k:]
        return UNIT

    @P.summary("Vec::insert")
    def _vinsert(ctx, c):
        v, k = deref(c.args[0]), deref(c.args[1])
        v.items.insert(k, c.args[2])
        return UNIT

    @P.summary("Vec::remove")
    def _vremove(ctx, c):
        v, k = deref(c.args[0]), deref(c.args[1])
        return v.items.pop(k)

    @P.summary("Vec::drain", "Vec::into_iter")
    def _vdrain(ctx, c):
        v = deref(c.args[0])
        items = list(v.items)
        if c.key.endswith("drain"):
            v.items = []
        return ListIt(items)

    @P.summary("Iterator::position")
    def _position(ctx, c):
        it = to_iter(ctx, c.args[0], False)
        i = 0
        while True:
            v = it_next(ctx, it)
            if v is END:
                return NONE
            if ctx.branch(callv(ctx, c.args[1], [v]), "position"):
                return Some(i)
            i += 1

    @P.summary("Iterator::skip")
    def _skip(ctx, c):
        it = to_iter(ctx, c.args[0], False)
        for _ in range(deref(c.args[1])):
            if it_next(ctx, it) is END:
                break
        return it

    @P.summary("Iterator::take")
    def _take_n(ctx, c):
        it = to_iter(ctx, c.args[0], False)
        out = []
        for _ in range(deref(c.args[1])):
            v = it_next(ctx, it)
            if v is END:
                break
            out.append(v)
        return ListIt(out)

    @P.summary("Iterator::zip")
    def _zip(ctx, c):
        a, b = drain(ctx, to_iter(ctx, c.args[0], False)), drain(ctx, to_iter(ctx, c.args[1], False))
        return ListIt([Adt("tuple", None, [x, y]) for x, y in zip(a, b)])

    @P.summary("Iterator::nth")
    def _nth(ctx, c):
        it = to_iter(ctx, c.args[0], False)
        v = END
        for _ in range(deref(c.args[1]) + 1):
            v = it_next(ctx, it)
            if v is END:
                return NONE
        return Some(v)

    @P.summary("Iterator::max", "Iterator::min", "Iterator::sum")
    def _minmax(ctx, c):
        xs = [deref(x) for x in drain(ctx, to_iter(ctx, c.args[0], False))]
        if any(is_sym(x) for x in xs):
            raise Unsupported(c.key + " over symbolic values")
        if c.key.endswith("sum"):
            return sum(xs)
        if not xs:
            return NONE
        return Some(max(xs) if c.key.endswith("max") else min(xs))

    @P.summary("Box::new_uninit")
    def _box_uninit(ctx, c):
        # vec![..] lowering: Box<MaybeUninit<[T;N]>> written through nested fields, then box_assume_init_into_vec_unsafe
        cell = Ref(Box(Adt("MaybeUninit", None, [None, Adt("ManuallyDrop", None, [Adt("MaybeDangling", None, [None])])])))
        return Adt("Box", None, [Adt("Unique", None, [cell])])       # Box.0: Unique<T>, Unique.0: NonNull<T>

    @P.summary("box_assume_init_into_vec_unsafe")
    def _box_into_vec(ctx, c):
        b = deref(c.args[0])
        if b.ty == "Box":
            b = deref(b.fields[0].fields[0])
        arr = b.fields[1].fields[0].fields[0]
        return VecV(list(arr.fields))

    @P.summary("<impl [T]>::into_vec", "slice::<impl [T]>::into_vec")
    def _into_vec(ctx, c):
        v = deref(c.args[0])
        if isinstance(v, Adt) and v.ty == "array":
            return VecV(list(v.fields))
        return v

    @P.summary("Box::new", "Arc::new", "Rc::new")
    def _box_new(ctx, c):
        return c.args[0]

    # ------------------------------------------------------------------ iterators
    @P.summary("IntoIterator::into_iter")
    def _into_iter(ctx, c):
        st = (c.selfty or "")
        by_ref = st.startswith("&")
        return to_iter(ctx, c.args[0], by_ref)

    @P.summary("Iterator::next")
    def _next(ctx, c):
        v = it_next(ctx, c.args[0])
        return NONE if v is END else Some(v)

    @P.summary("DoubleEndedIterator::next_back")
    def _next_back(ctx, c):
        it = deref(c.args[0])
        v = it.next_back(ctx)
        return NONE if v is END else Some(v)

    @P.summary("Iterator::map")
    def _map(ctx, c):
        return MapIt(to_iter(ctx, c.args[0], False), c.args[1])

    @P.summary("Iterator::filter")
    def _filter(ctx, c):
        return FilterIt(to_iter(ctx, c.args[0], False), c.args[1])

    @P.summary("Iterator::filter_map")
    def _filter_map(ctx, c):
        return FilterMapIt(to_iter(ctx, c.args[0], False), c.args[1])

    @P.summary("Iterator::map_while")
    def _map_while(ctx, c):
        return MapWhileIt(to_iter(ctx, c.args[0], False), c.args[1])

    @P.summary("Iterator::enumerate")
    def _enumerate(ctx, c):
        return EnumerateIt(to_iter(ctx, c.args[0], False))

    @P.summary("Iterator::chain")
    def _chain(ctx, c):
        return ChainIt(to_iter(ctx, c.args[0], False), to_iter(ctx, c.args[1], False))

    @P.summary("Iterator::peekable")
    def _peekable(ctx, c):
        return PeekIt(to_iter(ctx, c.args[0], False))

    @P.summary("Peekable::peek")
    def _peek(ctx, c):
        v = deref(c.args[0]).peek(ctx)
        return NONE if v is END else Some(Ref(Box(v)))

    @P.summary("Iterator::cloned", "Iterator::copied")
    def _icloned(ctx, c):
        inner = to_iter(ctx, c.args[0], False)
        return MapIt(inner, PyFn(lambda ctx, v: clone_val(deref(v))))

    @P.summary("Iterator::rev")
    def _rev(ctx, c):
        it = to_iter(ctx, c.args[0], False)
        items = drain(ctx, it)
        return ListIt(list(reversed(items)))

    def drain(ctx, it):
        out = []
        while True:
            v = it_next(ctx, it)
            if v is END:
                return out
            out.append(v)
    P.drain = drain

    @P.summary("Iterator::collect", "FromIterator::from_iter")
    def _collect(ctx, c):
        gen = ((c.selfty or c.gen) if c.key.endswith("from_iter") else (c.gen or c.selfty) or "").strip()
        if c.key.endswith("from_iter") and not c.selfty:
            gen = re.sub(r"::from_iter.*", "", strip_generics(c.callee)) if "::<" not in c.callee else c.callee[:c.callee.index("::from_iter")]
            gen = re.sub(r"::<", "<", gen)
        gen = c.resolve(gen)
        gen = re.sub(r"^(std|alloc|core)::\w+::", "", gen)
        it = to_iter(ctx, c.args[0], False)
        m = re.match(r"(?:std::option::)?Option<(.*)>$", gen)
        if m:
            out = []
            while True:
                v = it_next(ctx, it)
                if v is END:
                    break
                v = deref(v)
                if v.variant == "None":
                    return NONE
                out.append(v.fields[0])
            return Some(build_collection(ctx, m.group(1), out))
        m = re.match(r"(?:std::result::)?Result<(.*)>$", gen)
        if m:
            from .parse import split_top
            inner = split_top(m.group(1))[0]
            out = []
            while True:
                v = it_next(ctx, it)
                if v is END:
                    break
                v = deref(v)
                if v.variant == "Err":
                    return v
                out.append(v.fields[0])
            return Ok(build_collection(ctx, inner, out))
        return build_collection(ctx, gen, drain(ctx, it))

    def build_collection(ctx, ty, items):
        ty = re.sub(r"^(std|alloc|core)::\w+::", "", ty.strip())
        if ty.startswith("Vec<") or ty.startswith("std::vec::Vec<") or ty == "Vec<_>":
            return VecV(items)
        if ty.startswith("String") or ty.startswith("OsString"):
            return concat([sval(x) for x in items])
        for pre, hook in P.collection_builders.items():
            if ty.startswith(pre):
                return hook(ctx, ty, items)
        raise Unsupported("collect into " + ty)
    P.collection_builders = {}
    P.build_collection = build_collection

    @P.summary("Iterator::for_each")
    def _for_each(ctx, c):
        it = to_iter(ctx, c.args[0], False)
        while True:
            v = it_next(ctx, it)
            if v is END:
                return UNIT
            callv(ctx, c.args[1], [v])

    @P.summary("Iterator::any")
    def _any(ctx, c):
        it = to_iter(ctx, c.args[0], False)
        while True:
            v = it_next(ctx, it)
            if v is END:
                return False
            if ctx.branch(callv(ctx, c.args[1], [v]), "any"):
                return True

    @P.summary("Iterator::all")
    def _all(ctx, c):
        it = to_iter(ctx, c.args[0], False)
        while True:
            v = it_next(ctx, it)
            if v is END:
                return True
            if not ctx.branch(callv(ctx, c.args[1], [v]), "all"):
                return False

    @P.summary("Iterator::find")
    def _find(ctx, c):
        it = to_iter(ctx, c.args[0], False)
        while True:
            v = it_next(ctx, it)
            if v is END:
                return NONE
            if ctx.branch(callv(ctx, c.args[1], [Ref(Box(v))]), "find"):
                return Some(v)

    @P.summary("Iterator::find_map")
    def _find_map(ctx, c):
        it = to_iter(ctx, c.args[0], False)
        while True:
            v = it_next(ctx, it)
            if v is END:
                return NONE
            r = deref(callv(ctx, c.args[1], [v]))
            if r.variant == "Some":
                return r

    @P.summary("Iterator::fold")
    def _fold(ctx, c):
        it = to_iter(ctx, c.args[0], False)
        acc = c.args[1]
        while True:
            v = it_next(ctx, it)
            if v is END:
                return acc
            acc = callv(ctx, c.args[2], [acc, v])

    @P.summary("Iterator::count")
    def _count(ctx, c):
        return len(drain(ctx, to_iter(ctx, c.args[0], False)))

    @P.summary("Iterator::last")
    def _ilast(ctx, c):
        xs = drain(ctx, to_iter(ctx, c.args[0], False))
        return Some(xs[-1]) if xs else NONE

    @P.summary("Iterator::flatten", "Iterator::flat_map")
    def _flatten(ctx, c):
        it = to_iter(ctx, c.args[0], False)
        out = []
        for x in drain(ctx, it):
            if c.key.endswith("flat_map"):
                x = callv(ctx, c.args[1], [x])
            out.extend(drain(ctx, to_iter(ctx, x, False)))
        return ListIt(out)

    # ------------------------------------------------------------------ misc
    @P.summary("Fn::call", "FnMut::call_mut", "FnOnce::call_once")
    def _fn_call(ctx, c):
        args = deref(c.args[1])
        return P.call_value(ctx, c.args[0], list(args.fields))

    @P.summary("<impl u64>::cmp", "<impl i32>::cmp", "<impl usize>::cmp", "<impl u8>::cmp", "<impl u32>::cmp", "<impl i64>::cmp")
    def _icmp(ctx, c):
        a, b = deref(c.args[0]), deref(c.args[1])
        if is_sym(a) or is_sym(b):
            i = ctx.choose([a < b, a == b, a > b], "int-cmp")
            return Adt("Ordering", ["Less", "Equal", "Greater"][i], [])
        return Adt("Ordering", "Less" if a < b else ("Equal" if a == b else "Greater"), [])

    @P.summary("process::exit", "exit")
    def _exit(ctx, c):
        raise Exit(deref(c.args[0]))
