"""SMT facade: same surface for z3 (default) and cvc5.pythonic (MIRSYM_SMT=cvc5)."""
import os

BACKEND = os.environ.get("MIRSYM_SMT", "z3")
if BACKEND == "cvc5":
    import cvc5.pythonic as _m
else:
    import z3 as _m


def _flat(args):
    out = []
    for a in args:
        if isinstance(a, (list, tuple)):
            out.extend(a)
        else:
            out.append(a)
    return [(_m.BoolVal(x) if isinstance(x, bool) else x) for x in out]


def And(*args):
    a = _flat(args)
    if not a:
        return _m.BoolVal(True)
    return a[0] if len(a) == 1 else _m.And(*a)


def Or(*args):
    a = _flat(args)
    if not a:
        return _m.BoolVal(False)
    return a[0] if len(a) == 1 else _m.Or(*a)


def to_smt2(solver):
    """SMT-LIB text of the solver's assertions (for the external portfolio)."""
    if hasattr(solver, "to_smt2"):
        return "(set-logic ALL)\n" + solver.to_smt2()
    decls = {}
    def walk(e):
        for c in e.children():
            walk(c)
        if _m.is_const(e) and e.decl().kind() == getattr(_m, "Z3_OP_UNINTERPRETED", None):
            decls[str(e)] = e.sort()
    body = "\n".join(f"(assert {a.sexpr()})" for a in solver.assertions())
    return "(set-logic ALL)\n" + body + "\n(check-sat)\n"


def AllChar(*_a):
    """any single character (z3 wants the regex sort, cvc5 takes none)"""
    if BACKEND == "cvc5":
        return _m.AllChar()
    return _m.AllChar(_m.ReSort(_m.StringSort()))


def EmptyRe():
    return _m.Empty(_m.ReSort(_m.StringSort()))


def new_solver(timeout_ms=None, seed=0):
    so = _m.Solver()
    if BACKEND == "cvc5":
        so.setOption("strings-exp", "true")
        if timeout_ms:
            so.setOption("tlimit-per", str(int(timeout_ms)))
    else:
        if timeout_ms:
            so.set("timeout", int(timeout_ms))
        so.set("random_seed", seed)
    return so


def guarded_check(so, *assumptions, timeout_ms=None):
    """solver.check with a hard deadline: z3's own `timeout` is not always honoured inside the sequence solver, so a
    timer thread interrupts the context (the C call releases the GIL).  An interrupted check answers `unknown`."""
    if BACKEND != "z3" or not timeout_ms:
        return so.check(*assumptions)
    import threading
    t = threading.Timer(timeout_ms / 1000.0 + 1.0, so.ctx.interrupt)
    t.daemon = True
    t.start()
    try:
        return so.check(*assumptions)
    except _m.Z3Exception:
        return _m.unknown
    finally:
        t.cancel()


def __getattr__(name):
    return getattr(_m, name)
