"""POSIX-style file-system model behind std::fs / std::path, over a finite path universe with symbolic node state.

Nodes: kind in {ABSENT, FILE, DIR, LINK} (python int or z3 Int), owner permission bits `mode` (enforced only when
World.perms is set), content (any model value), symlink targets (a list of candidate paths with a symbolic selector).
Every mutating or data-reading call is registered in World.ops; World.fault_at (z3 Int) makes the k-th such call fail
with a non-NotFound error (C12).  Errors carry only what libcnb.rs can observe: ErrorKind::NotFound vs. anything else.
"""
import re
from . import smt as z3
from .core import *
from .summ_core import VecV, Ok, Err, Some, NONE, sval, S, is_str, ListIt, concat

ABSENT, FILE, DIR, LINK = 0, 1, 2, 3
KIND_NAMES = {0: "absent", 1: "file", 2: "dir", 3: "symlink"}
MODES = [0o755, 0o555, 0o666, 0o000, 0o777, 0o644, 0o444]


class Node:
    def __init__(self, kind=ABSENT, mode=0o755, content=None, targets=None, sel=None):
        self.kind, self.mode, self.content, self.targets, self.sel = kind, mode, content, targets or [], sel

    def snap(self):
        return (self.kind, self.mode, self.content, self.sel)


class IoError:
    type_tag = "io::Error"      # std::io::Error

    def __init__(self, kind, why=""):
        self.kind, self.why = kind, why  # 'NotFound' | 'Other'

    def __repr__(self):
        return f"IoError({self.kind}{':' + self.why if self.why else ''})"


def ioerr(kind="Other", why=""):
    return Err(IoError(kind, why))


class World:
    def __init__(self, ctx, perms=False):
        self.ctx = ctx
        self.fs = {}
        self.ops = []
        self.fault_at = None
        self.fault_hit = False
        self.perms = perms
        self.printed = []
        self.env = {}
        self.cwd = "/cwd"
        self.dyn = {}          # directories with symbolically named entries: path -> DynDir (mirsym/summ_dyn.py)
        self.dyn_candidates = set()

    def clone(self):
        """an independent copy of the file-system state (same symbolic terms): for self-composition"""
        w = World(self.ctx, self.perms)
        for p, n in self.fs.items():
            w.fs[p] = Node(n.kind, n.mode, n.content, list(n.targets), n.sel)
        w.env, w.cwd, w.dyn_candidates = dict(self.env), self.cwd, set(self.dyn_candidates)
        for p, d in self.dyn.items():
            from .summ_dyn import DynDir
            dd = DynDir()
            dd.entries = [[nm, Node(n.kind, n.mode, n.content, list(n.targets), n.sel)] for nm, n in d.entries]
            w.dyn[p] = dd
        return w

    # ---- universe
    def add(self, path, kind, **kw):
        n = Node(kind, **kw)
        self.fs[path] = n
        return n

    def get(self, p):
        n = self.fs.get(p)
        if n is None:
            n = Node(ABSENT)
            self.fs[p] = n
        return n

    def children(self, p):
        pre = p.rstrip("/") + "/"
        return sorted(q for q in self.fs if q.startswith(pre) and "/" not in q[len(pre):])

    def descendants(self, p):
        pre = p.rstrip("/") + "/"
        return sorted(q for q in self.fs if q.startswith(pre))

    # ---- symbolic helpers
    def kind_is(self, node, k, label):
        if isinstance(node.kind, int):
            return node.kind == k
        return self.ctx.branch(node.kind == k, label)

    def bit(self, node, bit, label):
        if not self.perms:
            return True
        m = node.mode
        if isinstance(m, int):
            return bool(m & bit)
        return self.ctx.branch(z3.Or([m == v for v in MODES if v & bit]), label)

    def fault(self, name, path):
        """register a mutating / data-reading operation; True if the injected fault hits it"""
        idx = len(self.ops)
        self.ops.append((name, path))
        if self.fault_at is None:
            return False
        if self.ctx.branch(self.fault_at == idx, f"fault@{idx}:{name}"):
            self.fault_hit = True
            return True
        return False

    def resolve(self, path, follow_last=True, depth=0):
        """-> (errkind | None, physical path).  Walks components, follows symlinks, checks search permission."""
        if depth > 8:
            return "Other", None   # ELOOP
        if not path.startswith("/"):
            path = self.cwd.rstrip("/") + "/" + path
        comps = [c for c in path.split("/") if c and c != "."]
        cur = ""
        for i, c in enumerate(comps):
            last = i == len(comps) - 1
            if c == "..":
                cur = cur.rsplit("/", 1)[0]
                continue
            if cur:
                pn = self.get(cur)
                if not self.bit(pn, 0o100, f"x:{cur}"):
                    return "Other", None  # EACCES on search
            cand = cur + "/" + c
            n = self.get(cand)
            if self.kind_is(n, ABSENT, f"absent:{cand}"):
                return "NotFound", (cand if last else None)
            if self.kind_is(n, LINK, f"link:{cand}") and (not last or follow_last):
                ti = 0
                if len(n.targets) > 1:
                    ti = self.ctx.choose([n.sel == k for k in range(len(n.targets))], f"tgt:{cand}")
                elif not n.targets:
                    return "NotFound", None
                rest = "/".join(comps[i + 1:])
                t = n.targets[ti]
                if not t.startswith("/"):
                    t = (cur or "") + "/" + t
                return self.resolve(t + ("/" + rest if rest else ""), follow_last, depth + 1)
            if not last and not self.kind_is(n, DIR, f"dir:{cand}"):
                return "Other", None  # ENOTDIR
            cur = cand
        return None, cur or "/"

    def parent_of(self, p):
        return p.rsplit("/", 1)[0] or "/"

    def parent_writable(self, p):
        par = self.parent_of(p)
        if par == "/":
            return True
        pn = self.get(par)
        return self.bit(pn, 0o200, f"w:{par}") and self.bit(pn, 0o100, f"x:{par}")

    def snapshot(self, under=None):
        return {p: n.snap() for p, n in self.fs.items() if under is None or p == under or p.startswith(under.rstrip("/") + "/")}


def pstr(v):
    """concrete path string of a model path value"""
    v = sval(v)
    if isinstance(v, Opaque) and v.tag in ("DirEntry", "FileType", "Metadata"):
        return v.data
    if not isinstance(v, str):
        raise Unsupported(f"symbolic path {v!r}")
    return v


def pjoin(a, b):
    if b.startswith("/"):
        return b
    if a == "":
        return b
    return a.rstrip("/") + "/" + b if b else a.rstrip("/") + "/"


def install(P):
    # ------------------------------------------------------------------ std::path (concrete paths)
    @P.summary("Path::join", "PathBuf::join")
    def _join(ctx, c):
        a, b = sval(c.args[0]), sval(c.args[1])
        if isinstance(a, str) and isinstance(b, str):
            return pjoin(a, b).rstrip("/") if b else pjoin(a, b)
        hook = getattr(ctx.world, "sym_join", None)
        if hook:
            return hook(a, b)
        raise Unsupported(f"Path::join with symbolic component {a!r} {b!r}")

    @P.summary("PathBuf::push")
    def _push(ctx, c):
        r = c.args[0]
        while isinstance(r.get(), Ref):
            r = r.get()
        r.set(pjoin(pstr(r.get()), pstr(c.args[1])))
        return UNIT

    @P.summary("Path::components")
    def _components(ctx, c):
        """std's lexical normalisation: repeated separators and a trailing one vanish, `.` survives only as the first component"""
        from .summ_core import ListIt
        p = pstr(c.args[0])
        out = []
        if p.startswith("/"):
            out.append(Adt("Component", "RootDir", []))
        segs = [x for x in p.split("/") if x != ""]
        for i, x in enumerate(segs):
            if x == ".":
                if i == 0 and not p.startswith("/"):
                    out.append(Adt("Component", "CurDir", []))
            elif x == "..":
                out.append(Adt("Component", "ParentDir", []))
            else:
                out.append(Adt("Component", "Normal", [x]))
        return ListIt(out)

    @P.summary("Component::as_os_str")
    def _comp_str(ctx, c):
        v = deref(c.args[0])
        return {"RootDir": "/", "CurDir": ".", "ParentDir": ".."}.get(v.variant) or v.fields[0]

    @P.summary("PathBuf::pop")
    def _pop(ctx, c):
        r = c.args[0]
        while isinstance(r.get(), Ref):
            r = r.get()
        p = pstr(r.get())
        if p in ("/", ""):
            return False
        q = p.rstrip("/")
        if "/" not in q:
            r.set("")
        else:
            r.set(q.rsplit("/", 1)[0] or "/")
        return True

    @P.summary("Path::parent")
    def _parent(ctx, c):
        p = pstr(c.args[0])
        if p in ("/", ""):
            return NONE
        p = p.rstrip("/")
        if "/" not in p:
            return Some("")
        return Some(p.rsplit("/", 1)[0] or "/")

    @P.summary("Path::file_name")
    def _file_name(ctx, c):
        p = pstr(c.args[0]).rstrip("/")
        if not p or p.endswith(".."):
            return NONE
        return Some(p.rsplit("/", 1)[-1])

    def split_ext(name):
        if name in ("", "..") or "." not in name[1:]:
            return name, None
        st, ex = name.rsplit(".", 1)
        return st, ex

    @P.summary("Path::file_stem")
    def _file_stem(ctx, c):
        p = pstr(c.args[0]).rstrip("/")
        if not p or p.endswith("/.."):
            return NONE
        return Some(split_ext(p.rsplit("/", 1)[-1])[0])

    @P.summary("Path::extension")
    def _extension(ctx, c):
        p = pstr(c.args[0]).rstrip("/")
        if not p:
            return NONE
        ex = split_ext(p.rsplit("/", 1)[-1])[1]
        return NONE if ex is None else Some(ex)

    @P.summary("Path::with_extension")
    def _with_extension(ctx, c):
        p, ext = pstr(c.args[0]).rstrip("/"), pstr(c.args[1])
        d, _, name = p.rpartition("/")
        st = split_ext(name)[0]
        return (d + "/" if d or p.startswith("/") else "") + st + ("." + ext if ext else "")

    @P.summary("Path::is_absolute", "Path::has_root")
    def _is_abs(ctx, c):
        return head_lit(c.args[0]).startswith("/")

    def head_lit(v):
        from .summ_core import flatten_concat
        v = sval(v)
        if isinstance(v, str):
            return v
        h = flatten_concat(v)[0]
        if isinstance(h, str) and h:
            return h                    # the literal head decides absolute/relative
        raise Unsupported(f"symbolic path {v!r}")

    @P.summary("Path::is_relative")
    def _is_rel(ctx, c):
        return not head_lit(c.args[0]).startswith("/")

    @P.summary("Path::to_str", "OsStr::to_str")
    def _to_str(ctx, c):
        v = sval(c.args[0])
        hook = getattr(ctx.world, "utf8_check", None)
        if hook:
            return hook(ctx, v)
        return Some(v)

    @P.summary("Path::to_string_lossy", "OsStr::to_string_lossy", "Path::display", "Path::into_os_string")
    def _lossy(ctx, c):
        return sval(c.args[0])

    @P.summary("Path::starts_with")
    def _p_starts(ctx, c):
        a, b = pstr(c.args[0]).rstrip("/"), pstr(c.args[1]).rstrip("/")
        return a == b or a.startswith(b + "/")

    @P.summary("Path::strip_prefix")
    def _p_strip(ctx, c):
        a, b = pstr(c.args[0]).rstrip("/"), pstr(c.args[1]).rstrip("/")
        if a == b:
            return Ok("")
        if a.startswith(b + "/"):
            return Ok(a[len(b) + 1:])
        return Err(Opaque("StripPrefixError"))

    # ------------------------------------------------------------------ metadata probes (never fault positions)
    def probe(ctx, c, follow=True):
        w = ctx.world
        e, phys = w.resolve(pstr(c.args[0]), follow)
        if e:
            return e, None, None
        return None, phys, w.get(phys)

    @P.summary("Path::exists")
    def _exists(ctx, c):
        e, phys, n = probe(ctx, c)
        return e is None

    @P.summary("Path::try_exists", "fs::exists")
    def _try_exists(ctx, c):
        e, phys, n = probe(ctx, c)
        if e == "Other":
            return ioerr()
        return Ok(e is None)

    @P.summary("Path::is_dir")
    def _is_dir(ctx, c):
        e, phys, n = probe(ctx, c)
        return e is None and ctx.world.kind_is(n, DIR, f"is_dir:{phys}")

    @P.summary("Path::is_file")
    def _is_file(ctx, c):
        e, phys, n = probe(ctx, c)
        return e is None and ctx.world.kind_is(n, FILE, f"is_file:{phys}")

    @P.summary("Path::is_symlink")
    def _is_symlink(ctx, c):
        e, phys, n = probe(ctx, c, False)
        return e is None and ctx.world.kind_is(n, LINK, f"is_symlink:{phys}")

    @P.summary("fs::metadata", "metadata", "Path::metadata")
    def _metadata(ctx, c):
        e, phys, n = probe(ctx, c)
        if e:
            return ioerr(e)
        return Ok(Opaque("Metadata", phys))

    @P.summary("fs::symlink_metadata", "symlink_metadata", "Path::symlink_metadata")
    def _symlink_metadata(ctx, c):
        e, phys, n = probe(ctx, c, False)
        if e:
            return ioerr(e)
        return Ok(Opaque("Metadata", phys))

    @P.summary("Metadata::file_type")
    def _md_ft(ctx, c):
        return Opaque("FileType", deref(c.args[0]).data)

    @P.summary("Metadata::is_dir", "FileType::is_dir")
    def _md_is_dir(ctx, c):
        p = deref(c.args[0]).data
        return ctx.world.kind_is(ctx.world.get(p), DIR, f"ft-dir:{p}")

    @P.summary("Metadata::is_file", "FileType::is_file")
    def _md_is_file(ctx, c):
        p = deref(c.args[0]).data
        return ctx.world.kind_is(ctx.world.get(p), FILE, f"ft-file:{p}")

    @P.summary("Metadata::is_symlink", "FileType::is_symlink")
    def _md_is_link(ctx, c):
        p = deref(c.args[0]).data
        return ctx.world.kind_is(ctx.world.get(p), LINK, f"ft-link:{p}")

    @P.summary("Metadata::permissions")
    def _md_perm(ctx, c):
        return Opaque("Permissions", ctx.world.get(deref(c.args[0]).data).mode)

    @P.summary("PermissionsExt::from_mode")
    def _from_mode(ctx, c):
        return Opaque("Permissions", deref(c.args[0]))

    @P.summary("PermissionsExt::mode")
    def _mode(ctx, c):
        return deref(c.args[0]).data

    # ------------------------------------------------------------------ data / mutating operations
    @P.summary("fs::set_permissions", "set_permissions")
    def _chmod(ctx, c):
        w = ctx.world
        e, phys = w.resolve(pstr(c.args[0]), True)
        if e:
            return ioerr(e)
        if w.fault("chmod", phys):
            return ioerr()
        w.get(phys).mode = deref(c.args[1]).data
        return Ok()

    @P.summary("fs::read_dir", "read_dir", "Path::read_dir")
    def _read_dir(ctx, c):
        w = ctx.world
        logical = pstr(c.args[0])
        e, phys = w.resolve(logical, True)
        if e:
            return ioerr(e)
        n = w.get(phys)
        if not w.kind_is(n, DIR, f"rd-dir:{phys}"):
            return ioerr("Other", "ENOTDIR")
        if not w.bit(n, 0o400, f"r:{phys}"):
            return ioerr("Other", "EACCES")
        if w.fault("opendir", phys):
            return ioerr()
        if phys in w.dyn:
            it = w.dyn[phys].read_dir(ctx, logical)
            # concrete children of a dynamic directory (e.g. env.launch/<process>/) are listed as well
            for ch in w.children(phys):
                if not w.kind_is(w.get(ch), ABSENT, f"rd-child:{ch}"):
                    it.items.append(Ok(Opaque("DirEntry", logical.rstrip("/") + "/" + ch.rsplit("/", 1)[1])))
            return Ok(it)
        ents = []
        for ch in w.children(phys):
            if not w.kind_is(w.get(ch), ABSENT, f"rd-child:{ch}"):
                ents.append(Ok(Opaque("DirEntry", logical.rstrip("/") + "/" + ch.rsplit("/", 1)[1])))
        order = getattr(w, "readdir_order", None)
        if order:
            ents = order(ctx, phys, ents)
        return Ok(ListIt(ents))

    @P.summary("DirEntry::path")
    def _de_path(ctx, c):
        return deref(c.args[0]).data

    @P.summary("DirEntry::file_name")
    def _de_name(ctx, c):
        d = deref(c.args[0]).data
        return d.rsplit("/", 1)[1] if isinstance(d, str) else d.name

    @P.summary("DirEntry::file_type")
    def _de_ft(ctx, c):
        d = deref(c.args[0]).data
        w = ctx.world
        e, phys = w.resolve(d, False)
        if e:
            return ioerr(e)
        return Ok(Opaque("FileType", phys))

    @P.summary("DirEntry::metadata")
    def _de_md(ctx, c):
        d = deref(c.args[0]).data
        w = ctx.world
        e, phys = w.resolve(d, False)
        if e:
            return ioerr(e)
        return Ok(Opaque("Metadata", phys))

    @P.summary("fs::remove_file", "remove_file")
    def _unlink(ctx, c):
        w = ctx.world
        e, phys = w.resolve(pstr(c.args[0]), False)
        if e:
            return ioerr(e)
        n = w.get(phys)
        if w.fault("unlink", phys):
            return ioerr()
        if w.kind_is(n, DIR, f"ul-dir:{phys}"):
            return ioerr("Other", "EISDIR")
        if not w.parent_writable(phys):
            return ioerr("Other", "EACCES")
        n.kind, n.content = ABSENT, None
        return Ok()

    @P.summary("fs::remove_dir", "remove_dir")
    def _rmdir(ctx, c):
        w = ctx.world
        e, phys = w.resolve(pstr(c.args[0]), False)
        if e:
            return ioerr(e)
        n = w.get(phys)
        if w.fault("rmdir", phys):
            return ioerr()
        if not w.kind_is(n, DIR, f"rm-dir:{phys}"):
            return ioerr("Other", "ENOTDIR")   # also for a symlink to a directory
        for ch in w.children(phys):
            if not w.kind_is(w.get(ch), ABSENT, f"rm-nonempty:{ch}"):
                return ioerr("Other", "ENOTEMPTY")
        if not w.parent_writable(phys):
            return ioerr("Other", "EACCES")
        n.kind = ABSENT
        return Ok()

    def rm_rf(w, phys):
        """std::fs::remove_dir_all on a physical path that is a directory: None on success, else error kind"""
        n = w.get(phys)
        if not w.bit(n, 0o400, f"r:{phys}"):
            return "Other"
        if phys in w.dyn:
            w.dyn[phys].clear()
        for ch in w.children(phys):
            cn = w.get(ch)
            if w.kind_is(cn, ABSENT, f"rra-absent:{ch}"):
                continue
            if w.kind_is(cn, DIR, f"rra-dir:{ch}"):
                e = rm_rf(w, ch)
                if e:
                    return e
            else:
                if not (w.bit(n, 0o200, f"w:{phys}") and w.bit(n, 0o100, f"x:{phys}")):
                    return "Other"
                cn.kind, cn.content = ABSENT, None
        if not w.parent_writable(phys):
            return "Other"
        n.kind = ABSENT
        return None

    @P.summary("fs::remove_dir_all", "remove_dir_all")
    def _rmdir_all(ctx, c):
        w = ctx.world
        e, phys = w.resolve(pstr(c.args[0]), False)
        if e:
            return ioerr(e)
        n = w.get(phys)
        if w.fault("rmtree", phys):
            return ioerr()
        if w.kind_is(n, LINK, f"rra-link:{phys}"):
            if not w.parent_writable(phys):
                return ioerr()
            n.kind = ABSENT      # removes the link itself, never follows it
            return Ok()
        if not w.kind_is(n, DIR, f"rra-isdir:{phys}"):
            return ioerr("Other", "ENOTDIR")
        if phys in w.dyn:
            w.dyn[phys].clear()
        e = rm_rf(w, phys)
        return ioerr(e) if e else Ok()

    @P.summary("fs::create_dir_all", "create_dir_all")
    def _mkdir_p(ctx, c):
        w = ctx.world
        path = pstr(c.args[0])
        e0, phys0 = w.resolve(path, False)
        if e0 is None and w.kind_is(w.get(phys0), LINK, f"mkdirp-link:{phys0}"):
            # mkdir(2) does not follow a symlink in the last component: EEXIST, then std checks is_dir() (which follows)
            e1, phys1 = w.resolve(path, True)
            if e1 is None and w.kind_is(w.get(phys1), DIR, f"mkdirp-linkdir:{phys1}"):
                return Ok()
            return ioerr("Other", "EEXIST")
        e, phys = w.resolve(path, True)
        if e is None:
            if w.kind_is(w.get(phys), DIR, f"mkdirp-isdir:{phys}"):
                return Ok()
            return ioerr("Other", "EEXIST")
        if e == "Other":
            return ioerr()
        if phys is None:
            # a missing intermediate component: create the chain
            comps = [x for x in path.split("/") if x]
            cur = ""
            for x in comps:
                cur = cur + "/" + x
                e2, ph2 = w.resolve(cur, True)
                if e2 == "NotFound" and ph2 is not None:
                    if w.fault("mkdir", ph2):
                        return ioerr()
                    if not w.parent_writable(ph2):
                        return ioerr()
                    nn = w.get(ph2)
                    nn.kind, nn.mode = DIR, 0o755
                    if ph2 in w.dyn_candidates:
                        from .summ_dyn import DynDir
                        w.dyn[ph2] = DynDir()
                elif e2:
                    return ioerr(e2)
                elif not w.kind_is(w.get(ph2), DIR, f"mkdirp-mid:{ph2}"):
                    return ioerr("Other", "ENOTDIR")
            return Ok()
        if w.fault("mkdir", phys):
            return ioerr()
        if not w.parent_writable(phys):
            return ioerr("Other", "EACCES")
        n = w.get(phys)
        n.kind, n.mode = DIR, 0o755
        if phys in w.dyn_candidates:
            from .summ_dyn import DynDir
            w.dyn[phys] = DynDir()
        return Ok()

    @P.summary("fs::create_dir", "create_dir")
    def _mkdir(ctx, c):
        w = ctx.world
        e, phys = w.resolve(pstr(c.args[0]), False)
        if e is None:
            return ioerr("Other", "EEXIST")
        if e == "Other" or phys is None:
            return ioerr(e)
        if w.fault("mkdir", phys):
            return ioerr()
        if not w.parent_writable(phys):
            return ioerr()
        n = w.get(phys)
        n.kind, n.mode = DIR, 0o755
        return Ok()

    @P.summary("fs::write", "std::fs::write")
    def _write(ctx, c):
        w = ctx.world
        target = sval(c.args[0])
        if not isinstance(target, str):
            hook = getattr(w, "sym_write", None)
            if hook:
                return hook(ctx, target, deref(c.args[1]))
            raise Unsupported(f"fs::write to symbolic path {target!r}")
        e, phys = w.resolve(target, True)
        if e == "Other" or (e == "NotFound" and phys is None):
            return ioerr(e)
        n = w.get(phys)
        if w.fault("write", phys):
            return ioerr()
        if e is None:
            if w.kind_is(n, DIR, f"write-isdir:{phys}"):
                return ioerr("Other", "EISDIR")
            if not w.bit(n, 0o200, f"w:{phys}"):
                return ioerr("Other", "EACCES")
        else:
            if not w.parent_writable(phys):
                return ioerr("Other", "EACCES")
            n.mode = 0o644
        n.kind = FILE
        n.content = deref(c.args[1])
        return Ok()

    def read_common(ctx, c, opname):
        w = ctx.world
        target = sval(c.args[0])
        if not isinstance(target, str):
            hook = getattr(w, "sym_read", None)
            if hook:
                return hook(ctx, target)
            raise Unsupported(f"fs::read of symbolic path {target!r}")
        e, phys = w.resolve(target, True)
        if e:
            return ioerr(e), None
        n = w.get(phys)
        if w.fault(opname, phys):
            return ioerr(), None
        if w.kind_is(n, DIR, f"read-isdir:{phys}"):
            return ioerr("Other", "EISDIR"), None
        if not w.bit(n, 0o400, f"r:{phys}"):
            return ioerr("Other", "EACCES"), None
        return None, n

    @P.summary("fs::read_to_string", "read_to_string")
    def _rts(ctx, c):
        r, n = read_common(ctx, c, "read")
        if r is not None and n is None:
            return r
        hook = getattr(ctx.world, "utf8_content", None)
        if hook and not hook(ctx, n):
            return ioerr("Other", "InvalidData")
        return Ok(n.content if n.content is not None else "")

    @P.summary("fs::read", "std::fs::read")
    def _read(ctx, c):
        r, n = read_common(ctx, c, "read")
        if r is not None and n is None:
            return r
        return Ok(n.content if n.content is not None else "")

    @P.summary("fs::copy", "std::fs::copy")
    def _copy(ctx, c):
        w = ctx.world
        e, src = w.resolve(pstr(c.args[0]), True)
        if e:
            return ioerr(e)
        sn = w.get(src)
        if w.fault("copy", src):
            return ioerr()
        if not w.kind_is(sn, FILE, f"copy-src-file:{src}"):
            return ioerr("Other", "not a regular file")
        e, dst = w.resolve(pstr(c.args[1]), True)
        if e == "Other" or (e == "NotFound" and dst is None):
            return ioerr(e)
        dn = w.get(dst)
        if e is None and w.kind_is(dn, DIR, f"copy-dst-dir:{dst}"):
            return ioerr("Other", "EISDIR")
        if e is not None and not w.parent_writable(dst):
            return ioerr()
        dn.kind, dn.content, dn.mode = FILE, sn.content, sn.mode
        return Ok(0)

    @P.summary("fs::rename", "std::fs::rename")
    def _rename(ctx, c):
        w = ctx.world
        e, src = w.resolve(pstr(c.args[0]), False)
        if e:
            return ioerr(e)
        e2, dst = w.resolve(pstr(c.args[1]), False)
        if e2 == "Other" or dst is None:
            return ioerr(e2 or "Other")
        if w.fault("rename", src):
            return ioerr()
        sn, dn = w.get(src), w.get(dst)
        if not isinstance(sn.kind, int) or sn.kind == DIR:
            raise Unsupported("rename of a directory / symbolic kind")
        dn.kind, dn.content, dn.mode, dn.targets, dn.sel = sn.kind, sn.content, sn.mode, sn.targets, sn.sel
        sn.kind, sn.content = ABSENT, None
        return Ok()

    @P.summary("unix::fs::symlink", "fs::symlink", "symlink")
    def _symlink(ctx, c):
        w = ctx.world
        target, link = pstr(c.args[0]), pstr(c.args[1])
        e, phys = w.resolve(link, False)
        if e is None:
            return ioerr("Other", "EEXIST")
        if e == "Other" or phys is None:
            return ioerr(e)
        if w.fault("symlink", phys):
            return ioerr()
        if not w.parent_writable(phys):
            return ioerr()
        n = w.get(phys)
        n.kind, n.targets, n.sel = LINK, [target], 0
        return Ok()

    @P.summary("fs::canonicalize", "Path::canonicalize")
    def _canon(ctx, c):
        w = ctx.world
        e, phys = w.resolve(pstr(c.args[0]), True)
        if e:
            return ioerr(e)
        return Ok(phys)

    # ------------------------------------------------------------------ std::fs::File / BufWriter (explicit handles)
    class FileV:
        type_tag = "File"

        def __init__(self, phys, writable):
            self.phys, self.writable, self.closed = phys, writable, False

    class BufWriterV:
        """io::BufWriter over a FileV: bytes stay in memory until flush / drop (documents here are far below 8 KiB);
        Drop flushes and *discards* any error"""
        type_tag = "BufWriter"

        def __init__(self, inner):
            self.inner, self.buf, self.flushed = inner, [], True

        def on_drop(self, ctx):
            if not self.flushed:
                do_flush(ctx, self)

    def data_write(ctx, f, data):
        w = ctx.world
        if w.fault("write-data", f.phys):
            return ioerr()
        n = w.get(f.phys)
        n.content = data if not isinstance(n.content, str) or n.content == "" else data
        return Ok()

    def do_flush(ctx, bw):
        if bw.flushed:
            return Ok()
        bw.flushed = True
        data = bw.buf[-1] if len(bw.buf) == 1 else (concat([sval(x) for x in bw.buf]) if bw.buf else "")
        bw.buf = []
        return data_write(ctx, bw.inner, data)

    @P.summary("File::create", "File::create_new")
    def _fcreate(ctx, c):
        w = ctx.world
        target = pstr(c.args[0])
        e, phys = w.resolve(target, True)
        if e == "Other" or (e == "NotFound" and phys is None):
            return ioerr(e)
        n = w.get(phys)
        if w.fault("write", phys):
            return ioerr()
        if e is None:
            if w.kind_is(n, DIR, f"create-isdir:{phys}"):
                return ioerr("Other", "EISDIR")
            if c.key.endswith("create_new"):
                return ioerr("Other", "EEXIST")
            if not w.bit(n, 0o200, f"w:{phys}"):
                return ioerr("Other", "EACCES")
        else:
            if not w.parent_writable(phys):
                return ioerr("Other", "EACCES")
            n.mode = 0o644
        n.kind, n.content = FILE, ""        # O_TRUNC
        return Ok(FileV(phys, True))

    @P.summary("File::open")
    def _fopen(ctx, c):
        w = ctx.world
        e, phys = w.resolve(pstr(c.args[0]), True)
        if e:
            return ioerr(e)
        n = w.get(phys)
        if w.fault("read", phys):
            return ioerr()
        if not w.bit(n, 0o400, f"r:{phys}"):
            return ioerr("Other", "EACCES")
        return Ok(FileV(phys, False))

    @P.summary("BufWriter::new", "BufWriter::with_capacity", "LineWriter::new")
    def _bw_new(ctx, c):
        return BufWriterV(deref(c.args[-1]))

    @P.summary("BufWriter::into_inner")
    def _bw_into_inner(ctx, c):
        bw = deref(c.args[0])
        r = do_flush(ctx, bw)
        if r.variant == "Err":
            return Err(Opaque("IntoInnerError", r.fields[0]))
        return Ok(bw.inner)

    @P.summary("BufWriter::get_ref", "BufWriter::get_mut")
    def _bw_get(ctx, c):
        return Ref(Box(deref(c.args[0]).inner))

    def file_write(ctx, c, all_):
        wv, data = deref(c.args[0]), deref(c.args[1])
        if isinstance(wv, BufWriterV):
            wv.buf.append(data)
            wv.flushed = False
            return Ok(UNIT) if all_ else Ok(0)
        if isinstance(wv, FileV):
            r = data_write(ctx, wv, data)
            return r if (all_ or r.variant == "Err") else Ok(0)
        return None
    P.file_write = file_write

    @P.summary("Write::write_all", "Write::write", "Write::write_fmt")
    def _w_write_all(ctx, c):
        r = file_write(ctx, c, not c.key.endswith("::write"))
        if r is None:
            raise Unsupported(f"Write on {deref(c.args[0])!r}")
        return r

    @P.summary("Write::flush")
    def _w_flush(ctx, c):
        wv = deref(c.args[0])
        if isinstance(wv, BufWriterV):
            return do_flush(ctx, wv)
        return Ok()

    @P.summary("File::sync_all", "File::sync_data", "File::set_permissions")
    def _f_sync(ctx, c):
        return Ok()

    @P.summary("Read::read_to_string", "Read::read_to_end")
    def _r_rts(ctx, c):
        f = deref(c.args[0])
        if isinstance(f, FileV):
            n = ctx.world.get(f.phys)
            buf = c.args[1]
            while isinstance(buf.get(), Ref):
                buf = buf.get()
            buf.set(n.content if n.content is not None else "")
            return Ok(0)
        raise Unsupported("Read on " + repr(f))

    # ------------------------------------------------------------------ io::Error
    @P.summary("io::Error::kind", "Error::kind", "std::io::Error::kind")
    def _kind(ctx, c):
        e = deref(c.args[0])
        return Adt("ErrorKind", e.kind if e.kind == "NotFound" else "Other", [])

    @P.summary("io::Error::new", "Error::new", "io::Error::other", "Error::other")
    def _enew(ctx, c):
        return IoError("Other", "constructed")

    # ------------------------------------------------------------------ process environment
    @P.summary("env::var", "var")
    def _env_var(ctx, c):
        name = sval(c.args[0])
        v = ctx.world.env.get(name)
        if v is None:
            return Err(Opaque("VarError", "NotPresent"))
        if isinstance(v, tuple):      # (present Bool, value)
            if ctx.branch(v[0], f"env:{name}"):
                return Ok(v[1])
            return Err(Opaque("VarError", "NotPresent"))
        return Ok(v)

    @P.summary("env::var_os", "var_os")
    def _env_var_os(ctx, c):
        r = _env_var(ctx, c)
        return Some(r.fields[0]) if r.variant == "Ok" else NONE

    @P.summary("env::current_dir", "current_dir")
    def _cwd(ctx, c):
        return Ok(ctx.world.cwd)
