"""Translate the `fancy_regex` literals used by libcnb.rs into z3 regular expressions.

Supported: ^ $ anchors (whole-string; unanchored ends are padded with .* as `is_match` searches), literals, escapes,
`.` (any char but \\n), classes with ranges / negation / POSIX names (ASCII, as in the `regex` crate), groups, `|`,
`* + ?`, `{m}`/`{m,n}`, `(?s)`/`(?i)`-free patterns, and a negative look-ahead of the shape `(?!ALT$)` directly after `^`
(intersection with a complement).  Anything else raises Unsupported -> the check is inconclusive, never guessed.
"""
from . import smt as z3
from .core import Unsupported

_POSIX = {
    "alnum": [("0", "9"), ("A", "Z"), ("a", "z")], "alpha": [("A", "Z"), ("a", "z")], "digit": [("0", "9")],
    "upper": [("A", "Z")], "lower": [("a", "z")], "xdigit": [("0", "9"), ("A", "F"), ("a", "f")],
    "word": [("0", "9"), ("A", "Z"), ("a", "z"), ("_", "_")], "space": [(" ", " "), ("\t", "\r")],
    "punct": [("!", "/"), (":", "@"), ("[", "`"), ("{", "~")],
}
_ESC = {"n": "\n", "t": "\t", "r": "\r", "0": "\0"}


def _sort():
    return z3.ReSort(z3.StringSort())


def allchar():
    return z3.AllChar()


def char_range(a, b):
    return z3.Re(a) if a == b else z3.Range(a, b)


def union(xs):
    xs = list(xs)
    if not xs:
        return z3.EmptyRe()
    return xs[0] if len(xs) == 1 else z3.Union(*xs)


class _P:
    def __init__(self, s):
        self.s, self.i = s, 0
        self.dotall = False

    def peek(self, k=1):
        return self.s[self.i:self.i + k]

    def eof(self):
        return self.i >= len(self.s)

    def alt(self):
        branches = [self.seq()]
        while self.peek() == "|":
            self.i += 1
            branches.append(self.seq())
        return union(branches)

    def seq(self):
        items = []
        while not self.eof() and self.peek() not in ("|", ")"):
            if self.peek() == "$":
                break
            items.append(self.quant())
        if not items:
            return z3.Re("")
        return items[0] if len(items) == 1 else z3.Concat(*items)

    def quant(self):
        a = self.atom()
        while not self.eof():
            c = self.peek()
            if c == "*":
                self.i += 1
                a = z3.Star(a)
            elif c == "+":
                self.i += 1
                a = z3.Plus(a)
            elif c == "?":
                self.i += 1
                a = z3.Option(a)
            elif c == "{":
                j = self.s.index("}", self.i)
                body = self.s[self.i + 1:j]
                self.i = j + 1
                if "," in body:
                    lo, hi = body.split(",")
                    lo = int(lo)
                    a = z3.Loop(a, lo, int(hi)) if hi.strip() else z3.Concat(z3.Loop(a, lo, lo), z3.Star(a)) if lo else z3.Star(a)
                else:
                    a = z3.Loop(a, int(body), int(body))
            else:
                break
            if self.peek() in ("?", "+") and self.s[self.i - 1] in "*+?}":
                raise Unsupported("lazy/possessive quantifier in regex " + self.s)
        return a

    def atom(self):
        c = self.peek()
        if c == "(":
            if self.peek(2) == "(?":
                if self.peek(3) == "(?:":
                    self.i += 3
                else:
                    raise Unsupported("regex group construct at %d in %s" % (self.i, self.s))
            else:
                self.i += 1
            r = self.alt()
            if self.peek() != ")":
                raise Unsupported("unbalanced regex " + self.s)
            self.i += 1
            return r
        if c == "[":
            return self.cls()
        if c == ".":
            self.i += 1
            return allchar() if self.dotall else z3.Diff(allchar(), z3.Re("\n"))
        if c == "\\":
            self.i += 1
            e = self.peek()
            self.i += 1
            if e == "d":
                return char_range("0", "9")
            if e == "w":
                return union(char_range(a, b) for a, b in _POSIX["word"])
            if e == "s":
                return union(char_range(a, b) for a, b in _POSIX["space"])
            if e in "DWSbBAzZpPxuk123456789":
                raise Unsupported("regex escape \\" + e)
            return z3.Re(_ESC.get(e, e))
        if c in "^$*+?{":
            raise Unsupported(f"regex meta {c!r} at {self.i} in {self.s}")
        self.i += 1
        return z3.Re(c)

    def cls(self):
        assert self.peek() == "["
        self.i += 1
        neg = False
        if self.peek() == "^":
            neg = True
            self.i += 1
        parts = []
        first = True
        while True:
            if self.eof():
                raise Unsupported("unterminated class in " + self.s)
            c = self.peek()
            if c == "]" and not first:
                self.i += 1
                break
            first = False
            if self.peek(2) == "[:":
                j = self.s.index(":]", self.i)
                name = self.s[self.i + 2:j]
                self.i = j + 2
                if name not in _POSIX:
                    raise Unsupported("posix class " + name)
                parts += [char_range(a, b) for a, b in _POSIX[name]]
                continue
            if c == "[" or self.peek(2) in ("&&", "--", "~~"):
                raise Unsupported("nested class / set operation in " + self.s)
            lo = self._cls_char()
            if isinstance(lo, list):
                parts += lo
                continue
            if self.peek() == "-" and self.peek(2) != "-]" and self.s[self.i + 1] != "]":
                self.i += 1
                hi = self._cls_char()
                if isinstance(hi, list) or ord(hi) < ord(lo):
                    raise Unsupported("class range in " + self.s)
                parts.append(char_range(lo, hi))
            else:
                parts.append(z3.Re(lo))
        r = union(parts)
        return z3.Diff(allchar(), r) if neg else r

    def _cls_char(self):
        c = self.peek()
        self.i += 1
        if c == "\\":
            e = self.peek()
            self.i += 1
            if e == "d":
                return [char_range("0", "9")]
            if e == "w":
                return [char_range(a, b) for a, b in _POSIX["word"]]
            if e == "s":
                return [char_range(a, b) for a, b in _POSIX["space"]]
            if e in "DWSpPxu":
                raise Unsupported("class escape \\" + e)
            return _ESC.get(e, e)
        return c


def to_z3(pattern):
    """z3 regex R with: Regex::new(pattern).is_match(s)  <=>  InRe(s, R)"""
    p = _P(pattern)
    if p.peek(4) == "(?s)":
        p.dotall = True
        p.i += 4
    anchored_start = False
    if p.peek() == "^":
        anchored_start = True
        p.i += 1
    if p.peek(4) == "(?s)":
        p.dotall = True
        p.i += 4
    look = None
    if p.peek(3) == "(?!":
        if not anchored_start:
            raise Unsupported("look-ahead not directly after ^ in " + pattern)
        p.i += 3
        inner = p.alt()
        if p.peek(2) != "$)":
            raise Unsupported("look-ahead must end with $ in " + pattern)
        p.i += 2
        look = inner
    body = p.alt()
    anchored_end = False
    if p.peek() == "$":
        anchored_end = True
        p.i += 1
    if not p.eof():
        raise Unsupported(f"regex tail {pattern[p.i:]!r} in {pattern}")
    anyc = z3.Star(allchar())
    if not anchored_end:
        body = z3.Concat(body, anyc)
    if look is not None:
        body = z3.Intersect(z3.Complement(look), body)
    if not anchored_start:
        body = z3.Concat(anyc, body)
    return body
