import re, os
def scan_enums(root):
    out = {}
    for dp, dn, fn in os.walk(root):
        if '/target' in dp or '/.git' in dp: continue
        for f in fn:
            if not f.endswith('.rs'): continue
            src = open(os.path.join(dp, f)).read()
            for m in re.finditer(r'\benum\s+(\w+)\s*(?:<[^{]*>)?\s*(?:where[^{]*)?\{', src):
                name = m.group(1)
                i = m.end(); depth = 1; j = i
                while depth and j < len(src):
                    if src[j] == '{': depth += 1
                    elif src[j] == '}': depth -= 1
                    j += 1
                body = src[i:j-1]
                # strip comments/attributes and nested braces/parens
                body = re.sub(r'//[^\n]*', '', body)
                body = re.sub(r'#\[[^\]]*\]', '', body, flags=re.S)
                flat = []; d = 0
                for ch in body:
                    if ch in '({[': d += 1
                    elif ch in ')}]': d -= 1
                    elif d == 0: flat.append(ch)
                vs = [v.strip().split('=')[0].strip() for v in ''.join(flat).split(',') if v.strip()]
                vs = [v for v in vs if re.fullmatch(r'\w+', v)]
                if vs: out.setdefault(name, []).append(vs)
    return out
if __name__ == '__main__':
    e = scan_enums('/repo/libcnb'); print(e)


def scan_structs(root):
    """struct name -> list of candidate field-name lists (named-field structs), from source"""
    out = {}
    for dp, dn, fn in os.walk(root):
        if '/target' in dp or '/.git' in dp:
            continue
        for f in fn:
            if not f.endswith('.rs'):
                continue
            src = open(os.path.join(dp, f)).read()
            src = re.sub(r'//[^\n]*', '', src)
            for m in re.finditer(r'\bstruct\s+(\w+)\s*(?:<[^{;(]*>)?\s*(?:where[^{]*)?\{', src):
                name = m.group(1)
                i = m.end(); depth = 1; j = i
                while depth and j < len(src):
                    if src[j] == '{': depth += 1
                    elif src[j] == '}': depth -= 1
                    j += 1
                body = re.sub(r'#\[[^\]]*\]', '', src[i:j - 1], flags=re.S).replace('->', '  ')
                flat = []; d = 0
                for ch in body:
                    if ch in '({[<': d += 1
                    elif ch in ')}]>' : d -= 1
                    elif d == 0: flat.append(ch)
                fields = []
                for part in ''.join(flat).split(','):
                    mm = re.match(r'\s*(?:pub(?:\s*\([^)]*\))?\s+)?(?:r#)?(\w+)\s*:', part)
                    if mm:
                        fields.append(mm.group(1))
                if fields:
                    out.setdefault(name, []).append(fields)
    return out


def scan_type_info(root):
    """(struct generic defaults, type aliases): {(Struct, Param): default text}, {Alias: text}"""
    defaults, aliases = {}, {}
    for dp, dn, fn in os.walk(root):
        if '/target' in dp or '/.git' in dp:
            continue
        for f in fn:
            if not f.endswith('.rs'):
                continue
            src = open(os.path.join(dp, f)).read()
            for m in re.finditer(r'\b(?:struct|enum)\s+(\w+)\s*<([^>{;]*)>', src):
                for prm in m.group(2).split(','):
                    mm = re.match(r'\s*(\w+)\s*(?::[^=]*)?=\s*(.+)', prm)
                    if mm:
                        defaults[(m.group(1), mm.group(1))] = mm.group(2).strip()
            for m in re.finditer(r'\btype\s+(\w+)\s*=\s*([^;]+);', src):
                aliases[m.group(1)] = m.group(2).strip()
    return defaults, aliases
