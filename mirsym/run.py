"""Check runner: MIR dump from /repo's working tree, solver queries with statistics, witness replay
against the real build, known-finding classification, evidence file and exit codes.

exit 0 = every obligation discharged within the stated bounds (KNOWN-FINDING lines allowed)
exit 1 = a solver counterexample that reproduces on the real build and is not a listed finding
exit 2 = inconclusive (unsupported construct, solver unknown/time-out, engine/real mismatch)
"""
import hashlib
import json
import os
import subprocess
import sys
import tempfile
import time
import traceback

from . import smt as z3
from .core import Program, Unsupported, BoundExceeded, explore
from .enums import scan_enums, scan_structs, scan_type_info

VERIF = os.path.dirname(os.path.dirname(os.path.abspath(__file__)))
REPO = os.environ.get("VERIF_REPO", "/repo")
WORK = os.path.join(VERIF, ".work")
MIR_TARGET = os.path.join(WORK, "target-mir")
REPLAY_TARGET = os.path.join(WORK, "target-replay")

CRATE_DIRS = {
    "libcnb-data": "libcnb-data", "libcnb-common": "libcnb-common", "libcnb": "libcnb",
    "libcnb-package": "libcnb-package", "libcnb-test": "libcnb-test",
    "libherokubuildpack": "libherokubuildpack", "libcnb-proc-macros": "libcnb-proc-macros",
    "libcnb-cargo": "libcnb-cargo",
}


class Inconclusive(Exception):
    pass


class SeedDone(Exception):
    """raised in the parent process once the first exploration of a sharded harness has been seeded"""


def _env():
    e = dict(os.environ)
    e["CARGO_NET_OFFLINE"] = "true"
    e.pop("RUSTFLAGS", None)
    return e


def dump_mir(crate, outdir, log):
    """MIR text of `crate` as compiled from /repo's current working tree (nightly, -Zunpretty=mir)."""
    os.makedirs(outdir, exist_ok=True)
    out = os.path.join(outdir, crate + ".mir")
    if os.environ.get("VERIF_REUSE_MIR") and os.path.exists(out):
        return out      # shard worker: the parent process dumped it from the current tree moments ago
    env = _env()
    env["CARGO_TARGET_DIR"] = MIR_TARGET
    t0 = time.time()
    if crate == "petgraph":
        pkg, kind = ["-p", "petgraph"], ["--lib"]
    elif crate == "libcnb-cargo":
        pkg, kind = ["-p", "libcnb-cargo"], ["--bin", "cargo-libcnb"]
    else:
        pkg, kind = ["-p", crate], ["--lib"]
    manifest = ["--manifest-path", os.path.join(REPO, "Cargo.toml")]
    subprocess.run(["cargo", "+nightly", "clean", "--offline"] + manifest + pkg, env=env,
                   stdout=subprocess.DEVNULL, stderr=subprocess.DEVNULL)
    cmd = ["cargo", "+nightly", "rustc", "--offline"] + manifest + pkg + kind + \
          ["--", "-Zunpretty=mir", "-C", "debug-assertions=off", "-C", "overflow-checks=on"]
    r = subprocess.run(cmd, env=env, capture_output=True, text=True)
    if r.returncode != 0 or not r.stdout.strip():
        raise Inconclusive(f"MIR dump of {crate} failed (rc={r.returncode}): {r.stderr[-800:]}")
    with open(out, "w") as f:
        f.write(r.stdout)
    log(f"mir {crate}: {r.stdout.count(chr(10))} lines in {time.time() - t0:.1f}s")
    return out


class Replay:
    """wrapper around the Rust replay driver (built from /repo's working tree, public API only)"""
    def __init__(self, log):
        self.log = log
        self.built = False
        self.bin = os.path.join(REPLAY_TARGET, "debug", "replay")

    def build(self):
        if self.built:
            return
        if os.environ.get("VERIF_REUSE_MIR") and os.path.exists(self.bin):
            self.built = True      # shard worker: built by the parent process
            return
        t0 = time.time()
        env = _env()
        env["CARGO_TARGET_DIR"] = REPLAY_TARGET
        lock_src = os.path.join(REPO, "Cargo.lock")
        r = subprocess.run(["cargo", "build", "--offline", "--manifest-path", os.path.join(VERIF, "replay", "Cargo.toml")],
                           env=env, capture_output=True, text=True)
        if r.returncode != 0:
            raise Inconclusive("replay driver does not build against /repo: " + r.stderr[-1500:])
        self.built = True
        self.log(f"replay driver built in {time.time() - t0:.1f}s")

    def build_cargo_libcnb(self):
        """the real `cargo-libcnb` binary from /repo's working tree (C15's replay); path exported to the driver"""
        env = _env()
        tdir = os.path.join(WORK, "target-cargo-libcnb")
        env["CARGO_TARGET_DIR"] = tdir
        r = subprocess.run(["cargo", "build", "--offline", "-p", "libcnb-cargo", "--manifest-path", os.path.join(REPO, "Cargo.toml")], env=env, capture_output=True, text=True)
        if r.returncode != 0:
            raise Inconclusive("cargo-libcnb does not build: " + r.stderr[-800:])
        os.environ["VERIF_CARGO_LIBCNB"] = os.path.join(tdir, "debug", "cargo-libcnb")
        cargo = subprocess.run(["sh", "-c", "command -v cargo"], capture_output=True, text=True).stdout.strip()
        os.environ["VERIF_CARGO"] = cargo or "cargo"

    def run_faulty(self, request, fault, timeout=60):
        """one request in its own process with the LD_PRELOAD fault injector: fault = 'op:path-suffix:n'"""
        self.build()
        shim = os.path.join(WORK, "faultshim.so")
        src = os.path.join(VERIF, "faultshim", "faultshim.c")
        if not os.path.exists(shim) or os.path.getmtime(shim) < os.path.getmtime(src):
            r = subprocess.run(["cc", "-shared", "-fPIC", "-O1", "-o", shim, src, "-ldl"], capture_output=True, text=True)
            if r.returncode != 0:
                raise Inconclusive("fault injector does not build: " + r.stderr[-400:])
        env = _env()
        env["LD_PRELOAD"] = shim
        env["VERIF_FAULT"] = fault
        p = subprocess.run([self.bin], input=json.dumps(request) + "\n", capture_output=True, text=True, timeout=timeout, env=env)
        lines = [l for l in p.stdout.split("\n") if l.strip()]
        if len(lines) != 1:
            raise Inconclusive(f"faulty replay gave no answer: {p.stderr[-300:]}")
        return json.loads(lines[0])

    def run(self, requests, timeout=600, unprivileged=False):
        """requests: list of dict -> list of dict (one answer per request).  unprivileged: drop to uid/gid nobody when the
        check itself runs as root, so that permission bits mean what they mean for a buildpack (root bypasses them)"""
        if not requests:
            return []
        if len(requests) > 400:
            # batches: the timeout is per batch, and one batch's failure names a bounded set of requests
            out = []
            for i in range(0, len(requests), 400):
                out += self.run(requests[i:i + 400], timeout=timeout, unprivileged=unprivileged)
            return out
        self.build()
        inp = "\n".join(json.dumps(r) for r in requests) + "\n"
        pre = None
        env = _env()
        if unprivileged and os.geteuid() == 0:
            def pre():
                os.setgroups([])
                os.setgid(65534)
                os.setuid(65534)
            env["TMPDIR"] = "/tmp"
            env["HOME"] = "/tmp"
        p = subprocess.run([self.bin], input=inp, capture_output=True, text=True, timeout=timeout, env=env, preexec_fn=pre)
        lines = [l for l in p.stdout.split("\n") if l.strip()]
        if len(lines) != len(requests):
            if os.environ.get("VERIF_DEBUG"):
                with open(os.path.join(WORK, "last-failed-requests.jsonl"), "w") as fdbg:
                    fdbg.write(inp)
            raise Inconclusive(f"replay driver answered {len(lines)} of {len(requests)} requests: {p.stderr[-500:]}")
        return [json.loads(l) for l in lines]


def enc_str(s):
    """string -> list of code points (JSON transport that survives control characters)"""
    return [ord(c) for c in s]


def _tokens(text):
    i, n = 0, len(text)
    while i < n:
        c = text[i]
        if c.isspace():
            i += 1
        elif c in "()":
            yield c
            i += 1
        elif c == '"':
            j = i + 1
            buf = []
            while True:
                if text[j] == '"':
                    if j + 1 < n and text[j + 1] == '"':
                        buf.append('"')
                        j += 2
                        continue
                    break
                buf.append(text[j])
                j += 1
            yield ("str", "".join(buf))
            i = j + 1
        else:
            j = i
            while j < n and not text[j].isspace() and text[j] not in "()":
                j += 1
            yield text[i:j]
            i = j


def _sexpr(toks):
    t = next(toks)
    if t == "(":
        out = []
        while True:
            x = _sexpr(toks)
            if x == ")":
                return out
            out.append(x)
    return t


def _unesc(s):
    import re as _re
    s = _re.sub(r"\\u\{([0-9a-fA-F]+)\}", lambda m: chr(int(m.group(1), 16)), s)
    s = _re.sub(r"\\u([0-9a-fA-F]{4})", lambda m: chr(int(m.group(1), 16)), s)
    s = _re.sub(r"\\x([0-9a-fA-F]{2})", lambda m: chr(int(m.group(1), 16)), s)
    return s


def parse_get_value(text):
    """'((s "ab") (n 5) (m (- 3)) (b true))' -> {name: python value}"""
    e = _sexpr(_tokens(text))
    out = {}
    for name, v in e:
        if isinstance(v, tuple):
            out[name] = _unesc(v[1])
        elif isinstance(v, list) and v and v[0] == "-":
            out[name] = -int(v[1])
        elif v in ("true", "false"):
            out[name] = v == "true"
        else:
            out[name] = int(v)
    return out


class Model:
    """uniform access to a satisfying assignment (in-process z3 model or values parsed from an external solver)"""
    def __init__(self, m, vals):
        self.m, self.vals = m, vals

    def _ev(self, t):
        return self.m.eval(t, model_completion=True)

    def str(self, t):
        if isinstance(t, str):
            return t
        if self.m is None:
            return self.vals[str(t)]
        return _unesc(self._ev(t).as_string())

    def int(self, t):
        if isinstance(t, int):
            return t
        if self.m is None:
            return self.vals[str(t)]
        return self._ev(t).as_long()

    def bool(self, t):
        if isinstance(t, bool):
            return t
        if self.m is None:
            return self.vals[str(t)]
        return z3.is_true(self._ev(t))


class Run:
    def __init__(self, prop, tier, seed, shard=None):
        self.prop, self.tier, self.seed, self.shard = prop, tier, seed, shard
        self.t0 = time.time()
        self.mir_dir = os.path.join(WORK, "mir", prop)
        self.scen_dir = os.path.join(WORK, "scenarios", prop)
        os.makedirs(self.scen_dir, exist_ok=True)
        self.replay = Replay(self.log)
        self.stats = dict(paths=0, transitions=0, queries=0, unsat=0, sat=0, solver_s=0.0, validated=0,
                          crosschecked=0, obligations=0)
        self.samples = []
        self.functions = {}
        self.bounds = {}
        self.assumptions = []
        self.outside = []
        self.summaries = set()
        self.candidates = []      # violation candidates
        self.inconclusive = []
        self.extra = {}
        self.by_label = {}
        self.known = self._load_known()
        z3.set_param("smt.random_seed", seed) if hasattr(z3, "set_param") and z3.BACKEND == "z3" else None

    # ------------------------------------------------------------ plumbing
    def log(self, msg):
        tag = self.prop if self.shard is None else f"{self.prop}#{self.shard[0]}"
        print(f"[{tag} {time.time() - self.t0:6.1f}s] {msg}", flush=True)

    def _load_known(self):
        p = os.path.join(VERIF, "known_findings.json")
        if not os.path.exists(p):
            return []
        return [f for f in json.load(open(p)).get("findings", []) if f.get("property") == self.prop]

    def program(self, crates, extra_enums=None, src_crates=None):
        texts = []
        ev = {}
        for c in crates:
            path = dump_mir(c, self.mir_dir, self.log)
            texts.append(open(path).read())
        for c in (src_crates or crates):
            if c in CRATE_DIRS:
                for k, v in scan_enums(os.path.join(REPO, CRATE_DIRS[c], "src")).items():
                    ev.setdefault(k, [])
                    ev[k] = ev[k] + v
        ev.update(extra_enums or {})
        P = Program(texts, enum_variants=ev, src_root=REPO)
        P.run = self
        P.struct_fields, P.type_defaults_src, P.type_aliases = {}, {}, {}
        for c in (src_crates or crates):
            if c in CRATE_DIRS:
                d = os.path.join(REPO, CRATE_DIRS[c], "src")
                for k, v in scan_structs(d).items():
                    P.struct_fields.setdefault(k, []).extend(v)
                dflt, al = scan_type_info(d)
                P.type_defaults_src.update(dflt)
                P.type_aliases.update(al)
        return P

    def encoded(self, P, names):
        """record the MIR functions a harness executes (name -> sha1 of the MIR body text)"""
        for n in names:
            f = P.funcs.get(n)
            if f is None:
                continue
            self.functions[f.name] = hashlib.sha1(repr([(b, [s.text for s in blk.stmts], blk.term.text if blk.term else "")
                                                         for b, blk in f.blocks.items()]).encode()).hexdigest()[:12]

    def explore(self, P, entry, make_args, world_factory=None, bound_ok=False, **kw):
        """bound_ok: the harness itself proves that paths ending in BoundExceeded are infeasible under its input bounds"""
        self.explore_calls = getattr(self, "explore_calls", 0) + 1
        seed_file = os.path.join(self.scen_dir, f"seed-{self.explore_calls}.json")
        if getattr(self, "seed_mode", None):
            sd = explore(P, entry, make_args, world_factory, seed_only=8 * self.seed_mode, **kw)
            with open(seed_file, "w") as f:
                json.dump(sd, f)
            raise SeedDone()
        seed = None
        if self.shard is not None and os.path.exists(seed_file) and os.environ.get("VERIF_REUSE_MIR"):
            seed = json.load(open(seed_file))
        res = explore(P, entry, make_args, world_factory, shard=self.shard, seed=seed, **kw)
        self.stats["paths"] += len(res)
        for ctx, out in res:
            self.stats["transitions"] += ctx.steps
            for fn in ctx.called:
                self.functions.setdefault(fn, "")
            self.summaries |= ctx.summ_used
            self.stats["unknown_feasibility"] = self.stats.get("unknown_feasibility", 0) + ctx.unknown_feasibility
            if out[0] == "bound" and not bound_ok:
                self.inconclusive.append(f"bound exceeded on a feasible path: {out[1]}")
        return res

    # ------------------------------------------------------------ solver
    def check(self, assertions, label="", timeout_ms=30000, want=(), ext_timeout_s=60.0, soft=None):
        """decide satisfiability of a list of terms -> ('sat', Model) | ('unsat', None).
        z3 in-process first; on `unknown` (or, in the thorough tier, to confirm `unsat`) the SMT-LIB text goes to
        cvc5 1.0 and z3 4.8.12; no definite answer -> Inconclusive.  `want`: terms whose values are needed from the model."""
        so = z3.new_solver(timeout_ms, self.seed)
        for a in assertions:
            so.add(a if not isinstance(a, bool) else z3.BoolVal(a))
        t0 = time.time()
        r = z3.guarded_check(so, timeout_ms=timeout_ms)
        dt = time.time() - t0
        self.stats["solver_s"] += dt
        self.stats["queries"] += 1
        lab = self.by_label.setdefault(label, [0, 0.0])
        lab[0] += 1
        lab[1] += dt
        if dt > 5:
            self.log(f"slow query {label}: {dt:.1f}s -> {r}")
        ans = str(r)
        if ans not in ("sat", "unsat"):
            ans2, vals = self.portfolio(so, ext_timeout_s, want)
            if ans2 == "unsat":
                self.stats["unsat"] += 1
                return "unsat", None
            if ans2 == "sat" and vals is not None:
                self.stats["sat"] += 1
                return "sat", Model(None, vals)
            if not (soft if soft is not None else label.endswith("witness")):
                # last resort before giving up on a deciding query: fresh z3 instances with other seeds and twice the time
                for extra_seed in (self.seed + 101, self.seed + 202):
                    so2 = z3.new_solver(2 * timeout_ms, extra_seed)
                    for a in assertions:
                        so2.add(a if not isinstance(a, bool) else z3.BoolVal(a))
                    t1 = time.time()
                    r2 = str(z3.guarded_check(so2, timeout_ms=2 * timeout_ms))
                    self.stats["solver_s"] += time.time() - t1
                    self.stats["retries"] = self.stats.get("retries", 0) + 1
                    if r2 in ("sat", "unsat"):
                        self.stats[r2] += 1
                        self.log(f"query {label}: decided ({r2}) on retry with seed {extra_seed}")
                        return r2, (Model(so2.model(), None) if r2 == "sat" else None)
            if soft if soft is not None else label.endswith("witness"):
                # a witness only feeds engine validation / vacuity sampling: no verdict depends on it
                self.stats["witness_unknown"] = self.stats.get("witness_unknown", 0) + 1
                return "unknown", None
            raise Inconclusive(f"solver answered {ans}/{ans2} on query {label}")
        if ans == "unsat" and self.tier == "thorough" and z3.BACKEND == "z3":
            ans2, _ = self.portfolio(so, min(timeout_ms / 1000.0, 20.0), ())
            if ans2 == "sat":
                raise Inconclusive(f"solver disagreement on query {label}: z3=unsat external=sat")
            if ans2 == "unsat":
                self.stats["crosschecked"] += 1
        self.stats[ans] += 1
        return ans, (Model(so.model(), None) if ans == "sat" else None)

    def portfolio(self, so, timeout_s, want=()):
        """external solvers on the SMT-LIB text: cvc5 1.0 and z3 4.8.12 -> ('sat'|'unsat'|'unknown', values|None)"""
        try:
            text = z3.to_smt2(so)
        except Exception:
            return "unknown", None
        names = [str(w) for w in want]
        text = "(set-option :produce-models true)\n" + text
        if names:
            text += "\n(get-value (" + " ".join(names) + "))\n"
        with tempfile.NamedTemporaryFile("w", suffix=".smt2", delete=False, dir=WORK) as f:
            f.write(text)
            fn = f.name
        t0 = time.time()
        procs = [(n, subprocess.Popen(cmd + [fn], stdout=subprocess.PIPE, stderr=subprocess.PIPE, text=True)) for n, cmd in
                 (("cvc5", ["cvc5", "--lang", "smt2", "--strings-exp", "--produce-models"]), ("z3-4.8", ["/usr/bin/z3"]))]
        answers, outs = {}, {}
        while time.time() - t0 < timeout_s and len(answers) < len(procs):
            for n, p in procs:
                if n not in answers and p.poll() is not None:
                    out = p.stdout.read()
                    lines = [l for l in out.strip().split("\n") if l and not l.startswith("(error \"line") or "get-value" not in l]
                    first = out.strip().split("\n")[0] if out.strip() else ""
                    answers[n] = first if first in ("sat", "unsat") else ("error" if "(error" in out else first)
                    outs[n] = out
            if any(a in ("sat", "unsat") for a in answers.values()):
                break
            time.sleep(0.01)
        for n, p in procs:
            if p.poll() is None:
                p.kill()
        os.unlink(fn)
        self.stats["solver_s"] += time.time() - t0
        defs = set(a for a in answers.values() if a in ("sat", "unsat"))
        if len(defs) != 1:
            return "unknown", None
        ans = defs.pop()
        vals = None
        if ans == "sat" and names:
            for n, a in answers.items():
                if a == "sat":
                    try:
                        vals = parse_get_value(outs[n].split("\n", 1)[1])
                        break
                    except Exception:
                        vals = None
        elif ans == "sat":
            vals = {}
        return ans, vals

    # ------------------------------------------------------------ verdicts
    def obligation(self, n=1):
        self.stats["obligations"] += n

    def sample(self, s, limit=12):
        if len(self.samples) < limit:
            self.samples.append(s)

    def candidate(self, signature, what, scenario, reproduced, detail=None):
        """a solver counterexample. `reproduced`: True (confirmed on the real build), False (not reproduced ->
        engine mismatch -> inconclusive)."""
        self.candidates.append(dict(signature=signature, what=what, scenario=scenario, reproduced=reproduced, detail=detail))

    def mismatch(self, what):
        self.inconclusive.append("ENGINE-MISMATCH " + what)

    def dump_partial(self, path):
        d = dict(stats=self.stats, samples=self.samples, functions=self.functions, summaries=sorted(self.summaries),
                 candidates=self.candidates, inconclusive=self.inconclusive, extra=self.extra, by_label=self.by_label)
        with open(path, "w") as f:
            json.dump(d, f, default=str)

    def merge_partial(self, path):
        d = json.load(open(path))
        for k, v in d["stats"].items():
            self.stats[k] = self.stats.get(k, 0) + v
        for smp in d["samples"]:
            self.sample(smp, limit=16)
        self.functions.update(d["functions"])
        self.summaries |= set(d["summaries"])
        self.candidates += d["candidates"]
        self.inconclusive += d["inconclusive"]
        for k, v in d["extra"].items():
            if isinstance(v, dict) and all(isinstance(x, (int, float)) for x in v.values()):
                cur = self.extra.setdefault(k, {})
                for kk, vv in v.items():
                    cur[kk] = cur.get(kk, 0) + vv
            else:
                self.extra.setdefault(k, v)
        for k, (n, t) in d["by_label"].items():
            cur = self.by_label.setdefault(k, [0, 0.0])
            cur[0] += n
            cur[1] += t

    def finish(self):
        violations, known_hits = [], {}
        for c in self.candidates:
            if not c["reproduced"]:
                self.inconclusive.append(f"counterexample did not reproduce on the real build: {c['signature']} {c['what']}")
                continue
            k = next((f for f in self.known if f["signature"] == c["signature"]), None)
            if k:
                known_hits.setdefault(k["signature"], (k, c))
            else:
                violations.append(c)
        for sig, (k, c) in known_hits.items():
            print(f"KNOWN-FINDING: property={self.prop} {sig}: {k['what']} (e.g. {c['what']})")
        seen = set()
        for c in violations:
            if c["signature"] in seen:
                continue
            seen.add(c["signature"])
            path = os.path.join(self.scen_dir, f"violation-{len(seen)}.json")
            with open(path, "w") as f:
                json.dump(dict(property=self.prop, signature=c["signature"], what=c["what"], scenario=c["scenario"], detail=c["detail"]), f, indent=1, default=str)
            print(f"VIOLATION property={self.prop} replay={path}")
            print(f"  {c['signature']}: {c['what']}")
        for i in sorted(set(self.inconclusive))[:20]:
            print(f"INCONCLUSIVE property={self.prop} reason={i[:400]}")
        code = 1 if violations else (2 if self.inconclusive else 0)
        self.write_evidence(len(seen), code, [s for s in known_hits])
        if os.environ.get("VERIF_DEBUG"):
            for lab, (n, t) in sorted(self.by_label.items(), key=lambda kv: -kv[1][1])[:15]:
                self.log(f"  query {lab}: n={n} t={t:.1f}s")
        self.log(f"done: exit {code}; paths={self.stats['paths']} queries={self.stats['queries']} "
                 f"(unsat {self.stats['unsat']}, sat {self.stats['sat']}) solver={self.stats['solver_s']:.1f}s validated={self.stats['validated']}")
        return code

    def write_evidence(self, nviol, code, known_hits):
        st = self.stats
        ev = {
            "property_id": self.prop, "tier": self.tier, "seed": self.seed, "level": "model_checking",
            "coverage": {
                "states": max(st["paths"], 0), "transitions": st["transitions"],
                "traces_validated_against_impl": st["validated"],
                "samples": self.samples or ["(none)"],
                "obligations": st["obligations"], "discharged": st["unsat"],
                "queries": st["queries"], "queries_unsat": st["unsat"], "queries_sat": st["sat"],
                "queries_crosschecked_second_solver": st["crosschecked"],
                "solver_s": round(st["solver_s"], 2),
                "functions_encoded": self.functions, "bounds": self.bounds,
                "summaries_used": sorted(self.summaries), "outside_claim": self.outside,
                "known_findings_hit": known_hits, "inconclusive": self.inconclusive[:20], "exit_code": code,
                "explanation": "states = feasible symbolic MIR paths explored; transitions = MIR statements+terminators executed; "
                               "every path's property clause is decided by the SMT solver for all values of the symbolic inputs within `bounds`",
                "exhaustive": code == 0,
            },
            "assumptions": self.assumptions, "wall_s": round(time.time() - self.t0, 2), "violations": nviol,
        }
        ev["coverage"].update(self.extra)
        if st["paths"] < 1 or st["transitions"] < 1:
            # nothing was explored (the run stopped on an unsupported construct / build failure): not model-checking evidence
            ev["level"] = "other"
            ev["coverage"]["explanation"] = "no symbolic path was completed in this run (see `inconclusive`); nothing is claimed. " + ev["coverage"]["explanation"]
            ev["coverage"]["exhaustive"] = False
        os.makedirs(os.path.join(VERIF, "evidence"), exist_ok=True)
        with open(os.path.join(VERIF, "evidence", self.prop + ".json"), "w") as f:
            json.dump(ev, f, indent=1, default=str)


def main(argv):
    import argparse
    import importlib
    import faulthandler
    import signal
    faulthandler.register(signal.SIGUSR1, all_threads=True)
    ap = argparse.ArgumentParser()
    ap.add_argument("prop")
    ap.add_argument("--tier", default=os.environ.get("VERIF_TIER", "quick"))
    ap.add_argument("--replay", default=None)
    ap.add_argument("--shard", default=None)        # internal: i/k
    ap.add_argument("--partial", default=None)      # internal: partial result file of a shard
    a = ap.parse_args(argv)
    seed = int(os.environ.get("VERIF_SEED", "0") or 0)
    tier = a.tier if a.tier in ("quick", "thorough") else "quick"
    shard = tuple(int(x) for x in a.shard.split("/")) if a.shard else None
    run = Run(a.prop, tier, seed, shard)
    mod = None
    try:
        mod = importlib.import_module("harness." + a.prop)
        if a.replay:
            # re-runs one recorded scenario against the real build; never touches the evidence file
            try:
                scen = json.load(open(a.replay))
                return mod.replay(run, scen)
            except Exception as e:
                print(f"replay failed: {type(e).__name__}: {e}")
                return 2
        nshards = getattr(mod, "SHARDS", {}).get(tier, 1) if shard is None else 1
        if os.environ.get("VERIF_SHARDS") and nshards > 1:
            nshards = max(2, int(os.environ["VERIF_SHARDS"]))         # development aid: fewer workers next to other runs
        if nshards > 1:
            # the parent dumps the MIR and builds the replay driver once; workers reuse them
            if hasattr(mod, "prepare"):
                mod.prepare(run)
            run.replay.build()
            for fn in os.listdir(run.scen_dir):
                if fn.startswith("seed-"):
                    os.unlink(os.path.join(run.scen_dir, fn))
            # seed the first exploration once, here, instead of in every worker
            try:
                os.environ["VERIF_REUSE_MIR"] = "1"
                seeder = Run(a.prop, tier, seed, None)
                seeder.seed_mode = nshards
                seeder.replay = run.replay
                mod.main(seeder)
            except SeedDone:
                run.log("first exploration seeded in the parent")
            except Exception as e:
                run.log(f"seeding in the parent failed ({type(e).__name__}: {e}); workers seed themselves")
            finally:
                os.environ.pop("VERIF_REUSE_MIR", None)
            procs = []
            env = dict(os.environ)
            env["VERIF_REUSE_MIR"] = "1"
            for i in range(nshards):
                pf = os.path.join(run.scen_dir, f"partial-{i}.json")
                if os.path.exists(pf):
                    os.unlink(pf)
                cmd = [sys.executable, "-c", "import sys; from mirsym.run import main; sys.exit(main(sys.argv[1:]))",
                       a.prop, "--tier", tier, "--shard", f"{i}/{nshards}", "--partial", pf]
                procs.append((pf, subprocess.Popen(cmd, cwd=VERIF, env=env)))
            run.log(f"{nshards} workers started")
            for pf, p in procs:
                p.wait()
                if os.path.exists(pf):
                    run.merge_partial(pf)
                else:
                    run.inconclusive.append(f"shard worker produced no result ({pf})")
            if hasattr(mod, "finalize"):
                mod.finalize(run)
        else:
            mod.main(run)
            if shard is None and hasattr(mod, "finalize"):
                mod.finalize(run)
    except Inconclusive as e:
        run.inconclusive.append(str(e))
    except (Unsupported, BoundExceeded) as e:
        if os.environ.get("VERIF_DEBUG"):
            traceback.print_exc()
        run.inconclusive.append(f"{type(e).__name__}: {e}")
    except Exception as e:  # an internal error is never a pass
        traceback.print_exc()
        run.inconclusive.append(f"internal error {type(e).__name__}: {e}")
    if a.partial:
        run.dump_partial(a.partial)
        return 0
    return run.finish()
