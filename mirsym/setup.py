"""./check --setup : create .work/, pre-build the nightly MIR target dir and the replay driver (offline)."""
import os
import subprocess
import sys
import time
from .run import WORK, MIR_TARGET, dump_mir, Replay, Inconclusive


def main():
    os.makedirs(WORK, exist_ok=True)
    t0 = time.time()
    log = lambda m: print(f"[setup {time.time() - t0:6.1f}s] {m}", flush=True)
    ok = True
    for c in ["libcnb-data", "libcnb-common", "libcnb", "libcnb-package", "libcnb-test", "libherokubuildpack",
              "libcnb-proc-macros", "libcnb-cargo", "petgraph"]:
        try:
            dump_mir(c, os.path.join(WORK, "mir", "setup"), log)
        except Inconclusive as e:
            log(f"WARNING: {e}")
            ok = False
    try:
        Replay(log).build()
    except Inconclusive as e:
        log(f"WARNING: {e}")
        ok = False
    try:
        Replay(log).build_cargo_libcnb()
        log("cargo-libcnb (C15 replay) built")
    except Inconclusive as e:
        log(f"WARNING: {e}")
        ok = False
    r = subprocess.run(["cc", "-shared", "-fPIC", "-O1", "-o", os.path.join(WORK, "faultshim.so"),
                        os.path.join(os.path.dirname(WORK), "faultshim", "faultshim.c"), "-ldl"], capture_output=True, text=True)
    log("fault injector: " + ("built" if r.returncode == 0 else "FAILED " + r.stderr[-200:]))
    ok = ok and r.returncode == 0
    for tool in (["python3-vt", "-c", "import z3, cvc5; print('z3', z3.get_version_string(), 'cvc5', cvc5.__version__)"],
                 ["cvc5", "--version"], ["/usr/bin/z3", "--version"]):
        r = subprocess.run(tool, capture_output=True, text=True)
        log((r.stdout or r.stderr).strip().split("\n")[0])
    return 0 if ok else 1


if __name__ == "__main__":
    sys.exit(main())
