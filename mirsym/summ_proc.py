"""std::process::Command model: records program / args / env / cwd; `output`, `status`, `spawn` hand the invocation to the
harness (World.run_command), which answers with an exit status and output chosen by the harness (nondeterministic stub)."""
from . import smt as z3
from .core import *
from .summ_core import VecV, Ok, Err, Some, NONE, sval, to_iter, it_next, END


class CommandV:
    type_tag = "Command"

    def __init__(self, program):
        self.program, self.args, self.envs, self.cwd = program, [], [], None

    def __repr__(self):
        return f"Command({self.program} {self.args})"


class OutputV:
    def __init__(self, code, stdout="", stderr=""):
        self.code, self.stdout, self.stderr = code, stdout, stderr


def install(P):
    def cmd_of(v):
        v0 = v
        while isinstance(v0, Ref) and isinstance(v0.get(), Ref):
            v0 = v0.get()
        return deref(v), v0

    @P.summary("Command::new")
    def _new(ctx, c):
        return CommandV(sval(c.args[0]))

    @P.summary("Command::arg")
    def _arg(ctx, c):
        cmd, ref = cmd_of(c.args[0])
        cmd.args.append(sval(c.args[1]))
        return ref

    @P.summary("Command::args")
    def _args(ctx, c):
        cmd, ref = cmd_of(c.args[0])
        it = to_iter(ctx, c.args[1], True)
        while True:
            x = it_next(ctx, it)
            if x is END:
                break
            cmd.args.append(sval(x))
        return ref

    @P.summary("Command::env")
    def _env(ctx, c):
        cmd, ref = cmd_of(c.args[0])
        cmd.envs.append((sval(c.args[1]), sval(c.args[2])))
        return ref

    @P.summary("Command::envs")
    def _envs(ctx, c):
        cmd, ref = cmd_of(c.args[0])
        it = to_iter(ctx, c.args[1], True)
        while True:
            x = it_next(ctx, it)
            if x is END:
                break
            x = deref(x)
            cmd.envs.append((sval(x.fields[0]), sval(x.fields[1])))
        return ref

    @P.summary("Command::current_dir")
    def _cwd(ctx, c):
        cmd, ref = cmd_of(c.args[0])
        cmd.cwd = sval(c.args[1])
        return ref

    @P.summary("Command::stdin", "Command::stdout", "Command::stderr", "Command::env_clear", "Command::env_remove")
    def _stdio(ctx, c):
        cmd, ref = cmd_of(c.args[0])
        return ref

    @P.summary("Stdio::piped", "Stdio::inherit", "Stdio::null")
    def _stdio_v(ctx, c):
        return Opaque("Stdio", c.key)

    @P.summary("Command::get_program")
    def _get_program(ctx, c):
        return deref(c.args[0]).program

    @P.summary("Command::get_args")
    def _get_args(ctx, c):
        from .summ_core import ListIt
        return ListIt(list(deref(c.args[0]).args))

    def run(ctx, c, how):
        cmd, _ = cmd_of(c.args[0])
        w = ctx.world
        rec = dict(program=cmd.program, args=list(cmd.args), envs=list(cmd.envs), cwd=cmd.cwd, how=how)
        w.commands.append(rec)
        return w.run_command(ctx, rec)       # -> ('spawn-error',) | OutputV

    @P.summary("Command::output")
    def _output(ctx, c):
        r = run(ctx, c, "output")
        if isinstance(r, tuple):
            from .summ_fs import ioerr
            return ioerr("NotFound" if r[0] == "not-found" else "Other")
        return Ok(Adt("Output", None, [Opaque("ExitStatus", r.code), r.stdout, r.stderr]))

    @P.summary("Command::status")
    def _status(ctx, c):
        r = run(ctx, c, "status")
        if isinstance(r, tuple):
            from .summ_fs import ioerr
            return ioerr("Other")
        return Ok(Opaque("ExitStatus", r.code))

    @P.summary("ExitStatus::success")
    def _success(ctx, c):
        code = deref(c.args[0]).data
        return (code == 0) if not is_sym(code) else code == 0

    @P.summary("ExitStatus::code")
    def _code(ctx, c):
        return Some(deref(c.args[0]).data)

    @P.summary("thread::panicking", "panicking")
    def _panicking(ctx, c):
        return bool(getattr(ctx, "unwinding", None)) or getattr(ctx, "py_unwinding", 0) > 0

    @P.summary("String::from_utf8_lossy", "<impl str>::from_utf8_lossy")
    def _lossy(ctx, c):
        return sval(c.args[0])
