"""Directories whose entries carry *symbolic names* (z3 strings): env directories (C03), <platform>/env (C06).

World.dyn[dir] = DynDir().  A path into such a directory is a SymPath(dir, name).  File names are single components: the
harness constrains them to contain neither '/' nor NUL.  `Path::file_stem/extension` follow std's rule (split at the last
dot of the file name; a name that has no dot other than a leading one has no extension), expressed with core string
operators and fresh witnesses.
"""
from . import smt as z3
from .core import *
from .summ_core import Ok, Err, Some, NONE, sval, S, is_str, ListIt, concat
from .summ_fs import ABSENT, FILE, DIR, LINK, Node, ioerr, pstr


class SymPath:
    type_tag = "PathBuf"

    def __init__(self, base, name):
        self.base, self.name = base, name        # base: concrete directory path; name: str | z3 String

    def __repr__(self):
        return f"{self.base}/<{self.name}>"


class DynDir:
    def __init__(self):
        self.entries = []       # [name, Node]

    def clear(self):
        self.entries = []

    def read_dir(self, ctx, logical):
        ents = [e for e in self.entries if not (isinstance(e[1].kind, int) and e[1].kind == ABSENT)]
        order = getattr(ctx.world, "readdir_order", None)
        items = [Ok(Opaque("DirEntry", SymPath(logical, n))) for n, node in ents]
        if order:
            items = order(ctx, logical, items)
        return ListIt(items)

    def lookup(self, ctx, name, create=False, phys=None):
        if isinstance(name, str) and phys is not None and f"{phys}/{name}" in ctx.world.fs and not create:
            return ctx.world.fs[f"{phys}/{name}"]       # a concrete child (sub-directory) of the dynamic directory
        for e in self.entries:
            eq = (e[0] == name) if (isinstance(e[0], str) and isinstance(name, str)) else (S(e[0]) == S(name))
            if eq is True or (eq is not False and ctx.branch(eq, "dyn-name-eq")):
                return e[1]
        if create:
            n = Node(ABSENT)
            self.entries.append([name, n])
            return n
        return None


def install(P):
    S_ = P.summaries

    def wrap(keys, handler):
        for k in keys:
            orig = S_.get(k)

            def w(ctx, c, orig=orig, k=k):
                r = handler(ctx, c)
                if r is not NotImplemented:
                    return r
                if orig is None:
                    raise Unsupported(f"{k} on {c.args[0]!r}")
                return orig(ctx, c)
            S_[k] = w

    def dyn_of(ctx, base):
        w = ctx.world
        e, phys = w.resolve(base, True)
        if e or phys not in w.dyn:
            return None, phys
        return w.dyn[phys], phys

    def sp(v):
        v = sval(v)
        if isinstance(v, Opaque) and v.tag == "DirEntry":
            v = v.data
        return v if isinstance(v, SymPath) else None

    # ---- Path::join into a dynamic directory, or with a symbolic component
    def _join(ctx, c):
        a, b = sval(c.args[0]), sval(c.args[1])
        if isinstance(a, SymPath):
            raise Unsupported("join below a symbolic path component")
        if isinstance(a, str) and isinstance(b, str) and (a.rstrip("/") + "/" + b) in ctx.world.dyn_candidates:
            return a.rstrip("/") + "/" + b          # a concrete sub-directory that is itself dynamic (env.launch/<process>)
        if isinstance(a, str) and (not isinstance(b, str) or a in ctx.world.dyn or (a.rstrip("/") in ctx.world.dyn_candidates)):
            return SymPath(a.rstrip("/"), b)
        return NotImplemented
    wrap(["Path::join", "PathBuf::join"], _join)

    def _write(ctx, c):
        p = sp(c.args[0])
        if p is None:
            return NotImplemented
        w = ctx.world
        d, phys = dyn_of(ctx, p.base)
        if d is None:
            if phys is not None and phys in w.dyn_candidates and w.kind_is(w.get(phys), DIR, f"dynw-parent:{phys}"):
                d = w.dyn.setdefault(phys, DynDir())
            else:
                return ioerr("NotFound")
        if w.fault("write", f"{phys}/<name>"):
            return ioerr()
        n = d.lookup(ctx, p.name, create=True)
        if not isinstance(n.kind, int) or n.kind == DIR:
            if w.kind_is(n, DIR, "dynw-isdir"):
                return ioerr("Other", "EISDIR")
        n.kind, n.content, n.mode = FILE, deref(c.args[1]), 0o644
        return Ok()
    wrap(["fs::write", "std::fs::write"], _write)

    def _read(ctx, c):
        p = sp(c.args[0])
        if p is None:
            return NotImplemented
        w = ctx.world
        d, phys = dyn_of(ctx, p.base)
        if d is None:
            return ioerr("NotFound")
        n = d.lookup(ctx, p.name, phys=phys)
        if n is None or w.kind_is(n, ABSENT, "dynr-absent"):
            return ioerr("NotFound")
        if w.fault("read", f"{phys}/<name>"):
            return ioerr()
        if w.kind_is(n, DIR, "dynr-isdir"):
            return ioerr("Other", "EISDIR")
        if w.kind_is(n, LINK, "dynr-link"):
            tgt = n.targets[0] if n.targets else None
            e2, ph2 = w.resolve(tgt, True) if tgt else ("NotFound", None)
            if e2:
                return ioerr(e2)
            n2 = w.get(ph2)
            if w.kind_is(n2, DIR, "dynr-link-dir"):
                return ioerr("Other", "EISDIR")
            n = n2
        if c.key.endswith("read_to_string"):
            hook = getattr(w, "utf8_content", None)
            if hook and not hook(ctx, n):
                return ioerr("Other", "InvalidData")
        return Ok(n.content if n.content is not None else "")
    wrap(["fs::read", "std::fs::read", "fs::read_to_string", "read_to_string"], _read)

    def probe(ctx, c, follow=True):
        p = sp(c.args[0])
        if p is None:
            return NotImplemented, None
        w = ctx.world
        d, phys = dyn_of(ctx, p.base)
        if d is None:
            return None, None
        n = d.lookup(ctx, p.name, phys=phys)
        if n is None or w.kind_is(n, ABSENT, "dynp-absent"):
            return None, None
        if follow and w.kind_is(n, LINK, "dynp-link"):
            tgt = n.targets[0] if n.targets else None
            e2, ph2 = w.resolve(tgt, True) if tgt else ("NotFound", None)
            if e2:
                return None, None
            return w.get(ph2), w
        return n, w

    def _exists(ctx, c):
        n, w = probe(ctx, c)
        if n is NotImplemented:
            return NotImplemented
        return n is not None
    wrap(["Path::exists"], _exists)

    def _is_dir(ctx, c):
        n, w = probe(ctx, c)
        if n is NotImplemented:
            return NotImplemented
        return n is not None and w.kind_is(n, DIR, "dyn-isdir")
    wrap(["Path::is_dir"], _is_dir)

    def _is_file(ctx, c):
        n, w = probe(ctx, c)
        if n is NotImplemented:
            return NotImplemented
        return n is not None and w.kind_is(n, FILE, "dyn-isfile")
    wrap(["Path::is_file"], _is_file)

    def _ft(ctx, c):
        p = sp(c.args[0])
        if p is None:
            return NotImplemented
        n, w = probe(ctx, c, follow=False)
        if n is None:
            return ioerr("NotFound")
        return Ok(Opaque("DynFileType", n))
    wrap(["DirEntry::file_type"], _ft)

    def _md(ctx, c):
        p = sp(c.args[0])
        if p is None:
            return NotImplemented
        n, w = probe(ctx, c, follow=c.key.split("::")[-1] != "symlink_metadata")
        if n is None:
            return ioerr("NotFound")
        return Ok(Opaque("DynFileType", n))
    wrap(["fs::metadata", "metadata", "Path::metadata", "fs::symlink_metadata", "symlink_metadata", "Path::symlink_metadata", "DirEntry::metadata"], _md)

    def _kindq(kind, label):
        def q(ctx, c):
            v = deref(c.args[0])
            if isinstance(v, Opaque) and v.tag == "DynFileType":
                return ctx.world.kind_is(v.data, kind, label)
            return NotImplemented
        return q
    wrap(["Metadata::is_dir", "FileType::is_dir"], _kindq(DIR, "dynft-dir"))
    wrap(["Metadata::is_file", "FileType::is_file"], _kindq(FILE, "dynft-file"))
    wrap(["Metadata::is_symlink", "FileType::is_symlink"], _kindq(LINK, "dynft-link"))

    def _md_ft(ctx, c):
        v = deref(c.args[0])
        if isinstance(v, Opaque) and v.tag == "DynFileType":
            return v
        return NotImplemented
    wrap(["Metadata::file_type"], _md_ft)

    def _unlink(ctx, c):
        p = sp(c.args[0])
        if p is None:
            return NotImplemented
        w = ctx.world
        d, phys = dyn_of(ctx, p.base)
        n = d.lookup(ctx, p.name) if d else None
        if n is None or w.kind_is(n, ABSENT, "dynu-absent"):
            return ioerr("NotFound")
        if w.fault("unlink", f"{phys}/<name>"):
            return ioerr()
        if w.kind_is(n, DIR, "dynu-dir"):
            return ioerr("Other", "EISDIR")
        n.kind = ABSENT
        return Ok()
    wrap(["fs::remove_file", "remove_file"], _unlink)

    def _de_path(ctx, c):
        v = deref(c.args[0])
        if isinstance(v, Opaque) and isinstance(v.data, SymPath):
            return v.data
        return NotImplemented
    wrap(["DirEntry::path"], _de_path)

    def _de_name(ctx, c):
        v = deref(c.args[0])
        if isinstance(v, Opaque) and isinstance(v.data, SymPath):
            return v.data.name
        return NotImplemented
    wrap(["DirEntry::file_name"], _de_name)

    def _file_name(ctx, c):
        p = sp(c.args[0])
        if p is None:
            return NotImplemented
        return Some(p.name)
    wrap(["Path::file_name"], _file_name)

    def _parent(ctx, c):
        p = sp(c.args[0])
        if p is None:
            return NotImplemented
        return Some(p.base)
    wrap(["Path::parent"], _parent)

    def stem_ext(ctx, name):
        """std: the extension is the part after the last dot of the file name, unless the name has no dot other than a
        leading one (then: no extension, stem = name)"""
        key = str(name)
        cache = ctx.__dict__.setdefault("_stem_ext", {})
        if key in cache:
            return cache[key]
        if isinstance(name, str):
            if name.startswith(".") and "." not in name[1:] or "." not in name or name == "..":
                r = (name, "", False)
            else:
                st, ex = name.rsplit(".", 1)
                r = (st, ex, True)
            cache[key] = r
            return r
        # structured case: NAME ++ ".suffix" with a literal, dot-free suffix (what write_to_env_dir produces): exact split
        from .summ_core import flatten_concat
        parts = flatten_concat(name)
        if len(parts) > 1 and isinstance(parts[-1], str) and "." in parts[-1]:
            head, ex = parts[-1].rsplit(".", 1)
            prefix = parts[:-1] + ([head] if head else [])
            pre = concat(prefix)
            nonempty = (len(pre) > 0) if isinstance(pre, str) else ctx.entails(z3.Length(S(pre)) > 0)
            if nonempty:
                cache[key] = (pre, ex, True)
                return cache[key]
        s = S(name)
        stem, ext, has = ctx.fresh("stem", z3.StringSort()), ctx.fresh("ext", z3.StringSort()), ctx.fresh("hasext", z3.BoolSort())
        dot = z3.StringVal(".")
        ctx.assume(has == z3.And(z3.Contains(z3.SubString(s, 1, z3.Length(s) - 1), dot), s != z3.StringVal("..")))
        ctx.assume(z3.Implies(has, z3.And(s == z3.Concat(stem, dot, ext), z3.Not(z3.Contains(ext, dot)), z3.Length(stem) > 0)))
        ctx.assume(z3.Implies(z3.Not(has), z3.And(stem == s, ext == z3.StringVal(""))))
        cache[key] = (stem, ext, has)
        return cache[key]

    def _stem(ctx, c):
        p = sp(c.args[0])
        if p is None:
            return NotImplemented
        stem, ext, has = stem_ext(ctx, p.name)
        return Some(stem)
    wrap(["Path::file_stem"], _stem)

    def _ext(ctx, c):
        p = sp(c.args[0])
        if p is None:
            return NotImplemented
        stem, ext, has = stem_ext(ctx, p.name)
        if has is True or (has is not False and ctx.branch(has, "has-ext")):
            return Some(ext)
        return NONE
    wrap(["Path::extension"], _ext)

    def _with_ext(ctx, c):
        p = sp(c.args[0])
        if p is None:
            return NotImplemented
        stem, ext, has = stem_ext(ctx, p.name)
        new_ext = sval(c.args[1])
        if isinstance(new_ext, str) and new_ext == "":
            return SymPath(p.base, stem)
        return SymPath(p.base, concat([stem, ".", new_ext]))
    wrap(["Path::with_extension"], _with_ext)

    def _set_ext(ctx, c):
        r = c.args[0]
        while isinstance(r.get(), Ref):
            r = r.get()
        p = r.get()
        if not isinstance(p, SymPath):
            return NotImplemented
        stem, ext, has = stem_ext(ctx, p.name)
        new_ext = sval(c.args[1])
        r.set(SymPath(p.base, concat([stem, ".", new_ext]) if not (isinstance(new_ext, str) and new_ext == "") else stem))
        return True
    wrap(["PathBuf::set_extension"], _set_ext)

    def _display(ctx, c):
        p = sp(c.args[0])
        if p is None:
            return NotImplemented
        return concat([p.base, "/", p.name])
    wrap(["Path::display", "Path::to_string_lossy", "Path::to_path_buf", "Path::to_owned", "PathBuf::from"], _display if False else (lambda ctx, c: (sval(c.args[0]) if sp(c.args[0]) is not None else NotImplemented)))


def enable(world, dirs):
    """declare which concrete directories hold symbolically named entries (they need not exist yet)"""
    world.dyn_candidates = set(d.rstrip("/") for d in dirs)
