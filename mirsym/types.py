"""Type-text utilities: resolving generic parameters of MIR functions per call frame by unifying the callee's
signature with the types the caller uses at the call site (MIR is generic; deserialisation targets depend on it)."""
import re
from .parse import split_top, match_close

PARAM_RE = re.compile(r"(?:[A-Z][A-Z0-9]{0,3}|__[A-Z])$")


def strip_ref(t):
    t = t.strip()
    while True:
        m = re.match(r"&(?:'\w+ )?(?:mut )?", t)
        if m and m.end() > 0:
            t = t[m.end():].strip()
            continue
        if t.startswith("*const ") or t.startswith("*mut "):
            t = t.split(" ", 1)[1].strip()
            continue
        return t


def head_args(t):
    """'std::result::Result<A, B>' -> ('Result', ['A','B']); '(A, B)' -> ('tuple', [..]); '[T]' -> ('slice',[T])"""
    t = strip_ref(t)
    if t.startswith("("):
        return "tuple", split_top(t[1:-1]) if t.endswith(")") else []
    if t.startswith("["):
        inner = t[1:-1]
        return "slice", [split_top(inner, ";")[0]]
    if t.startswith("dyn ") or t.startswith("for<") or t.startswith("fn(") or re.match(r"(std::ops::)?Fn(Mut|Once)?\(", t):
        u = t[4:] if t.startswith("dyn ") else t
        if u.startswith("for<"):
            u = u[match_close(u, 3) + 1:].strip()
        m = re.match(r"(?:[\w:]*::)?(Fn|FnMut|FnOnce|fn)\(", u)
        if m:
            k = match_close(u, m.end() - 1)
            args = [a for a in split_top(u[m.end():k])]
            rest = u[k + 1:].strip()
            ret = rest[2:].strip() if rest.startswith("->") else "()"
            return "dyn" + m.group(1), args + [ret]
        return t, []
    if t.startswith("<") or t.startswith("impl ") or t.startswith("{"):
        return t, []
    depth = 0
    for i, c in enumerate(t):
        if c == "<":
            j = match_close(t, i)
            head = t[:i]
            args = [a for a in split_top(t[i + 1:j]) if not a.startswith("'")]
            return head.split("::")[-1], args
    return t.split("::")[-1], []


def is_param(t):
    return bool(PARAM_RE.match(t.strip()))


def unify(pattern, concrete, out):
    """bind generic parameter names occurring in `pattern` (callee side) to sub-terms of `concrete` (caller side)"""
    pattern, concrete = strip_ref(pattern), strip_ref(concrete)
    if not pattern or not concrete:
        return
    if is_param(pattern):
        out.setdefault(pattern, concrete)
        return
    if pattern.startswith("impl "):
        out.setdefault(pattern, concrete)        # anonymous type parameter (`impl Trait` in argument position)
        return
    ph, pa = head_args(pattern)
    ch, ca = head_args(concrete)
    if ph != ch or len(pa) != len(ca):
        return
    for a, b in zip(pa, ca):
        unify(a, b, out)


def subst(t, env):
    """replace generic parameter names in type text t by their bindings"""
    if not env:
        return t
    if t in env and t.startswith("impl "):
        return env[t]

    def rep(m):
        w = m.group(0)
        return env.get(w, w)
    return re.sub(r"(?<![\w:])(?:[A-Z][A-Z0-9]{0,3}|__[A-Z])(?![\w])", rep, t)
