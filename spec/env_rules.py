"""CNB environment modification rules (buildpack.md, "Environment Variable Modification Rules"), written directly as a
function from (entries, scope, starting environment) to the expected value of every variable -- independent of libcnb.

  * a layer's env/ directory applies to every scope; env.build/, env.launch/, env.launch/<process>/ only to theirs; the
    generic directory is applied first, then the scope-specific one
  * within one directory the lifecycle processes NAME.<suffix> files in lexical order, i.e. for one variable:
    append, default, (delim is a parameter), override, prepend
  * override: value replaces; default: only when the variable is unset (an empty string is set);
    append/prepend: joined with the variable's delimiter (from NAME.delim of the same directory, else empty) only when the
    previous value is non-empty
  * a later insert with the same (scope, behaviour, name) replaces the earlier one
"""
from mirsym import smt as z3

ORDER = ["Append", "Default", "Override", "Prepend"]


def _s(v):
    return z3.StringVal(v) if isinstance(v, str) else v


def apply_rules(entries, query_scope, start):
    """entries: list of (scope, behaviour, name, value) in insertion order; scope = 'All'|'Build'|'Launch'|('Process', p)
    start: {name: None | value}; returns {name: (is_set: z3 Bool | bool, value term)}"""
    cur = {n: ((v is not None), _s(v) if v is not None else z3.StringVal("")) for n, v in start.items()}
    groups = ["All"] if query_scope == "All" else ["All", query_scope]
    for g in groups:
        table = {}
        for sc, beh, name, val in entries:
            if sc == g:
                table[(beh, name)] = _s(val)        # last insert wins
        names = sorted({n for (_, n) in table})
        for name in names:
            delim = table.get(("Delimiter", name), z3.StringVal(""))
            is_set, v = cur.get(name, (False, z3.StringVal("")))
            for beh in ORDER:
                if (beh, name) not in table:
                    continue
                val = table[(beh, name)]
                nonempty = z3.And(is_set, z3.Length(v) > 0) if not isinstance(is_set, bool) else (z3.Length(v) > 0 if is_set else z3.BoolVal(False))
                if beh == "Override":
                    is_set, v = True, val
                elif beh == "Default":
                    if isinstance(is_set, bool):
                        if not is_set:
                            is_set, v = True, val
                    else:
                        v = z3.If(is_set, v, val)
                        is_set = True
                elif beh == "Append":
                    v = z3.If(nonempty, z3.Concat(v, delim, val), val)
                    is_set = True
                elif beh == "Prepend":
                    v = z3.If(nonempty, z3.Concat(val, delim, v), val)
                    is_set = True
            cur[name] = (is_set, v)
    return cur
