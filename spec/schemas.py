"""CNB document schemas, written from the specification (buildpack.md "buildpack.toml", "Buildpack Plan", "Layer Content
Metadata", "store.toml", "launch.toml"; distribution.md "package.toml") -- field names, required/optional, kinds, defaults.

kind: 'str' | 'bool' | 'table' | 'arr_str' | 'arr_table'      child: the libcnb type a table/array element/string maps to
default: value when the key is absent ('none' = optional without value, 'req' = required)
"""

S = lambda kind, child=None, default="req": dict(kind=kind, child=child, default=default)

SCHEMAS = {
    "ComponentBuildpackDescriptor": {
        "api": S("str", "BuildpackApi"), "buildpack": S("table", "Buildpack"), "stacks": S("arr_table", "Stack", "empty"),
        "targets": S("arr_table", "BuildpackTarget", "empty"), "metadata": S("table", "FreeForm", "none")},
    "CompositeBuildpackDescriptor": {
        "api": S("str", "BuildpackApi"), "buildpack": S("table", "Buildpack"), "order": S("arr_table", "Order"),
        "metadata": S("table", "FreeForm", "none")},
    "Buildpack": {
        "id": S("str", "BuildpackId"), "name": S("str", None, "none"), "version": S("str", "BuildpackVersion"), "homepage": S("str", None, "none"),
        "clear-env": S("bool", None, False), "description": S("str", None, "none"), "keywords": S("arr_str", None, "empty"),
        "licenses": S("arr_table", "License", "empty"), "sbom-formats": S("arr_str", "SbomFormat", "empty")},
    "License": {"type": S("str", None, "none"), "uri": S("str", None, "none")},
    "Order": {"group": S("arr_table", "Group")},
    "Group": {"id": S("str", "BuildpackId"), "version": S("str", "BuildpackVersion"), "optional": S("bool", None, False)},
    "BuildpackTarget": {"os": S("str", None, "none"), "arch": S("str", None, "none"), "variant": S("str", None, "none"),
                        "distros": S("arr_table", "Distro", "empty")},
    "Distro": {"name": S("str"), "version": S("str")},
    "Stack": {"id": S("str"), "mixins": S("arr_str", None, "empty")},
    "BuildpackPlan": {"entries": S("arr_table", "Entry", "empty")},
    "Entry": {"name": S("str"), "metadata": S("table", "FreeForm", "empty-table")},
    "LayerTypes": {"launch": S("bool", None, False), "build": S("bool", None, False), "cache": S("bool", None, False)},
    "Store": {"metadata": S("table", "FreeForm")},
    "PackageDescriptor": {"buildpack": S("table", "PackageDescriptorBuildpackReference"),
                          "dependencies": S("arr_table", "PackageDescriptorDependency", "empty"), "platform": S("table", "Platform", "linux")},
    "Platform": {"os": S("str", "PlatformOs")},
    "Launch": {"labels": S("arr_table", "Label", "empty"), "processes": S("arr_table", "Process", "empty"), "slices": S("arr_table", "Slice", "empty")},
    "Label": {"key": S("str"), "value": S("str")},
    "Process": {"type": S("str", "ProcessType"), "command": S("arr_str"), "args": S("arr_str", None, "empty"), "default": S("bool", None, False),
                "working-dir": S("str", "WorkingDirectory", "app")},
    "Slice": {"paths": S("arr_str")},
}

# wire kind of the child types (how they appear in a document)
WIRE = {"ProcessType": "str", "WorkingDirectory": "str", "BuildpackApi": "str", "BuildpackId": "str", "BuildpackVersion": "str", "SbomFormat": "str", "PlatformOs": "str", "FreeForm": "table"}
