"""Reference grammars, written from the CNB specification text (not from the implementation).

buildpack.md  "Buildpack ID: MUST only contain numbers, letters, and the characters `.`, `/`, and `-`;
               MUST NOT be `config` or `app`" (+ `sbom`, reserved since Buildpack API 0.7: `<layers>/sbom`)
buildpack.md  "process type: MUST only contain numbers, letters, and the characters `.`, `_`, and `-`"
buildpack.md  exec.d output keys are environment variable names; libcnb documents: "numbers, letters, `_` and `-`"
buildpack.md  layer name: a directory `<layers>/<layer>`; `build`, `launch`, `store` are reserved file stems
              -> any non-empty single path component other than those three.  Strings containing `/` or NUL are
              not directory names and are outside the domain (nothing asserted about them).
buildpack.md  "version: MUST be in the form <X>.<Y>.<Z> where X, Y, Z are non-negative integers and must not contain
               leading zeros";  "api: <major>.<minor> or <major>" (plain decimal digits)
"""
from mirsym import smt as z3

_RS = None


def _re_sort():
    return z3.ReSort(z3.StringSort())


def _u(*xs):
    return xs[0] if len(xs) == 1 else z3.Union(*xs)


def _lit(*ws):
    return _u(*[z3.Re(w) for w in ws])


ALNUM = _u(z3.Range("0", "9"), z3.Range("A", "Z"), z3.Range("a", "z"))
DIGIT = z3.Range("0", "9")


def buildpack_id():
    return z3.Diff(z3.Plus(_u(ALNUM, z3.Re("."), z3.Re("/"), z3.Re("-"))), _lit("app", "config", "sbom"))


def process_type():
    return z3.Plus(_u(ALNUM, z3.Re("."), z3.Re("_"), z3.Re("-")))


def exec_d_key():
    return z3.Plus(_u(ALNUM, z3.Re("_"), z3.Re("-")))


def layer_name():
    return z3.Diff(z3.Plus(z3.AllChar()), _lit("build", "launch", "store"))


def layer_name_domain(s):
    """strings usable as one directory name (as a regex membership, so the whole query stays in the regex fragment)"""
    return z3.InRe(s, z3.Star(z3.Diff(z3.AllChar(), z3.Union(z3.Re("/"), z3.Re("\0")))))


def contains_char(s, ch):
    a = z3.Star(z3.AllChar())
    return z3.InRe(s, z3.Concat(a, z3.Re(ch), a))


NUM = _u(z3.Re("0"), z3.Concat(z3.Range("1", "9"), z3.Star(DIGIT)))


def version():
    return z3.Concat(NUM, z3.Re("."), NUM, z3.Re("."), NUM)


def api():
    d = z3.Plus(DIGIT)
    return _u(d, z3.Concat(d, z3.Re("."), d))


NEWTYPES = {
    "LayerName": (layer_name, layer_name_domain),
    "ProcessType": (process_type, None),
    "BuildpackId": (buildpack_id, None),
    "ExecDProgramOutputKey": (exec_d_key, None),
}
