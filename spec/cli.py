"""Reference parsers for the command lines libcnb-test generates, written from the tools' documented option grammars
(`docker run [OPTIONS] IMAGE [COMMAND] [ARG...]`, `docker exec [OPTIONS] CONTAINER COMMAND [ARG...]`,
`pack build <image> [flags]`).  They run *symbolically*: argv entries may be SMT strings; every decision the real tool
would take on an argument's text (does it start with '-', where is the first '=', how does the --mount CSV split) is a
branch/constraint on the path (ctx), so ambiguity introduced by user-supplied values shows up as a mismatch between the
parsed and the configured invocation.

Facts used: an option that takes a value consumes the next argument verbatim; option parsing stops at the first
positional (docker run/exec); `--env K=V` splits at the first '='; `--mount` is a CSV of key=value fields (a field
starting with '"' is quoted); `--publish ip::port`.
"""
from mirsym import smt as z3
from mirsym.core import Unsupported, BoundExceeded

DOCKER_RUN_VALUE = {"--name", "--platform", "--entrypoint", "--env", "-e", "--publish", "-p", "--mount", "--volume", "-v", "--workdir", "-w", "--user", "-u",
                    "--network", "--label", "-l", "--hostname", "-h", "--add-host", "--cap-add", "--cpus", "--memory", "-m"}
DOCKER_RUN_BOOL = {"--detach", "-d", "--rm", "--interactive", "-i", "--tty", "-t", "--privileged", "--init", "--read-only"}
PACK_VALUE = {"--builder", "-B", "--cache", "--path", "-p", "--pull-policy", "--buildpack", "-b", "--env", "-e", "--descriptor", "-d", "--network", "--run-image", "--tag", "-t",
              "--volume", "--workspace", "--default-process", "-D", "--creation-time", "--lifecycle-image", "--platform", "--sbom-output-dir", "--report-output-dir", "--cache-image"}
PACK_BOOL = {"--trust-builder", "--trust-extra-buildpacks", "--clear-cache", "--publish", "--verbose", "-v", "--quiet", "-q", "--no-color", "--timestamps", "--docker-host"}


def _S(x):
    return z3.StringVal(x) if isinstance(x, str) else x


def starts_with_dash(ctx, a):
    if isinstance(a, str):
        return a.startswith("-")
    p0 = _parts(a)[0]
    if isinstance(p0, str) and p0:
        return p0.startswith("-")
    return ctx.branch(z3.PrefixOf(z3.StringVal("-"), a), "cli:dash")


def is_literal(ctx, a, lits):
    """does the (possibly symbolic) argument equal one of the option names?  -> the name or None"""
    if isinstance(a, str):
        return a if a in lits else None
    parts = _parts(a)
    if isinstance(parts[0], str) and parts[0] and not any(l.startswith(parts[0]) or parts[0].startswith(l) for l in lits):
        return None
    if not ctx.branch(z3.Or([a == z3.StringVal(l) for l in sorted(lits)]), "cli:is-option"):
        return None
    for l in sorted(lits):
        if ctx.branch(a == z3.StringVal(l), f"cli:is:{l}"):
            return l
    return None


def _parts(s):
    from mirsym.summ_core import flatten_concat
    return flatten_concat(s)


def _join(parts):
    out = []
    for p in parts:
        if isinstance(p, str) and out and isinstance(out[-1], str):
            out[-1] += p
        elif not (isinstance(p, str) and p == ""):
            out.append(p)
    if not out:
        return ""
    if len(out) == 1:
        return out[0]
    return z3.Concat(*[_S(p) for p in out])


def split_first(ctx, s, ch):
    """(before, after) the first ch, or None.  Works on the concatenation structure of the term: literal pieces are
    split concretely, a symbolic piece is split only on the path where it contains ch."""
    parts = _parts(s)
    for i, p in enumerate(parts):
        if isinstance(p, str):
            if ch in p:
                a, b = p.split(ch, 1)
                return _join(parts[:i] + [a]), _join([b] + parts[i + 1:])
            continue
        if ctx.branch(z3.Contains(p, z3.StringVal(ch)), f"cli:has:{ch}"):
            a, b = ctx.fresh("cli_a", z3.StringSort()), ctx.fresh("cli_b", z3.StringSort())
            ctx.assume(z3.And(p == z3.Concat(a, z3.StringVal(ch), b), z3.Not(z3.Contains(a, z3.StringVal(ch)))))
            return _join(parts[:i] + [a]), _join([b] + parts[i + 1:])
    return None


def split_all(ctx, s, ch, maxn=6):
    out = []
    cur = s
    for _ in range(maxn):
        r = split_first(ctx, cur, ch)
        if r is None:
            out.append(cur)
            return out
        out.append(r[0])
        cur = r[1]
    raise BoundExceeded("cli: too many fields")


def parse_options(ctx, argv, value_opts, bool_opts, stop_at_positional):
    """-> (options: list of (name, value|True), positionals: list) or ('error', why)"""
    opts, pos = [], []
    i = 0
    while i < len(argv):
        a = argv[i]
        if starts_with_dash(ctx, a):
            name = is_literal(ctx, a, value_opts | bool_opts)
            if name is None:
                eq = split_first(ctx, a, "=")
                if eq is not None:
                    n2 = is_literal(ctx, eq[0], value_opts)
                    if n2 is not None:
                        opts.append((n2, eq[1]))
                        i += 1
                        continue
                return ("error", f"unknown option at {i}")
            if name in value_opts:
                if i + 1 >= len(argv):
                    return ("error", f"option {name} needs a value")
                opts.append((name, argv[i + 1]))
                i += 2
            else:
                opts.append((name, True))
                i += 1
            continue
        if stop_at_positional:
            pos = list(argv[i:])
            break
        pos.append(a)
        i += 1
    return opts, pos


def csv_record(ctx, value):
    """One record of Go's encoding/csv (as docker reads --mount; LazyQuotes off) -> list of field texts | ('error', why).
    Grammar: fields separated by ','; a field that starts with '"' is quoted, runs to the closing '"' ('""' stands for
    one '"') and must be followed by ',' or the end; a '"' inside an unquoted field is an error; an unquoted line break
    ends the record (docker reads only the first record).
    Symbolic pieces: in an unquoted field a piece containing ',', '"' or a line break changes the field structure, in a
    quoted field a piece containing '"' closes or re-escapes it - on those paths the parsed record cannot equal the
    configured one and the parse is cut with an error.  A piece produced by the implementation's own
    replace('"', '""') of x (ctx.replaced) is, inside a quoted field, exactly the text x."""
    fields, cur, mode = [], [], "start"          # start | unquoted | quoted | closed
    replaced = getattr(ctx, "replaced", {})

    def has(p, ch, label):
        return ctx.branch(z3.Contains(p, z3.StringVal(ch)), label)
    for p in _parts(value):
        if isinstance(p, str):
            i = 0
            while i < len(p):
                ch = p[i]
                if mode == "start":
                    if ch == '"':
                        mode = "quoted"
                    elif ch == ",":
                        fields.append("")
                    elif ch in "\r\n":
                        return ("error", "mount record ends at a line break")
                    else:
                        cur.append(ch)
                        mode = "unquoted"
                elif mode == "unquoted":
                    if ch == ",":
                        fields.append(_join(cur))
                        cur, mode = [], "start"
                    elif ch == '"':
                        return ("error", "mount bare quote in unquoted field")
                    elif ch in "\r\n":
                        return ("error", "mount record ends at a line break")
                    else:
                        cur.append(ch)
                elif mode == "quoted":
                    if ch == '"':
                        if i + 1 < len(p) and p[i + 1] == '"':
                            cur.append('"')
                            i += 1
                        else:
                            mode = "closed"
                    else:
                        cur.append(ch)
                else:   # closed
                    if ch == ",":
                        fields.append(_join(cur))
                        cur, mode = [], "start"
                    else:
                        return ("error", "mount text after closing quote")
                i += 1
            continue
        # symbolic piece
        if mode == "closed":
            if ctx.branch(z3.Length(p) == 0, "cli:csv:empty"):
                continue
            return ("error", "mount text after closing quote")
        if mode == "quoted":
            if str(p) in replaced and replaced[str(p)][1:] == ('"', '""'):
                cur.extend(_parts(replaced[str(p)][0]))
                continue
            if has(p, '"', "cli:csv:quote-in-quoted"):
                return ("error", "mount user text closes or re-escapes a quoted field")
            cur.append(p)
            continue
        if has(p, ",", "cli:csv:comma"):
            return ("error", "mount field split by ',' inside a value")
        if has(p, '"', "cli:csv:quote"):
            return ("error", "mount bare quote in unquoted field")
        if has(p, "\n", "cli:csv:lf") or has(p, "\r", "cli:csv:cr"):
            return ("error", "mount record ends at a line break")
        if mode == "start":
            if ctx.branch(z3.Length(p) == 0, "cli:csv:empty"):
                continue
            mode = "unquoted"
        cur.append(p)
    if mode == "quoted":
        return ("error", "mount unterminated quoted field")
    fields.append(_join(cur))
    return fields


def parse_mount(ctx, value):
    """docker --mount value -> dict of fields | ('error', why)"""
    rec = csv_record(ctx, value)
    if isinstance(rec, tuple):
        return rec
    fields = {}
    for f in rec:
        kv = split_first(ctx, f, "=")
        if kv is None:
            key, val = f, True
        else:
            key, val = kv
        k = is_literal(ctx, key, {"type", "source", "src", "target", "dst", "destination", "readonly", "ro", "bind-propagation", "consistency"})
        if k is None:
            return ("error", "mount unknown field")
        k = {"src": "source", "dst": "target", "destination": "target", "ro": "readonly"}.get(k, k)
        if k in fields:
            return ("error", f"mount duplicate field {k}")
        fields[k] = val
    return fields


def parse_docker_run(ctx, argv):
    if not argv or argv[0] != "run":
        return ("error", "not a docker run")
    r = parse_options(ctx, argv[1:], DOCKER_RUN_VALUE, DOCKER_RUN_BOOL, True)
    if r[0] == "error":
        return r
    opts, pos = r
    out = dict(name=None, detach=False, rm=False, platform=None, entrypoint=None, env=[], publish=[], mounts=[], image=None, command=[])
    for name, v in opts:
        if name == "--name":
            out["name"] = v
        elif name in ("--detach", "-d"):
            out["detach"] = True
        elif name == "--rm":
            out["rm"] = True
        elif name == "--platform":
            out["platform"] = v
        elif name == "--entrypoint":
            out["entrypoint"] = v
        elif name in ("--env", "-e"):
            kv = split_first(ctx, v, "=")
            out["env"].append(kv if kv is not None else (v, None))
        elif name in ("--publish", "-p"):
            out["publish"].append(v)
        elif name == "--mount":
            m = parse_mount(ctx, v)
            if isinstance(m, tuple):
                return m
            out["mounts"].append(m)
        else:
            return ("error", f"unexpected option {name}")
    if not pos:
        return ("error", "no image")
    out["image"], out["command"] = pos[0], list(pos[1:])
    return out


def parse_pack_build(ctx, argv):
    if not argv or argv[0] != "build":
        return ("error", "not a pack build")
    r = parse_options(ctx, argv[1:], PACK_VALUE, PACK_BOOL, False)
    if r[0] == "error":
        return r
    opts, pos = r
    out = dict(image=None, builder=None, caches=[], path=None, pull_policy=None, buildpacks=[], env=[], trust_builder=False, trust_extra=False)
    for name, v in opts:
        if name in ("--builder", "-B"):
            out["builder"] = v
        elif name == "--cache":
            out["caches"].append(v)
        elif name in ("--path", "-p"):
            out["path"] = v
        elif name == "--pull-policy":
            out["pull_policy"] = v
        elif name in ("--buildpack", "-b"):
            out["buildpacks"].append(v)
        elif name in ("--env", "-e"):
            kv = split_first(ctx, v, "=")
            out["env"].append(kv if kv is not None else (v, None))
        elif name == "--trust-builder":
            out["trust_builder"] = True
        elif name == "--trust-extra-buildpacks":
            out["trust_extra"] = True
        else:
            return ("error", f"unexpected option {name}")
    if len(pos) != 1:
        return ("error", f"{len(pos)} positionals")
    out["image"] = pos[0]
    return out
