#!/bin/sh
# usage: tools/try_seed.sh <patch.diff> <property> [tier]  -- apply a seeded change to /repo, run the check, undo it
patch="$1"; prop="$2"; tier="${3:-quick}"
cd /verif || exit 2
git -C /repo diff --quiet || { echo "/repo has local changes"; exit 2; }
git -C /repo apply "$patch" || { echo "patch does not apply"; exit 2; }
./check "$prop" --tier "$tier"; code=$?
git -C /repo checkout -- . && git -C /repo clean -fdq -- . ':!target'
echo "SEED-RESULT patch=$patch property=$prop exit=$code"
exit 0
