#!/bin/sh
# usage: tools/verify_seed.sh <seed id e.g. C09-1> <crate dir e.g. libcnb-data> <worktree>
# confirms: patch applies, suite passes with patch (189), demo fails with patch, demo passes without patch.
id="$1"; crate="$2"; wt="$3"; out=${SEED_OUT:-/tmp/seed/out}/$id
export CARGO_TARGET_DIR=$wt/target CARGO_NET_OFFLINE=true
cd "$wt" || exit 2
git checkout -q -- . ; git clean -fdq -e target
git apply "$out/patch.diff" || { echo "VERIFY $id: patch does not apply"; exit 1; }
cargo test --workspace --no-fail-fast --offline --lib --bins --tests > $out/suite.log 2>&1
pass=$(grep -E "^test result" $out/suite.log | awk '{p+=$4; f+=$6} END {print p"/"f}')
mkdir -p $crate/tests; cp $out/demo_test.rs $crate/tests/seed_demo.rs
pkg=$(basename $crate)
cargo test --offline -p $pkg --test seed_demo > $out/demo_with.log 2>&1; with=$?
git checkout -q -- .
cargo test --offline -p $pkg --test seed_demo > $out/demo_without.log 2>&1; without=$?
rm -rf $crate/tests/seed_demo.rs; git clean -fdq -e target
echo "VERIFY $id: suite passed/failed=$pass demo_with_patch_exit=$with demo_without_patch_exit=$without" | tee $out/verify.txt
