#!/usr/bin/env python3
"""copy a verified seeded change from /tmp/seed/out/<id> into /verif/seeded/<id> (patch, demonstration, meta)"""
import json, os, shutil, sys
for sid in sys.argv[1:]:
    src, dst = os.path.join(os.environ.get("SEED_OUT", "/tmp/seed/out"), sid), f"/verif/seeded/{sid}"
    os.makedirs(dst, exist_ok=True)
    for f in ("patch.diff", "demo_test.rs"):
        shutil.copy(os.path.join(src, f), dst)
    m = json.load(open(os.path.join(src, "meta.json")))
    v = open(os.path.join(src, "verify.txt")).read().strip()
    meta = {"property": m["property"], "breaks": m.get("summary", m.get("breaks")), "needs": m["needs"], "files_changed": m.get("files_changed"),
            "author": "independent sub-agent (given only the property text and a scratch worktree)",
            "confirmed_by_me": {"ran": "tools/verify_seed.sh (apply patch; cargo test --workspace --no-fail-fast --offline --lib --bins --tests; "
                                       "copy demo_test.rs to <crate>/tests/seed_demo.rs; cargo test --test seed_demo with and without the patch)",
                                "result": v},
            "demo_instructions": m.get("demo", "copy demo_test.rs to <demo_crate>/tests/seed_demo.rs; cargo test -p <demo_crate> --offline --test seed_demo"), "detected_by": None}
    json.dump(meta, open(os.path.join(dst, "meta.json"), "w"), indent=1)
    print("imported", sid)
