#!/usr/bin/env python3
"""Regenerates /verif/MANIFEST.json from the table below (run after adding a harness)."""
import json, os

HERE = os.path.dirname(os.path.dirname(os.path.abspath(__file__)))
BASE_NOTE = ("Trusted base: rustc's MIR for the current source (nightly, -Zunpretty=mir, overflow-checks on, default features); "
             "the mirsym MIR parser/executor; the listed summaries of std/third-party code; z3 5.1 (cross-checked by cvc5 1.0 and "
             "z3 4.8.12 on `unknown`, and on every `unsat` in the thorough tier); the reference semantics under /verif/spec. "
             "Every explored path's solver witness is replayed against the real crates (public API) and any disagreement makes "
             "the run inconclusive (exit 2).")

CHECKS = {
    "C01": dict(
        text="Bounded model checking of the struct layer API from its MIR: BuildContext::cached_layer / uncached_layer down to "
             "handle_layer, create_layer, read/write/delete_layer, replace_layer_*, remove_dir_recursively, read/write_toml_file, the "
             "derived (de)serializers of LayerContentMetadata/LayerTypes and the four IntoAction impls are executed on an arbitrary "
             "layers directory satisfying the layer invariant (one inductive step, so histories of any length), with the callbacks' "
             "decisions, return forms and errors as branch points. Per path the solver decides: reported state == decision table of the "
             "statement, callbacks see the stored metadata (as the buildpack's type M sees it: the stored table may carry keys M ignores, a solver "
             "variable), toml declares exactly the requested flags, restored keeps every node and the stored metadata table itself (not its "
             "projection through M), empty leaves no file/metadata/SBOM, the bystander layer is untouched, and the invariant is re-established.",
        design_ref="DESIGN.md §5 C01",
        technique="symbolic execution of rustc MIR (mirsym) over a symbolic file-system state + SMT (z3); one inductive step from the layer invariant; witness replay on a real temp dir",
        note="Layer invariant and metadata law (from_str(to_string(m)) == Ok(m)) assumed; permission bits/symlinks are C11's subject, I/O "
             "faults C12's; toml text layer abstracted to trees. " + BASE_NOTE),
    "C09": dict(
        text="Bounded model checking of the real parsing code from its MIR: the four libcnb_newtype! expansions (from_str, Deserialize, "
             "derived Serialize, Display), verify_regex's decision logic, BuildpackVersion/BuildpackApi try_from and Display are "
             "executed symbolically on an arbitrary string; per path the solver decides accept <=> reference grammar, value/display/"
             "serialisation == input, and parse(display(v)) == v. Identifier grammars: strings of unbounded length (regex-language "
             "decision); versions: all strings up to 8 (quick) / 12 (thorough) characters; round trip: all u64 tuples.",
        design_ref="DESIGN.md §5 C09",
        technique="symbolic execution of rustc MIR (mirsym) + SMT (z3 strings/regex; cvc5, z3-4.8 portfolio); witness replay on the real crates",
        note="LayerName domain: strings without '/' and NUL. [[:alnum:]] = ASCII. fancy_regex literal semantics as translated by mirsym/rx.py. "
             "Outside: toml text layer, syn token parsing around verify_regex. " + BASE_NOTE),
}

CHECKS["C19"] = dict(
    text="Writer half only. Bounded model checking from MIR of mapped, line_mapped, tee, MappedWrite::{new, write, flush, unwrap, "
         "map_and_write_current_buffer}, Drop for MappedWrite, TeeWrite::{write, flush} and mappers::add_prefix: input of up to 5 (quick) / 7 "
         "(thorough) arbitrary bytes with an arbitrary marker byte, every way of cutting it into <= 3 write calls (empty writes included), "
         "ended by drop or unwrap; the solver decides for every marker pattern consistent with a path that the inner writer received exactly "
         "map(segment) for each marker-terminated segment plus the non-empty remainder (tee: both targets == input). The sub-process "
         "streaming half (spawn/output_and_write_streams: two OS pipes, two copier threads) is NOT covered: concurrency and pipes are out of "
         "reach of this sequential MIR executor and of Kani; no claim is made about deadlock freedom or stream completeness.",
    design_ref="DESIGN.md §5 C19, §6",
    technique="symbolic execution of rustc MIR (mirsym) incl. Drop glue + SMT (z3) with solver-enumerated marker patterns; witness replay on the real crate",
    note="Inner writer = in-memory sink that never fails. Streaming half not applicable (see level text). " + BASE_NOTE)

CHECKS["C13"] = dict(
    text="Bounded model checking from MIR of create_dependency_graph, get_dependencies, BuildpackDependencyGraphNode's DependencyNode "
         "impl and petgraph's own DfsPostOrder::{empty, move_to, next}: every labelled DAG on 1..4 nodes (quick; edges as solver "
         "variables with an acyclicity ranking) / 1..5 nodes in both insertion orders (thorough), both dependency-list orders, every ordered "
         "root selection without repetition (<= 2 / <= 3 roots), optionally one dependency on an unknown id. Per path the solver decides: "
         "output == reachable closure of the roots, each once, every node after all its dependencies; dangling => Err(MissingDependency). "
         "Second step (round 3): buildpack_dependency_graph::get_buildpack_dependencies executed from MIR over a package descriptor with 0..3 (quick) / 0..4 "
         "(thorough) dependencies, each libcnb:<symbolic valid id> | relative path | docker:// URI in every order; the solver decides that the "
         "node's edges are exactly the libcnb ids in order; every path's witness is replayed through build_libcnb_buildpacks_dependency_graph on a real workspace.",
    design_ref="DESIGN.md §5 C13, §11.6b",
    technique="symbolic execution of rustc MIR of libcnb-package and petgraph (mirsym) with edges as SMT variables + z3; witness replay through the public API on a temp workspace",
    note="petgraph::Graph storage (adjacency order: newest edge first) and the FixedBitSet visit map are summaries. Choosing which directories are "
         "buildpacks (directory walk, buildpack kind) and reading buildpack.toml into a node id are outside. " + BASE_NOTE)

CHECKS["C04"] = dict(
    text="Bounded model checking from MIR of LayerEnv::{new, insert, apply}, LayerEnvDelta::{insert, apply, delimiter_for}, "
         "ModificationBehavior::cmp/partial_cmp and Env::{new, insert, get, contains_key, clone}: up to 2 inserts, each "
         "any of 5 scopes x 5 behaviours x 2 names (thorough: a third insert over {all, process p} x {append, delim, override} on one name) with an arbitrary (unbounded, possibly empty) string value, 5 query scopes incl. an "
         "unknown process, each name initially unset or set to an arbitrary string. Per path the solver decides that the resulting "
         "environment equals the CNB modification rules (spec/env_rules.py) for every variable, that untouched variables and the input "
         "environment are unchanged; both insertion orders of every pair are among the explored paths.",
    design_ref="DESIGN.md §5 C04",
    technique="symbolic execution of rustc MIR (mirsym) with string-valued SMT variables + z3; oracle = CNB rules as an SMT term; witness replay on the real crate",
    note="OsString = string of code units; BTreeMap ordered by the key's own Ord (MIR). " + BASE_NOTE)

CHECKS["C11"] = dict(
    text="Bounded model checking from MIR of the delete/recreate path (BuildContext::uncached_layer -> handle_layer -> read_layer, "
         "delete_layer, remove_dir_recursively incl. its recursion, default_on_not_found, create_layer, write_layer) over a file-system model "
         "with owner permission bits and symbolic links: the layer path is absent, a directory (4 modes) or a symlink to an outside dir / "
         "outside file / sibling layer / nothing; two entries each absent, file, directory (4 modes, optional child file or outward symlink) "
         "or a symlink with 7 kinds of target (outside file/dir, sibling layer, inside path, itself, dangling, relative escape); canary tree "
         "and sibling layer with symbolic modes. Per path the solver decides that every node outside the layer keeps kind, mode and content "
         "(on Ok and on Err) and that on Ok all of the layer's own entries are gone.",
    design_ref="DESIGN.md §5 C11",
    technique="symbolic execution of rustc MIR (mirsym) over a POSIX file-system model with permission bits and symlinks + z3; witness replay as an unprivileged user on a real temp dir",
    note="Process is the owner of every node and not root; depth <= 2, <= 2 entries per directory. " + BASE_NOTE)

CHECKS["C12"] = dict(
    text="Fault enumeration by the solver over the real code: the struct-API layer request (C01 universe) and the LayerRef writers "
         "(write_metadata, write_sboms, write_exec_d_programs), the trait-API BuildContext::handle_layer with a scripted Layer implementation (every "
         "strategy / metadata-migration / create / update result: no env, env in a scope incl. a process scope, env + exec.d + SBOM, missing exec.d source; "
         "quick tier: 2 result shapes (process-scope env; env + exec.d + SBOM), explicit callback answers only, no bystander layer; thorough tier: all 7 shapes, the default methods too, bystander present) and the phase entry point libcnb_runtime (as detect passing with a plan; as build "
         "writing launch.toml, store.toml and three SBOM files after reading buildpack.toml, <platform>/env, the buildpack plan and an existing "
         "store.toml) are executed from MIR with one injected I/O fault whose position k is an SMT "
         "variable ranging over every registered mutating or data-reading file-system call of the path (open-for-write, data write, read, "
         "mkdir, unlink, rmdir, chmod, opendir, copy, recursive removal; std::fs::File/BufWriter handles incl. their Drop are modelled). On "
         "every path where the fault hits, the call must return Err (phase: exit status neither 0 nor 100, on_error at most once). "
         "Counterexamples, a sample of faulted paths and every phase fault are replayed on the "
         "real build with an LD_PRELOAD injector that fails the corresponding libc call with EIO.",
    design_ref="DESIGN.md §5 C12",
    technique="symbolic execution of rustc MIR (mirsym) with the fault position as an SMT variable + z3; replay with an LD_PRELOAD fault injector",
    note="Covers the struct layer API, LayerRef writers, trait-API layer handling and the phase outputs; faults inside the buildpack's own callbacks are outside this check's claim. "
         "Stricter than the statement (any hit fault must surface as Err). Metadata probes (exists/is_dir) are not fault positions. " + BASE_NOTE)

CHECKS["C03"] = dict(
    text="Bounded model checking from MIR of LayerEnv::{new, insert, write_to_layer_dir, read_from_layer_dir} and LayerEnvDelta::{insert, "
         "write_to_env_dir, read_from_env_dir} over directories with symbolically named entries: the previous environment is an arbitrary "
         "stale file in each env directory, the new environment is empty, one entry (4 scopes incl. a process x 5 behaviours), two entries "
         "in one scope (all behaviour pairs) or in two scopes (all scope pairs); variable names are SMT strings over {letter, dot, letter, "
         "0xFF} of length 1..2 (quick) / 1..4 (thorough), values arbitrary strings. Per path the solver decides: the files on disk are "
         "exactly NAME.<suffix> with the raw value in the spec's directory per scope, nothing stale remains, the bystander file is untouched, "
         "and reading back yields the written environment for every scope. Read side: env/, env.build/ or env.launch/ holding two files "
         "<stem><tail> that libcnb did not write (stem an SMT string over the same alphabet, tail one of: none, the five suffixes, `.bogus`, "
         "`.`) and optionally a sub-directory; the solver decides that reading yields exactly: known suffix -> that behaviour for <stem>, "
         "suffix-less -> override, unknown/empty suffix and directories ignored.",
    design_ref="DESIGN.md §5 C03",
    technique="symbolic execution of rustc MIR (mirsym) with SMT-string file names in a directory model + z3 strings; witness replay on a real temp dir",
    note="Names without '/' and NUL; Path::file_stem/extension per std's documented rule. Read side bounded to two foreign files per directory. " + BASE_NOTE)

CHECKS["C10"] = dict(
    text="Bounded model checking from MIR of LayerEnv::{read_from_layer_dir, write_to_layer_dir, apply} (+ LayerEnvDelta, Env): bin and "
         "lib take each of the six kinds (absent, directory, file, symlink to a directory, symlink to a file, dangling symlink) "
         "symbolically, include/pkgconfig both absent or both directories (quick) / all 6^4 assignments (thorough); none or one explicit "
         "entry (3 scopes x 4 behaviours on PATH; thorough: 3 variables); on every path all four query scopes x three starting "
         "environments (unset, arbitrary non-empty, empty) are evaluated. The solver decides that apply equals the statement's table "
         "(variable, scope, ':' separator, is_dir through symlinks, nothing in other scopes) on top of the CNB rules for the explicit "
         "entry, and that two read->write cycles leave env/, env.build/, env.launch/ unchanged (fixpoint).",
    design_ref="DESIGN.md §5 C10",
    technique="symbolic execution of rustc MIR (mirsym) over a file-system model with symlinks + z3; witness replay on a real temp dir",
    note="unix path-list separator; explicit-entry semantics taken from the C04 oracle. " + BASE_NOTE)

CHECKS["C02"] = dict(
    text="Bounded model checking from MIR of BuildContext::handle_layer -> trait_api::handling::{handle_layer, handle_create_layer, "
         "handle_update_layer, write_layer, read_layer}, the Layer trait's default methods, the shared layer functions, "
         "LayerEnv::{read_from_layer_dir, write_to_layer_dir} and the derived (de)serializers, one inductive step from any layers directory "
         "satisfying the layer invariant. The buildpack's Layer impl is a set of logged harness callbacks: types() arbitrary; strategy in "
         "{Keep, Update, Recreate, Err, default}; migration in {RecreateLayer, ReplaceMetadata, Err, default}; create/update return Err, the "
         "default, or one of 7 result shapes (no env; an env entry in each of the four scopes incl. a process; env+exec.d+SBOM; exec.d with a "
         "missing source). Per path the solver decides: callbacks run exactly as the statement prescribes, the on-disk layer equals the "
         "callback's result (or, for keep, the previous files with refreshed types), the returned LayerData equals the disk, the bystander "
         "layer is untouched.",
    design_ref="DESIGN.md §5 C02",
    technique="symbolic execution of rustc MIR (mirsym) over a symbolic file-system state with harness-bound trait callbacks + z3; witness replay through the public trait API",
    note="Layer invariant and metadata law assumed; env variable names concrete (C03 covers symbolic names); quick tier: one SBOM format, no "
         "pre-existing exec.d program. " + BASE_NOTE)

CHECKS["C20"] = dict(
    text="Self-composition over the real code: trait-API handle_layer (create / update / keep / recreate / metadata migration, with a result "
         "carrying two process-scoped env deltas plus a launch delta, two exec.d programs and two SBOMs) and the struct-API writers "
         "write_exec_d_programs / write_sboms (exec.d program names plain or nested with a shared final component) are executed from MIR twice on "
         "two copies of one arbitrary symbolic layers directory, and the build phase entry point libcnb_runtime (result: launch.toml with three "
         "processes incl. a repeated type and a label, store.toml, three SBOM files) twice on two copies of a valid platform input; in the "
         "second run every HashMap iteration and every directory listing is permuted by a solver-chosen permutation. The solver decides "
         "that both runs end in the same result class and, when they succeed, in node-for-node identical post-states (file kinds, "
         "contents, toml trees). Any clock/randomness/pid/temp-name call has no summary, so reaching one is inconclusive. Six fresh "
         "processes of the real build (fresh hash seeds) are compared byte for byte as validation.",
    design_ref="DESIGN.md §5 C20",
    technique="self-composition by symbolic execution of rustc MIR (mirsym) with solver-chosen iteration permutations + z3; repeated real runs in fresh processes",
    note="The detect phase's build plan is not self-composed (no collection is iterated there); toml text layer outside (ordered trees compared). " + BASE_NOTE)

CHECKS["C08"] = dict(
    text="Bounded model checking of the derived Deserialize MIR (deserialize, visit_map, __FieldVisitor::visit_str, defaults, "
         "deny_unknown_fields, the untagged BuildpackDescriptor) of 17 document structs against schemas written from the CNB spec "
         "(spec/schemas.py): per struct every subset of present keys (presence is a solver variable) combined with one mutation point "
         "(none, an undefined key, a wrong kind at a key, a wrong element kind, an invalid child value/element, an empty or two-element "
         "array); child types are abstracted to accepted/rejected, so the check is compositional. The solver decides accepted <=> "
         "conforming, that parsed fields equal the document's values / spec defaults, and for descriptors: composite iff `order` is "
         "present, `order` with `stacks`/`targets` rejected.",
    design_ref="DESIGN.md §5 C08",
    technique="symbolic execution of serde-derived rustc MIR (mirsym) over abstract TOML trees with SMT presence variables + z3; witness replay through toml::from_str on the real crate",
    note="toml text layer and syntax errors outside; identifier/version grammars are C09's; LayerContentMetadata<M> is exercised in C01/C02; "
         "Process/Slice/WorkingDirectory not yet covered. " + BASE_NOTE)

CHECKS["C18"] = dict(
    text="Bounded model checking from MIR of Inventory::{resolve, partial_resolve} (closures and the nested partial_max_by_key included) "
         "and Checksum::{from_str, serialize}: 0..3 (quick) / 0..4 (thorough) artifacts with arbitrary os/arch, versions as SMT integers "
         "(total order incl. ties for resolve; 2-dimensional product order, into which every poset on <= 4 elements embeds, for "
         "partial_resolve), an arbitrary requirement predicate (one Boolean per artifact) and every os x arch query. The solver decides "
         "that the result matches all three criteria and no matching artifact is strictly greater, and None <=> nothing matches. "
         "Checksum::from_str is decided on strings of unbounded length against `sha256:<hex>` with the digest length scaled down to 2 / 4 "
         "bytes; parse(render(c)) == c. Round trip: the derived Serialize of Inventory/Artifact/Os/Arch (+ Checksum's own) turns an inventory "
         "of 0..2 artifacts (version, url, optional metadata as SMT strings; every os/arch; arbitrary digest) into a document and the derived "
         "Deserialize turns it back into equal artifacts.",
    design_ref="DESIGN.md §5 C18",
    technique="symbolic execution of rustc MIR (mirsym) with version ranks and the requirement as SMT variables + z3 (strings/regex for checksums); witness replay on the real crate",
    note="Lawful Ord/PartialOrd assumed; hex::decode/encode summarised by their contract; real digest lengths (32/64 bytes) exceed what the string "
         "solver decides in time (scaled-down lengths stated); the round trip is on document trees (text layer via replay only). " + BASE_NOTE)

CHECKS["C17"] = dict(
    text="Bounded model checking from MIR of the argument assembly `From<DockerRunCommand> for Command` (with mount_csv_field), "
         "`From<DockerExecCommand> for Command` and `From<PackBuildCommand> for Command`: every user-supplied string (entrypoint, platform, "
         "env names/values, bind-mount paths, command words, builder, app path, buildpack references) is an unbounded SMT string, ports are "
         "SMT integers; optional entrypoint/platform, 0..2 env pairs in both key orders and with colliding keys, 0..2 ports, 0..2 command words, "
         "one bind mount next to a reduced option set, 0..2 buildpack references of either kind. The produced argv is "
         "parsed back on the same path by reference parsers of docker's and pack's option grammars (spec/cli.py, incl. Go encoding/csv for "
         "--mount) and the solver decides that the parse equals the configuration (each pair/port/mount once, buildpacks in order, values "
         "only in value positions). Build half: TestRunner::{build, build_internal}, TestContext::rebuild, app::copy_app and util::run_command "
         "are executed from MIR for a BuildConfig with a symbolic builder, two symbolic `Other` buildpack ids (possibly equal), 0..1 env pair, "
         "with/without app preprocessor and both expected pack results: exactly one pack build per configuration carrying builder, buildpacks "
         "in order and env pairs once, --path = the fixture or the private temp copy the preprocessor saw, fixture untouched. Container half: "
         "TestContext::start_container from MIR with a ContainerConfig whose entrypoint, command word, env pair, exposed port and bind mount "
         "are solver variables; the recorded docker run argv, decoded by the reference parser, must equal the configuration.",
    design_ref="DESIGN.md §5 C17",
    technique="symbolic execution of rustc MIR (mirsym) with SMT strings + z3; oracle = symbolic reference parser of the docker/pack command-line grammar; witness replay against the real From impls",
    note="Assumed: env names non-empty without '=', no NUL, no CR in mount paths, generated container/image names. The command structs are "
         "pub(crate): the replay driver compiles /repo's docker.rs and pack.rs via #[path]. " + BASE_NOTE)

CHECKS["C16"] = dict(
    text="Bounded model checking from MIR of TestRunner::{build, build_internal}, TestContext::{start_container, run_shell_command, "
         "download_sbom_files, rebuild, determine_container_platform}, ContainerContext::{logs_now, logs_wait, address_for_port, shell_exec}, "
         "Drop for ContainerContext and TemporaryDockerResources (incl. unwinding and drop glue), util::run_command, app::copy_app and all "
         "From<..Command> for Command impls. The test closures are scenario programs chosen step by step: <= 3 "
         "steps from {start_container(nested program), run_shell_command, download_sbom_files(closure returns|panics), rebuild(nested "
         "program), panic, return} and container steps {logs_now, logs_wait, address_for_port(exposed|unexposed), shell_exec, panic, return}; "
         "the exit code of every external command is a solver variable with at most 1 (quick) / 2 (thorough) non-zero; a panic is injectable "
         "at every step; three build configurations (thorough: all eight for the first build). When a scenario ends (return, panic or abort) the recorded "
         "command list and the file-system model must show: every detached container force-removed after its start; image and both cache "
         "volumes force-removed exactly once after their last use; nothing else removed; no temp dir left; fixture untouched.",
    design_ref="DESIGN.md §5 C16",
    technique="symbolic execution of rustc MIR (mirsym) incl. unwinding/Drop with symbolic exit codes + z3; scenario programs as branch points; witness replay in a child process with stand-in docker/pack executables on PATH",
    note="Closures are harness programs that drop what they own at their end and while unwinding (rustc's drop glue); tempfile/fs_extra/"
         "fastrand are stubs by contract; commands that cannot be spawned and buildpack packaging (cargo) are outside. " + BASE_NOTE)

CHECKS["C14"] = dict(
    text="Bounded model checking from MIR of normalize_package_descriptor, replace_libcnb_uris, replace_libcnb_uri, "
         "absolutize_dependency_paths, buildpack_id_from_libcnb_dependency (with all closures), util::{absolutize_path, normalize_path}, "
         "PackageDescriptorDependency::try_from and BuildpackId::from_str. Descriptors: 0..2 dependencies of the six "
         "kinds in every order and multiplicity at two (quick) / four (thorough) locations with a 0..2-entry id->path map, plus a single relative dependency in every "
         "shape of 1..3 / 1..4 components from {., .., n, m.d} with optional doubled/trailing separator at four locations (incl. `/`, so "
         "climbing above the root). Buildpack ids, map keys and values and the tails of verbatim URIs are SMT strings; the solver decides per "
         "path: Err <=> some libcnb id is invalid or not a key; otherwise same number and order, libcnb -> the value of exactly the equal key, "
         "relative -> posix normpath(join(location, path)), every other URI verbatim, buildpack uri and platform unchanged.",
    design_ref="DESIGN.md §5 C14",
    technique="symbolic execution of rustc MIR (mirsym) with SMT strings for ids/paths + z3; reference = lexical path normalisation and map lookup as SMT terms; witness replay through package_composite_buildpack in a chroot-ed scratch tree",
    note="uriparse::URIReference is a model (mirsym/summ_uri.py: RFC 3986 shape, text/scheme/path preserved); symbolic pieces are unreserved URI "
         "characters without empty path segments; TOML reading/writing of package.toml is C08/C07's subject (the replay goes through the real files). " + BASE_NOTE)

CHECKS["C05"] = dict(
    text="Bounded model checking from MIR of the whole entry point libcnb_runtime (API gate, argv[0]/argument handling, exit), "
         "libcnb_runtime_detect, libcnb_runtime_build, DetectArgs/BuildArgs::parse, read_buildpack_dir, read_buildpack_descriptor, context_target, "
         "read_platform_env, read_toml_file/write_toml_file with the derived (de)serializers of BuildpackDescriptorApiOnly, BuildpackApi, "
         "BuildpackPlan, Store, BuildPlan, Launch. Product explored: 10 executable names (incl. near misses such as bin/detect.exe, build.bak, xdetect, build/launcher) x 0..4 arguments x buildpack.toml (absent | invalid syntax "
         "| no api key | api = <major>.<minor> / <major> with both numbers solver variables over u64 | 11 malformed spellings | rest of the "
         "descriptor accepted/rejected) x presence of CNB_BUILDPACK_DIR and each CNB_TARGET_* variable (solver variables) x buildpack "
         "behaviour (detect: fail, pass, pass+plan, error; build: error or 6 (quick) / 36 (thorough) combinations of launch, store "
         "none/empty/non-empty, build and launch SBOM sets) x each output file pre-existing or not x valid/invalid buildpack plan and old "
         "store. Per path the solver decides the statement's decision table: exit code, exactly-once on_error, buildpack code never reached "
         "and never exit 0 unless the API denotes 0.10 and name, argument count and mandatory environment are right, and exactly the provided "
         "outputs written (all others byte-identical to their old state).",
    design_ref="DESIGN.md §5 C05",
    technique="symbolic execution of rustc MIR (mirsym) over models of argv/env/cwd/exit and the file system, API version numbers and presence flags as SMT variables + z3; witness replay by re-executing the driver as detect/build with a recording buildpack",
    note="No I/O faults while writing (C12); the full descriptor's deserialisation is abstracted to accepted/rejected (C08/C06); toml text layer "
         "abstracted; `trace` feature off. " + BASE_NOTE)

CHECKS["C06"] = dict(
    text="Bounded model checking from MIR of the context construction in libcnb_runtime_detect/build (entered through libcnb_runtime): "
         "read_buildpack_dir, read_buildpack_descriptor with the derived Deserialize of ComponentBuildpackDescriptor<GenericMetadata>, Buildpack, "
         "BuildpackId, BuildpackVersion, BuildpackApi; context_target; read_platform_env (directory scan, is_file through symlinks, "
         "read_to_string, Env::insert) via GenericPlatform::from_path; read_toml_file of BuildpackPlan/Entry and Store with the NotFound "
         "tolerance. <platform>/env is missing or holds 2 entries, each a regular file | invalid-UTF-8 file | directory | symlink to file | symlink "
         "to directory | dangling symlink | absent, with SMT-string names and contents; target variables are SMT strings (ARCH_VARIANT present or "
         "not); 0..2 plan entries with symbolic names and optional metadata; optional descriptor name/metadata; store.toml absent | valid | "
         "invalid UTF-8 | directory | invalid syntax; both phases. The solver decides per path that every context field equals what was "
         "supplied (env = exactly the regular files incl. via symlink with exact name and content; free-form tables by identity), that "
         "tolerated inputs are tolerated, and that an unreadable/unrepresentable input ends in exactly one on_error and a non-0/100 exit "
         "without the phase running.",
    design_ref="DESIGN.md §5 C06",
    technique="symbolic execution of rustc MIR (mirsym) over a file-system model with symbolic directory entries and symlinks, SMT strings for names/contents/variables + z3; witness replay by re-executing the driver as detect/build and dumping the received context",
    note="Quick tier explores all entry kinds in detect and a reduced set in build (same scanning code). Process environment values are modelled as Rust strings: "
         "non-UTF-8 CNB_TARGET_* values are outside this check (seed C06-3 is not detected). Free-form TOML tables are identity-tracked; "
         "non-UTF-8 file names and custom Platform/Metadata types are outside. " + BASE_NOTE)

CHECKS["C07"] = dict(
    text="Claimed at the serde data-model level (the toml crate's tree->text step is outside). Bounded model checking from MIR of "
         "BuildPlanBuilder::{new, provides, requires, or, build}, Require::new/From<S>, LaunchBuilder::{new, process, label, slice, build}, "
         "ProcessBuilder::{new, arg, default, working_directory, build}, the derived/hand-written Serialize of BuildPlan, Or, Provide, Require, "
         "Launch, Process, ProcessType, WorkingDirectory, Label, Slice, Store, ExecDProgramOutput(+Key), write_toml_file, "
         "write_exec_d_program_output (fd 3) and read_toml_file with the derived Deserialize of Launch/Process/Label/Slice/Store. Every "
         "BuildPlanBuilder call sequence of length 0..4 (quick) / 0..5 (thorough) over {provides, requires, requires+metadata, or} - so empty "
         "groups in every position -, every LaunchBuilder sequence of length 0..3 over {process, label, slice} (quick: 4 representative "
         "process shapes; thorough: command 1..2 x arg x default x working dir), a store, 0..2 exec.d pairs; all string payloads are SMT "
         "strings over every Unicode scalar value, flags solver variables. An independent reader applying the CNB field names and defaults "
         "to the produced document must recover exactly the constructed value (solver-decided), and reading back yields an equal value.",
    design_ref="DESIGN.md §5 C07",
    technique="symbolic execution of rustc MIR (mirsym) of builders and derived Serialize/Deserialize over abstract TOML trees with SMT strings + z3; oracle = independent reader of the CNB document schema; witnesses replayed through the real writers and parsed with Python tomllib",
    note="No for-all claim about the bytes (escaping, TOML 1.0 validity): a change that replaces toml::to_string by hand-formatted text ends "
         "inconclusive (exit 2), not detected. The untagged WorkingDirectory Deserialize is a hook. LayerContentMetadata is C01/C02's, package "
         "descriptors C14's. " + BASE_NOTE)

CHECKS["C15"] = dict(
    text="Bounded model checking from MIR of libcnb-cargo's package::command::execute (package-dir resolution, build-order loop with "
         "remove_dir_all + create_dir_all of every output directory, stdout), create_packaged_buildpack_dir_resolver, get_dependencies with "
         "petgraph's DfsPostOrder, package_buildpack, determine_buildpack_kind, package_libcnb_buildpack, assemble_buildpack_directory, "
         "create_file_symlink, package_composite_buildpack and normalize_package_descriptor, over the file-system model. cargo is a stub by "
         "contract (locate-project -> workspace root; metadata; build succeeds and leaves the binaries under the target dir); the directory "
         "walk + per-buildpack toml reading is replaced by handing the workspace's nodes to the real create_dependency_graph. Workspaces: "
         "libcnb.rs buildpack with 1 or 2 binary targets [+ a second one] [+ a composite depending on libcnb:a/x, a relative path and a "
         "docker image]; invoked from the root, a buildpack's or the composite's directory; dev/release; default, `out-dir` or `out dir` "
         "package dir. Self-composition: the same invocation is executed with the output directories absent and pre-seeded (empty dir | "
         "complete old output | partial output without buildpack.toml | foreign files only; quick: one directory varied, thorough: every "
         "selected directory independently; file contents SMT strings). Decided per path: both runs return the same result and stdout, "
         "leave the same tree under the package directory, and the clean run has exactly the statement's layout (byte-identical "
         "buildpack.toml, bin/build, bin/detect -> build, additional binaries, package.toml with the composite's dependencies normalised "
         "against its source directory), only for the selected buildpacks and their dependencies; stdout = the selected directories.",
    design_ref="DESIGN.md §5 C15, §11",
    technique="symbolic execution of rustc MIR (mirsym) over a file-system model, self-composition of a clean and a pre-seeded run + z3; cargo and the directory walk as stubs by contract; witness replay with the real cargo-libcnb binary on generated workspaces (host target)",
    note="Outside: what cargo compiles, failing cargo builds, the ignore crate's walk/.gitignore semantics, reading buildpack.toml/package.toml into "
         "graph nodes (C08/C13), cross-compile assistance, a regular file or symlink at an output directory's own path, the two stderr helpers "
         "(floating-point size formatting). Known finding: composite packaging fails when the package dir is not URI-safe. " + BASE_NOTE)

NOT_YET = "check not built yet in this round (see DESIGN.md §9 build order); no claim is made"
NOT_APPLICABLE = {}
ALL = [f"C{i:02d}" for i in range(1, 21)]


def main():
    checks = []
    for pid in ALL:
        c = CHECKS.get(pid)
        if not c:
            continue
        checks.append({
            "property_id": pid,
            "quick_cmd": f"./check {pid} --tier quick",
            "thorough_cmd": f"./check {pid} --tier thorough",
            "evidence_file": f"evidence/{pid}.json",
            "replay_cmd_template": f"./check {pid} --replay {{path}}",
            "engine": "mirsym",
            "level_claimed": {"category": "model_checking", "text": c["text"], "design_ref": c["design_ref"]},
            "level_note": c["note"],
            "technique": c["technique"],
        })
    na = [{"property_id": pid, "reason": NOT_APPLICABLE.get(pid, NOT_YET)} for pid in ALL if pid not in CHECKS]
    m = {
        "version": 1,
        "setup_cmd": "./check --setup",
        "hooks": {
            "guard": "libcnb_rs_verif",
            "enable": "no source hooks are needed: the checks read rustc's MIR of the unmodified crates and drive the public API; "
                      "(RUSTFLAGS='--cfg libcnb_rs_verif' would enable hooks if any existed)",
            "baseline_off_cmd": "cd /repo && cargo test --workspace --no-fail-fast --offline --lib --bins --tests",
            "source_commits": [],
            "add_only": True,
        },
        "engines": [{"name": "mirsym", "path": "mirsym/", "serves_properties": sorted(CHECKS),
                     "kind_free_text": "symbolic executor for rustc MIR text (dumped from /repo on every run) with SMT back ends "
                                       "(z3 5.1 in-process; cvc5 1.0 / z3 4.8.12 external portfolio) and a Rust replay driver (replay/)"}],
        "checks": checks,
        "not_applicable": na,
        "notes": "Exit codes: 0 held within bounds (KNOWN-FINDING lines allowed), 1 reproduced unlisted violation, 2 inconclusive. "
                 "known_findings.json lists recorded findings and `fixed:` entries.",
    }
    with open(os.path.join(HERE, "MANIFEST.json"), "w") as f:
        json.dump(m, f, indent=1)
    print("MANIFEST.json:", len(checks), "checks,", len(na), "not claimed")


if __name__ == "__main__":
    main()
